"""C03 — No lost updates: writers of the same object cannot both commit blindly.

Correspondence check of `lean/ZodbModel/StoreRules.lean` (theorems in `lean/Props/C03.lean`) against
FileStorage, MappingStorage and DemoStorage, in three sections:

  storage    programs of 2-3 logical writers over shared oids driving the storage API directly:
             begin/store/checkCurrentSerialInTransaction/vote/finish/abort with explicit serials that
             were "read" at an arbitrary earlier time; a `tpc_begin` while the lock is held is probed
             in a helper thread and must stay blocked until the holder finishes or aborts
  db         two or three Connections (own TransactionManagers) over one DB: interleaved reads,
             writes, readCurrent, commits, aborts; the storage calls the Connections make are
             recorded and replayed on the model
  schedules  2-3 committer threads under the deterministic scheduler (harness/sched.py), every lock
             operation a preemption point; recorded calls replayed on the model in real order

Direct oracle (Python, independent of the Lean model): tracks the committed history from the REAL
outcomes only and checks the property on it — mutual exclusion of the commit lock, every accepted
store's serial = tid of the immediately preceding revision (or the stored state is the class's merge
of (state at that serial, preceding state, wanted)), a failed store leaves no revision, successful
readCurrent checks still hold at finish, final state = serial replay of the successful transactions
in tid order; at DB level additionally a parent-pointer check by VALUE (every write records the value
its connection saw; every committed revision's parent must be the preceding revision's value).
"""
import json
import os
import re
import sys

sys.path.insert(0, os.path.dirname(os.path.abspath(__file__)))
from common import Check, InfraError, run_driver, ddmin  # noqa: E402
import c03_lib as L  # noqa: E402
import c10_classes as K  # noqa: E402

KINDS = ['file', 'mapping', 'demo:mapping:mapping', 'demo:file:mapping']
# A readCurrent declaration made AFTER savepoint k, popped by the store of a later savepoint (the object
# was written), was forgotten when the transaction rolled back to k (C03:readcurrent-dropped-by-rolled-back-write,
# repaired in /repo: a savepoint no longer pops the declaration).  The oracle demands the check for this
# pattern too; C03_STRICT_ROLLBACK=0 switches that off (for experiments on an unrepaired tree only).
STRICT_ROLLBACK = os.environ.get('C03_STRICT_ROLLBACK', '1') == '1'


def resolves(kind):
    return kind not in ('mapping', 'mvccmapping')


# =============================================================================== oracle on a trace
def norm_wire(w):
    """what a pickled state looks like after load → resolver (untouched) → dump: class globals that
    cannot be imported come back as (module, name) tuples"""
    return re.sub(r',g(\d+)', lambda m: (',g' if K.TABLE.get(int(m.group(1)), (0, 0, 0))[2] else ',t') + m.group(1), w)


_REF = re.compile(r'r([comnwxl])([^.]*)\.')


def loaded_wire(w):
    """pickled-state wire -> the wire of what `state()` hands to the resolver: every reference
    becomes a PersistentReference (data with BadClass slots rewritten to (module, name) tuples,
    plus oid / database_name / weak)"""
    def one(m):
        fmt, f = m.group(1), m.group(2).split(',')

        def k(x):
            if x[0] == 'g':
                return ('c' if K.TABLE.get(int(x[1:]), (0, 0, 0))[2] else 't') + x[1:]
            return x
        oid, db, weak = f[0], '-', 0
        if fmt == 'c':
            f = [f[0], k(f[1])]
        elif fmt == 'm':
            oid, db, f = f[1], f[0], [f[0], f[1], k(f[2])]
        elif fmt == 'n':
            oid, db = f[1], f[0]
        elif fmt == 'w':
            weak = 1
        elif fmt == 'x':
            db, weak = f[1], 1
        elif fmt == 'l':
            weak = 1
        return 'R%s%s;%s;%s;%d.' % (fmt, ','.join(f), oid, db, weak)
    return _REF.sub(one, w)


def expected_call(rec_new, rec_old, rec_committed):
    return 'call=%s|%s|%s|%s' % (rec_new.split('/')[0], loaded_wire(rec_old.split('/')[2]),
                                 loaded_wire(rec_committed.split('/')[2]), loaded_wire(rec_new.split('/')[2]))


def resolvable_class(rec):
    info = K.TABLE.get(int(rec.split('/')[0]))
    return bool(info and info[2] and info[3])


def expected_merge(rec_new, rec_old, rec_committed):
    """the class's three-way merge on wires; None when the class cannot resolve"""
    cid, args, new = rec_new.split('/')
    info = K.TABLE.get(int(cid))
    if info is None or not info[2] or not info[3]:
        return None
    beh = info[4]
    old = rec_old.split('/')[2]
    com = rec_committed.split('/')[2]
    if beh == 'k':
        try:
            a, b, c = (int(x[1:-1]) for x in (old, com, new))
        except ValueError:
            return None
        if not all(re.fullmatch(r'a\d+\.', x) for x in (old, com, new)):
            return None
        return '%s/%s/a%d.' % (cid, args, max(b + c - a, 0))
    if beh.startswith('m') and new == 'a13.':
        return None                  # the resolver raises (AttributeError) for this wanted state
    if beh[0] in 'vm':
        return '%s/%s/pa%s.p%sp%s%s' % (cid, args, beh[1:], norm_wire(old), norm_wire(com), norm_wire(new))
    return None


def expect_undo(h, undone, multi=()):
    """what undoing transaction `undone` must do to an object whose revisions (oldest first, real
    outcomes only) are `h`: ('skip',) not judged | ('ok', data wire, [calls]) | ('err', [calls])"""
    idx = max([j for j, (t2, _) in enumerate(h) if t2 == undone], default=None)
    if idx is None or idx == 0 or any(w is None for _, w in h) or undone in multi:
        # unknown tid / undo of the creation / un-created object / a transaction that holds SEVERAL
        # records of the object (written by a multi-undo; every record is undone separately): not judged
        return ('skip',)
    if idx == len(h) - 1 or h[idx][1] == h[-1][1]:
        return ('ok', h[idx - 1][1], [])
    pre, curw, und = h[idx - 1][1], h[-1][1], h[idx][1]
    calls = [expected_call(pre, und, curw)] if resolvable_class(pre) else []
    merged = expected_merge(pre, und, curw)
    return ('ok', merged, calls) if merged is not None else ('err', calls)


def oracle_trace(ops, obs, pid='C03', kind=None):
    """returns (problems [(signature, what)], nontrivial flag, histogram dict).  Uses the REAL
    observations `obs` only.  With `kind` given (C10) the resolver invocations logged by the
    instrumented classes are checked as well; non-trivial then = the resolver was invoked."""
    P = []
    hist = {}            # oid -> [(tid, wire)] oldest first
    holder = None
    cur = {}
    nontrivial = False
    hcount = {}
    copyundo = set()     # (oid, tid) of undo records that are plain copies (back pointers)
    multitids = set()    # tids of transactions written by several undo calls (several records per object)
    lasttid = [0]

    def bump(k):
        hcount[k] = hcount.get(k, 0) + 1

    def last(oid):
        h = hist.get(oid)
        return h[-1] if h else None

    for i, (op, ob) in enumerate(zip(ops, obs)):
        tk = op.split()
        parts = ob.split()
        first = parts[0] if parts else ''
        o = tk[0]
        if '+init-ran' in parts:
            P.append((pid + ':constructor-run-during-resolution',
                      'op %d %r: the storage called the class (ran __init__) while resolving; the throw-away '
                      'instance must come from klass.__new__(klass, *newargs)' % (i, op)))
        for x in parts:
            if x.startswith('+acquired:'):
                t2 = int(x.split(':')[1])
                if holder is not None and holder != t2:
                    P.append((pid + ':lock-not-exclusive',
                              'op %d %r: transaction %d acquired the commit lock while %d held it' % (i, op, t2, holder)))
                holder = t2
                cur[t2] = dict(stores={}, checks=[], failed=set())
        if o == 'newstorage':
            if kind is not None:
                kind = tk[1]
            hist.clear()
            cur.clear()
            holder = None
            lasttid[0] = 0
            copyundo.clear()
            multitids.clear()
        elif o == 'base':
            hist.setdefault(int(tk[2]), []).append((int(tk[1]), tk[3]))
        elif o == 'begin':
            t = int(tk[1])
            if first == 'ok':
                if holder is not None and holder != t:
                    P.append((pid + ':lock-not-exclusive',
                              'op %d %r: tpc_begin returned while transaction %d held the commit lock' % (i, op, holder)))
                holder = t
                cur[t] = dict(stores={}, checks=[], failed=set())
            bump('begin:' + first)
        elif o == 'store':
            t, oid, serial, rec = int(tk[1]), int(tk[2]), int(tk[3]), tk[4]
            bump('store:' + first)
            if kind is not None and holder == t:
                calls = [x for x in parts if x.startswith('call=')]
                pred = last(oid)
                conflict = pred is not None and serial != pred[0]
                olds = [w for (tid, w) in hist.get(oid, []) if tid == serial and w is not None]
                if first.startswith('err:Other'):
                    P.append((pid + ':wrong-exception', 'op %d %r raised %s instead of a conflict error' % (i, op, first)))
                if calls:
                    nontrivial = True
                    bump('resolver-invoked:' + K.TABLE.get(int(rec.split('/')[0]), ('', '?'))[1])
                    if not conflict or not olds or pred[1] is None:
                        P.append((pid + ':resolver-arguments', 'op %d %r: resolver invoked without a conflict: %s' % (i, op, calls)))
                    else:
                        exp = expected_call(rec, olds[-1], pred[1])
                        if calls != [exp]:
                            P.append((pid + ':resolver-arguments',
                                      'op %d %r: _p_resolveConflict was called with %s, expected exactly one call with '
                                      '(state at the writer\'s serial %d, state committed at %d, state the writer wants) = %s'
                                      % (i, op, calls, serial, pred[0], exp)))
                elif (conflict and olds and pred[1] is not None and kind not in ('mapping', 'mvccmapping') and resolvable_class(rec)
                      and first == 'err:Conflict'):
                    P.append((pid + ':resolver-not-invoked',
                              'op %d %r: ConflictError although the class offers _p_resolveConflict and both revisions '
                              'exist; the resolver was never called' % (i, op)))
            if first in ('ok', 'resolved'):
                if holder != t or t not in cur:
                    P.append((pid + ':store-outside-transaction', 'op %d %r accepted for a non-holder' % (i, op)))
                    continue
                pred = last(oid)
                if first == 'ok':
                    if pred is not None and serial != pred[0]:
                        P.append((pid + ':stale-store-accepted',
                                  'op %d %r: store accepted with serial %d but the latest committed revision '
                                  'of oid %d is %d (blind overwrite)' % (i, op, serial, oid, pred[0])))
                    data = rec
                else:
                    nontrivial = True
                    exp = None
                    if pred is not None and serial != pred[0] and pred[1] is not None:
                        olds = [w for (tid, w) in hist.get(oid, []) if tid == serial and w is not None]
                        if olds:
                            exp = expected_merge(rec, olds[-1], pred[1])
                    if exp is None:
                        P.append((pid + ':unresolvable-stored',
                                  'op %d %r reported a resolution the class cannot have produced' % (i, op)))
                        exp = rec
                    data = exp
                if pred is not None and serial != pred[0]:
                    nontrivial = True
                cur[t]['stores'][oid] = (serial, data, first, pred[0] if pred else None)
            elif first == 'err:Conflict':
                nontrivial = True
                if t in cur:
                    cur[t]['failed'].add(oid)
        elif o == 'restore':
            t, oid, rec = int(tk[1]), int(tk[2]), tk[3]
            bump('restore:' + first)
            if first == 'ok' and holder == t and t in cur:
                pred = last(oid)       # an unchecked write (recovery / copy tool): a competing revision
                cur[t]['stores'][oid] = (pred[0] if pred else 0, rec, 'ok', pred[0] if pred else None)
        elif o == 'delete':
            t, oid, serial = int(tk[1]), int(tk[2]), int(tk[3])
            bump('delete:' + first)
            if first == 'ok':
                if holder != t or t not in cur:
                    P.append((pid + ':store-outside-transaction', 'op %d %r accepted for a non-holder' % (i, op)))
                    continue
                pred = last(oid)
                if pred is None or serial != pred[0]:
                    P.append((pid + ':stale-store-accepted',
                              'op %d %r: deleteObject accepted with serial %d but the latest committed revision '
                              'is %s' % (i, op, serial, pred[0] if pred else None)))
                cur[t]['stores'][oid] = (serial, None, 'ok', pred[0] if pred else None)
            elif first == 'err:Conflict':
                nontrivial = True
        elif o == 'check':
            t, oid, serial = int(tk[1]), int(tk[2]), int(tk[3])
            bump('check:' + first)
            if first == 'ok' and t in cur:
                cur[t]['checks'].append((oid, serial))
            if first == 'err:ReadConflict':
                nontrivial = True
        elif o == 'vote':
            t = int(tk[1])
            if first == 'voted' and t in cur:
                voted = [int(x) for x in parts[1].strip('[]').split(',') if x]
                res = [oid for oid, s in cur[t]['stores'].items() if s[2] == 'resolved']
                for oid in res:
                    if oid not in voted:
                        P.append(('C10:resolved-not-reported',
                                  'op %d %r: oid %d was stored through conflict resolution but tpc_vote '
                                  'returned %s' % (i, op, oid, parts[1])))
                cur[t]['voted'] = voted
        elif o == 'finish':
            t = int(tk[1])
            if first == 'ok' and len(parts) > 1:
                tid = int(parts[1])
                bump('finish:ok')
                if tid <= lasttid[0]:
                    P.append((pid + ':tid-not-increasing',
                              'op %d %r: transaction id %d is not later than the previously committed %d' % (i, op, tid, lasttid[0])))
                lasttid[0] = max(lasttid[0], tid)
                c = cur.pop(t, None)
                if holder != t or c is None:
                    P.append((pid + ':finish-outside-transaction', 'op %d %r succeeded for a non-holder' % (i, op)))
                    c = c or dict(stores={}, checks=[], failed=set())
                for oid, ser in c['checks']:
                    p = last(oid)
                    if p is None or p[0] != ser:
                        P.append((pid + ':readcurrent-stale-commit',
                                  'op %d %r: the transaction declared oid %d current at serial %d, '
                                  'checkCurrentSerialInTransaction succeeded, but at tpc_finish the latest '
                                  'revision is %s' % (i, op, oid, ser, p[0] if p else None)))
                for oid, (serial, data, how, predtid) in sorted(c['stores'].items()):
                    p = last(oid)
                    if (p[0] if p else None) != predtid:
                        P.append((pid + ':lost-update',
                                  'op %d %r: oid %d got revision %s between this transaction\'s store and its '
                                  'finish' % (i, op, oid, p[0] if p else None)))
                    if p is not None and tid <= p[0]:
                        P.append((pid + ':tid-not-increasing', 'op %d %r: tid %d after %d' % (i, op, tid, p[0])))
                    hist.setdefault(oid, []).append((tid, data))
                if holder == t:
                    holder = None
            else:
                bump('finish:' + first)
                if holder == t and first != 'err:StorageTransaction':
                    P.append((pid + ':finish-failed', 'op %d %r by the lock holder returned %s' % (i, op, ob)))
                    holder = None
        elif o == 'abort':
            t = int(tk[1])
            bump('abort')
            cur.pop(t, None)
            if holder == t:
                holder = None
        elif o in ('undo', 'undotxn', 'undomulti', 'reopen') and first in ('skipped', 'blocked'):
            pass            # not executed: the transaction did not write exactly this object (skipped), or a
            #                 transaction is in progress (blocked; only shrunk / wound-up programs do this)
        elif o == 'undo':
            tid, oid, ctid, undone, pre, curw = int(tk[1]), int(tk[2]), int(tk[3]), int(tk[4]), tk[5], tk[6]
            calls = [x for x in parts if x.startswith('call=')]
            olds = [w for (t2, w) in hist.get(oid, []) if t2 == undone]
            bump('undo:' + first)
            if calls:
                nontrivial = True
                bump('resolver-invoked:' + K.TABLE.get(int(pre.split('/')[0]), ('', '?'))[1])
            exp_calls = [expected_call(pre, olds[-1], curw)] if olds and resolvable_class(pre) else []
            if calls != exp_calls:
                P.append((pid + ':undo-resolver-arguments',
                          'op %d %r: undo called the resolver with %s, expected (state written by the undone '
                          'transaction, current state, state before the undone transaction) = %s' % (i, op, calls, exp_calls)))
            merged = expected_merge(pre, olds[-1], curw) if olds else None
            if first == 'ok':
                got = parts[1] if len(parts) > 1 else ''
                if merged is None or got != merged:
                    P.append((pid + ':undo-stored-differs',
                              'op %d %r: undo stored %s, the class\'s merge is %s' % (i, op, got, merged)))
                hist.setdefault(oid, []).append((tid, got))
            elif first != 'err:Undo':
                P.append((pid + ':wrong-exception', 'op %d %r: undo raised %s' % (i, op, ob)))
            elif merged is not None:
                P.append((pid + ':resolver-not-invoked', 'op %d %r: UndoError although the merge %s exists' % (i, op, merged)))
        elif o == 'undomulti':
            # several undo calls in one transaction: each later one sees what the earlier one staged
            tid, oid = int(tk[1]), int(tk[2])
            h = list(hist.get(oid, []))
            ncommitted = len(h)
            calls = [x for x in parts if x.startswith('call=')]
            bump('undomulti:' + first)
            if calls:
                nontrivial = True
            exp_calls, exp_out = [], None
            for u in tk[3:]:
                e = expect_undo(h, int(u), multitids)
                if e[0] == 'skip':
                    exp_calls = None
                    break
                if e[0] == 'err':
                    exp_calls += e[1]
                    exp_out = 'err:Undo'
                    break
                exp_calls += e[2]
                h = h[:ncommitted] + [(tid, e[1])]
                exp_out = 'ok ' + e[1]
                if e[2] and len(h) > ncommitted and u != tk[3]:
                    bump('undo-resolves-against-own-staged-record')
            if exp_calls is not None:
                got_out = ' '.join(x for x in parts if not x.startswith('call='))
                if calls != exp_calls:
                    P.append((pid + ':undo-resolver-arguments',
                              'op %d %r: the undo calls of one transaction invoked the resolver with %s, expected %s '
                              '(a later undo must merge against what the earlier one staged)' % (i, op, calls, exp_calls)))
                elif got_out != exp_out:
                    P.append((pid + (':wrong-exception' if first.startswith('err:Other') else ':undo-stored-differs'),
                              'op %d %r: undo gave %s, expected %s' % (i, op, got_out, exp_out)))
            if first == 'ok' and len(parts) > 1:
                hist.setdefault(oid, []).append((tid, None if parts[1] == 'none' else parts[1]))
                multitids.add(tid)
        elif o == 'undotxn':
            # expectation from the history tracked so far (real outcomes only)
            tid, oid, undone = int(tk[1]), int(tk[2]), int(tk[3])
            h = hist.get(oid, [])
            calls = [x for x in parts if x.startswith('call=')]
            idx = max([j for j, (t2, _) in enumerate(h) if t2 == undone], default=None)
            bump('undotxn:' + first)
            if calls:
                nontrivial = True
                bump('resolver-invoked:' + K.TABLE.get(int(calls[0][5:].split('|')[0]), ('', '?'))[1])
            if idx is None or idx == 0 or any(w is None for _, w in h) or undone in multitids:
                exp_out, exp_calls = None, None            # unknown tid / undo of the creation: not judged
            elif idx == len(h) - 1 or h[idx][1] == h[-1][1]:
                exp_out, exp_calls = 'ok ' + h[idx - 1][1], []
            else:
                pre, curw, und = h[idx - 1][1], h[-1][1], h[idx][1]
                exp_calls = [expected_call(pre, und, curw)] if resolvable_class(pre) else []
                merged = expected_merge(pre, und, curw)
                exp_out = ('ok ' + merged) if merged is not None else 'err:Undo'
                if (oid, h[-1][0]) in copyundo:
                    bump('undo-resolves-against-backpointer-current')
            if exp_out is not None:
                got_out = ' '.join(x for x in parts if not x.startswith('call='))
                if calls != exp_calls:
                    P.append((pid + ':undo-resolver-arguments',
                              'op %d %r: undo called the resolver with %s, expected (state written by the undone '
                              'transaction, CURRENT state, state before the undone transaction) = %s' % (i, op, calls, exp_calls)))
                elif got_out != exp_out:
                    P.append((pid + (':wrong-exception' if first.startswith('err:Other') else ':undo-stored-differs'),
                              'op %d %r: undo gave %s, expected %s' % (i, op, got_out, exp_out)))
            if first == 'ok' and len(parts) > 1:
                hist.setdefault(oid, []).append((tid, None if parts[1] == 'none' else parts[1]))
                if not calls:
                    copyundo.add((oid, tid))
        elif o == 'cur':
            p = last(int(tk[1]))
            exp = str(p[0]) if p and p[1] is not None else 'none'      # getTid of an un-created object: POSKeyError
            if ob != exp:
                P.append((pid + ':final-state-differs',
                          'op %d %r: storage says %s, the serial replay of the successful transactions %s' % (i, op, ob, exp)))
        elif o == 'load':
            p = last(int(tk[1]))
            exp = p[1] if p and p[1] is not None else 'none'
            if ob != exp:
                P.append((pid + ':final-state-differs',
                          'op %d %r: storage holds %s, the serial replay of the successful transactions '
                          '(merges applied) gives %s' % (i, op, ob, exp)))
        elif o == 'hist':
            exp = '[' + ','.join(str(tid) for tid, _ in reversed(hist.get(int(tk[1]), []))) + ']'
            if ob != exp:
                P.append((pid + ':final-state-differs',
                          'op %d %r: storage history %s, successful transactions that wrote the object %s' % (i, op, ob, exp)))
        elif o == 'loadserial':
            oid, tid = int(tk[1]), int(tk[2])
            ws = [w for (t2, w) in hist.get(oid, []) if t2 == tid]
            exp = ws[-1] if ws and ws[-1] is not None else 'none'
            if ob != exp:
                P.append((pid + ':final-state-differs',
                          'op %d %r: revision holds %s, expected %s' % (i, op, ob, exp)))
    return P, nontrivial, hcount


# =============================================================================== (a) storage level
PLAIN, COUNTER, MERGE = 2, 1, 11


def gen_storage_case(rng, kind, size):
    """2-3 logical writers; each keeps a private view {oid: (serial, value)} refreshed at arbitrary
    times ("read"); stores / checks pass the serial of that view."""
    noids = rng.choice([1, 2, 2, 3])
    oids = list(range(1, noids + 1))
    if rng.random() < 0.25:
        # boundary oids: bucket edge of fsIndex, 0x00 / 0xff bytes, high bit, near 2^64
        oids = rng.sample([65535, 65536, 0x00ff00ff00ff00ff, 2 ** 63 + 9, 2 ** 64 - 2, 255, 256], noids)
    cls = {oid: rng.choice([PLAIN, PLAIN, COUNTER, COUNTER, MERGE, 3, 4]) for oid in oids}
    writers = [1, 2, 3][:rng.choice([2, 2, 3])]
    ops = []
    sim = {}                 # oid -> [(tid, value)] generator's belief of the committed history
    nextval = [100]
    tid = [10]
    if kind.startswith('demo'):
        for oid in oids:
            if rng.random() < 0.6:
                t0 = rng.randrange(1, 9)
                ops.append('base %d %d %s' % (t0, oid, L.rec_wire(cls[oid], 0, 50 + oid)))
                sim[oid] = [(t0, 50 + oid)]
        ops.sort(key=lambda s: int(s.split()[1]))
        # tids of a MappingStorage base must be distinct and increasing
        seen, fixed = set(), []
        for s in ops:
            tk = s.split()
            t0 = int(tk[1])
            while t0 in seen:
                t0 += 1
            seen.add(t0)
            tk[1] = str(t0)
            fixed.append(' '.join(tk))
            sim[int(tk[2])] = [(t0, 50 + int(tk[2]))]
        ops = fixed
    view = {w: {} for w in writers}
    state = {w: 'idle' for w in writers}       # idle | begun | voted
    staged = {w: {} for w in writers}
    holder = [None]
    pending = [None]                           # (writer, tid) blocked begin

    def cur(oid):
        h = sim.get(oid)
        return h[-1] if h else (0, 0)

    def release(w, commit):
        if commit:
            for oid, val in staged[w].items():
                sim.setdefault(oid, []).append((mytid[w], val))
        staged[w] = {}
        state[w] = 'idle'
        holder[0] = None
        if pending[0] is not None:
            pw, pt = pending[0]
            pending[0] = None
            ops.append('begin %d %d' % (pw, pt))
            holder[0] = pw
            state[pw] = 'begun'
            mytid[pw] = pt

    mytid = {}
    for _ in range(size):
        w = rng.choice(writers)
        r = rng.random()
        if state[w] == 'idle':
            if pending[0] is not None and pending[0][0] == w:
                continue
            if r < 0.45:
                oid = rng.choice(oids)
                view[w][oid] = cur(oid)
            elif holder[0] is None and pending[0] is None and 'file' in kind and r < 0.50:
                # clean close + reopen from the saved index; nobody holds the lock
                ops.append('reopen')
            elif holder[0] is None and pending[0] is None and kind == 'file' and r < (0.68 if noids == 1 else 0.56):
                # undo of a committed transaction of one object (skipped by both sides unless it wrote
                # exactly that object): mostly the current revision -> a back-pointer record without data
                # (not the counter class: its merge can produce a state EQUAL to a hand-pickled one with
                #  different bytes, and undo decides "same data" byte-wise — the model compares states)
                cands = [o for o in oids if cls[o] != COUNTER and len(sim.get(o, [])) >= 2
                         and all(v is not None for _, v in sim[o])]
                if cands:
                    oid = rng.choice(cands)
                    h = sim[oid]
                    undone = h[-1][0] if rng.random() < 0.7 else rng.choice(h[1:])[0]
                    tid[0] += rng.choice([1, 3])
                    ops.append('undotxn %d %d %d' % (tid[0], oid, undone))
                    if undone == h[-1][0]:
                        h.append((tid[0], h[-2][1]))
            elif holder[0] is None:
                tid[0] += rng.choice([1, 1, 3, 10])
                ops.append('begin %d %d' % (w, tid[0]))
                holder[0] = w
                state[w] = 'begun'
                mytid[w] = tid[0]
            elif pending[0] is None and r < 0.62:
                tid[0] += rng.choice([1, 2])
                ops.append('begin %d %d' % (w, tid[0]))         # blocked: the lock is held
                pending[0] = (w, tid[0])
            elif r < 0.66:
                oid = rng.choice(oids)
                ops.append('store %d %d %d %s' % (w, oid, cur(oid)[0], L.rec_wire(cls[oid], 0, 7)))   # not the holder
            elif r < 0.69:
                ops.append(rng.choice(['vote %d', 'finish %d', 'abort %d', 'check %d 1 10']) % w)     # not the holder
        elif state[w] == 'begun':
            if r < 0.55:
                oid = rng.choice(oids)
                serial, seen = view[w].get(oid, (0, 0))
                seen = seen or 0
                if kind in ('file', 'hex:file') and rng.random() < 0.05:
                    # restore(): an unchecked write, as copyTransactionsFrom / recovery tools do
                    nextval[0] += 1
                    ops.append('restore %d %d %s' % (w, oid, L.rec_wire(cls[oid], 0, nextval[0])))
                    staged[w][oid] = nextval[0]
                    continue
                if kind == 'file' and rng.random() < 0.07 and sim.get(oid):
                    # IExternalGC.deleteObject: writes an un-creation record (same serial comparison)
                    if rng.random() < 0.3:
                        serial = cur(oid)[0]
                    ops.append('delete %d %d %d' % (w, oid, serial))
                    if serial == cur(oid)[0]:
                        staged[w][oid] = None
                    continue
                q = rng.random()
                if q < 0.14:
                    # serials that are "almost right": off by one, the newest tid of the whole storage,
                    # the current tid of ANOTHER object, an older revision of this one, zero
                    alltids = [t for h in sim.values() for t, _ in h] or [0]
                    other = rng.choice(oids)
                    serial = rng.choice([0, serial + 1, max(serial - 1, 0), cur(oid)[0], max(alltids),
                                         max(alltids), cur(other)[0], rng.choice(alltids)])
                if cls[oid] == COUNTER:
                    val = seen + rng.choice([1, 2, 5])
                else:
                    nextval[0] += 1
                    val = nextval[0]
                if rng.random() < 0.15 and sim.get(oid) and cur(oid)[1] is not None:
                    val = cur(oid)[1]      # byte-identical to what is committed now (e.g. +5 and +5)
                val = max(val, 0)          # states are natural numbers
                ops.append('store %d %d %d %s' % (w, oid, serial, L.rec_wire(cls[oid], 0, val)))
                c = cur(oid)
                if c[0] == 0 or serial == c[0]:
                    staged[w][oid] = val
                elif (resolves(kind) and c[1] is not None and cls[oid] in (COUNTER, MERGE)
                      and any(t == serial and v is not None for t, v in sim.get(oid, []))):
                    staged[w][oid] = val if cls[oid] == MERGE else max(c[1] + val - seen, 0)    # (the counter merge saturates at 0)
            elif r < 0.70:
                oid = rng.choice(oids)
                serial = view[w].get(oid, (0, 0))[0]
                q = rng.random()
                if q < 0.1:
                    serial = cur(oid)[0]
                elif q < 0.2:
                    alltids = [t for h in sim.values() for t, _ in h] or [0]
                    serial = rng.choice([max(alltids), cur(oid)[0] + 1, max(cur(oid)[0] - 1, 0), rng.choice(alltids)])
                ops.append('check %d %d %d' % (w, oid, serial))
            elif r < 0.90:
                if rng.random() < 0.25:
                    ops.append('bystander')     # another storage instance of the process runs a 2PC now
                ops.append('vote %d' % w)
                state[w] = 'voted'
            elif r < 0.95:
                ops.append('abort %d' % w)
                release(w, False)
            else:
                ops.append('begin %d %d' % (w, mytid[w]))      # duplicate tpc_begin
        elif state[w] == 'voted':
            if r < 0.85:
                ops.append('finish %d' % w)
                release(w, True)
            else:
                ops.append('abort %d' % w)
                release(w, False)
    # wind up: whoever holds the lock commits, a pending begin then gets through and aborts
    for w in writers:
        if state[w] == 'begun':
            ops.append('vote %d' % w)
            state[w] = 'voted'
        if state[w] == 'voted':
            ops.append('finish %d' % w)
            release(w, True)
    for w in writers:
        if state[w] != 'idle':
            ops.append('abort %d' % w)
            release(w, False)
    for oid in oids + [9]:
        ops += ['cur %d' % oid, 'load %d' % oid, 'hist %d' % oid]
    return dict(section='storage', kind=kind, ops=ops)


def gen_storage_undo_case(rng):
    """FileStorage, object 1 with a history of single-object transactions, undo transactions (mostly of
    the current revision: a back-pointer record without data, sometimes of the creation) and clean
    reopens in between; readers write object 2 and declare object 1 current at the tid of SOME earlier
    revision — in particular the one that holds the pickle an undo record points back to"""
    ops = []
    tid = 10
    revs = []                # believed tids of object 1 (oldest first)
    o2 = [0]
    val = [100]

    def commit1():
        nonlocal tid
        tid += rng.choice([1, 3])
        val[0] += 1
        ops.extend(['begin 1 %d' % tid, 'store 1 1 %d %s' % (revs[-1] if revs else 0, L.rec_wire(rng.choice([2, 11, 11]), 0, val[0])),
                    'vote 1', 'finish 1'])
        revs.append(tid)
    commit1()
    commit1()
    for _ in range(rng.choice([4, 6, 9])):
        r = rng.random()
        if r < 0.25:
            commit1()
        elif r < 0.50 and len(revs) >= 2:
            tid += rng.choice([1, 2])
            undone = revs[-1] if rng.random() < 0.7 else rng.choice(revs)
            ops.append('undotxn %d 1 %d' % (tid, undone))
            if undone == revs[-1]:
                revs.append(tid)
        elif r < 0.58:
            ops.append('reopen')
        else:
            tid += rng.choice([1, 2])
            ser = rng.choice(revs[-4:])
            ops += ['begin 2 %d' % tid, 'store 2 2 %d %s' % (o2[0], L.rec_wire(2, 0, tid)), 'check 2 1 %d' % ser]
            if rng.random() < 0.3:
                ops.append('check 2 1 %d' % rng.choice(revs))
            ops += ['vote 2', 'finish 2']
            o2[0] = tid          # belief: the transaction commits even if a check failed (checks only raise)
    for oid in (1, 2):
        ops += ['cur %d' % oid, 'load %d' % oid, 'hist %d' % oid]
    return dict(section='storage', kind='file', ops=ops)


def run_storage_real(case, tmp, tag='s'):
    L.clear_resolution_caches()
    r = L.StorageRunner(case['kind'], tmp, tag, probe=0.02)
    try:
        obs = []
        nst = 0
        for o in case['ops']:
            if o.startswith('newstorage '):
                # a second storage in the same process: process-wide caches are NOT cleared
                r.close()
                nst += 1
                r = L.StorageRunner(o.split()[1], tmp, '%s-n%d' % (tag, nst), probe=0.02)
                obs.append('ok')
            else:
                obs.append(r.op(o))
        # every revision the real storage reports is read back as well
        extra = []
        seen = set()
        lastns = max([i for i, o in enumerate(case['ops']) if o.startswith('newstorage ')], default=-1)
        for o, ob in list(zip(case['ops'], obs))[lastns + 1:]:
            tk = o.split()
            if tk[0] == 'hist' and ob.startswith('['):
                for t in ob.strip('[]').split(','):
                    if t and (tk[1], t) not in seen:
                        seen.add((tk[1], t))
                        extra.append('loadserial %s %s' % (tk[1], t))
        eobs = [r.op(o) for o in extra]
    finally:
        r.close()
    return case['ops'] + extra, obs + eobs


def model_lines(kind, ops):
    # a record-transforming wrapper (hex:…) is the identity at the model's record level
    kind = kind[4:] if kind.startswith('hex:') else kind
    kind = {'mvccmapping': 'mapping', 'demo2': 'demo:mapping:mapping'}.get(kind, kind)
    out = ['reset ' + kind] + L.class_lines()
    for o in ops:
        if o.startswith('newstorage '):
            k2 = o.split()[1]
            k2 = k2[4:] if k2.startswith('hex:') else k2
            o = 'newstorage ' + {'mvccmapping': 'mapping', 'demo2': 'demo:mapping:mapping'}.get(k2, k2)
        out.append(o)
    return out


# =============================================================================== (b) DB level
def gen_db_case(rng, kind, size):
    nobj = rng.choice([1, 2, 2, 3])
    objs = ['o%d' % i for i in range(nobj)]
    cls = {o: rng.choice(['plain', 'minpo', 'counter', 'counter']) for o in objs}
    nconn = rng.choice([2, 2, 3])
    prog = []
    for _ in range(size):
        c = rng.randrange(nconn)
        r = rng.random()
        o = rng.choice(objs)
        if r < 0.26:
            prog.append(['read', c, o])
        elif r < 0.54:
            # delta for counters; for plain objects the 5th field asks for a common (non-unique) value,
            # so that concurrent writers produce byte-identical pickles in a fixed share of cases
            prog.append(['write', c, o, rng.choice([1, 1, 2, 3]), rng.random() < 0.3])
        elif r < 0.67:
            prog.append(['readcur', c, o])
        elif r < 0.76:
            prog.append(['savepoint', c])       # commit then takes the _commit_savepoint route
        elif r < 0.80:
            prog.append(['rollback', c, rng.randrange(4)])      # partial rollback to an earlier savepoint
        elif r < 0.95:
            prog.append(['commit', c])
        elif r < 0.97 and kind == 'file':
            prog.append(['delete', c, o])       # external GC un-creates the object behind the connections' back
        else:
            prog.append(['abort', c])
    if rng.random() < 0.3 and nobj >= 2:
        # a dependency declared inside a savepoint region that is rolled back while the transaction
        # goes on, and a competing commit to the object it depends on
        c, c2 = rng.sample(range(nconn), 2)
        oa, ob = rng.sample(objs, 2)
        block = [['write', c, oa, 1, False], ['savepoint', c]]
        q = rng.random()
        if q < 0.35:
            block = [['readcur', c, ob]] + block + [['write', c, ob, 1, False], ['savepoint', c]]
        elif q < 0.7:
            block += [['readcur', c, ob], ['write', c, oa, 2, False]]
        else:
            # declared current WHILE modified; the modification is then rolled back
            if rng.random() < 0.5:
                block = [['savepoint', c]]
            block += [['write', c, ob, 1, False], ['readcur', c, ob]]
        block += [['rollback', c, 0], ['write', c, oa, 3, False], ['write', c2, ob, 1, False], ['commit', c2],
                  ['commit', c]]
        k = rng.randrange(len(prog) + 1)
        prog[k:k] = [['abort', c], ['abort', c2]] + block
    for c in range(nconn):
        prog.append(['commit', c])
    return dict(section='db', kind=kind, objs=objs, cls=cls, nconn=nconn, prog=prog,
                clock=rng.choice([None, None, None, 'stall', 'back']))


def _mk(clsname, v):
    from ZODB.tests.MinPO import MinPO
    if clsname == 'plain':
        return K.Plain(v)
    if clsname == 'minpo':
        return MinPO(v)
    return K.Counter(v)


def _get(o):
    return o.value if type(o).__name__ == 'MinPO' else o.v


def _set(o, v):
    if type(o).__name__ == 'MinPO':
        o.value = v
    else:
        o.v = v


class DbWorld:
    """a DB over a recorded storage with the case's objects committed by a set-up transaction"""

    def __init__(self, case, tmp, tag):
        import transaction
        import ZODB
        L.clear_resolution_caches()
        self.case = case
        self.storage, self.base = L.make_storage(case['kind'], tmp, tag)
        self.rec = L.Recorder(self.storage, L.tid_reader(self.storage))
        opts = {k: v for k, v in (('pool_size', L.BUILD.get('pool')), ('cache_size', L.BUILD.get('cache'))) if v is not None}
        self.db = ZODB.DB(self.storage, **opts)
        tm = transaction.TransactionManager()
        conn = self.db.open(tm)
        root = conn.root()
        self.initial = {}
        for i, o in enumerate(case['objs']):
            root[o] = _mk(case['cls'][o], 1000 * (i + 1))
            self.initial[o] = 1000 * (i + 1)
        tm.commit()
        self.oids = {o: L.u64(root[o]._p_oid) for o in case['objs']}
        conn.close()
        self.setup_events = len(self.rec.events)
        self.rcsnap = []         # (actor, index of its commit entry in the log, {oid: serial})

    def close(self):
        try:
            self.db.close()
        except Exception:
            pass


def commit_outcome(tm):
    from ZODB.POSException import ConflictError, POSKeyError, ReadConflictError
    try:
        tm.commit()
        return 'ok'
    except POSKeyError:
        # checkCurrentSerialInTransaction of an object that was un-created meanwhile: getTid raises
        # POSKeyError; the commit fails and stores nothing (judged like a conflict when an un-creation
        # is part of the case, flagged otherwise)
        tm.abort()
        return 'KeyError'
    except ReadConflictError:
        tm.abort()
        return 'ReadConflict'
    except ConflictError:
        tm.abort()
        return 'Conflict'
    except BaseException as e:  # noqa: B902
        try:
            tm.abort()
        except Exception:
            pass
        return 'Other(%s)' % type(e).__name__


class Probe:
    """a second, trivial data manager joined to the transaction: the transaction package calls its
    `tpc_abort` after a failed commit and BEFORE the synchronizers start the next transaction, which is
    the only moment at which "the conflicting connection invalidated its stale copy" is observable"""

    def __init__(self, watch, out):
        self.watch, self.out = watch, out

    def sortKey(self):
        return '~~probe'

    def abort(self, txn):
        pass

    def tpc_begin(self, txn):
        pass

    def commit(self, txn):
        pass

    def tpc_vote(self, txn):
        pass

    def tpc_finish(self, txn):
        pass

    def tpc_abort(self, txn):
        for o, ob in self.watch.items():
            self.out[o] = ob._p_changed is None


class ConnActor:
    """one connection with its own transaction manager; keeps the bookkeeping the value-level oracle
    needs: for every write the value the connection saw before it"""

    def __init__(self, world, name, log):
        import transaction
        self.w, self.name, self.log = world, name, log
        self.tm = transaction.TransactionManager()
        self.conn = world.db.open(self.tm)
        self.pending = {}        # obj -> dict(parent=value seen at first write, value=last written, delta=sum)
        self.readcur = {}        # obj -> value seen when readCurrent was declared
        self.sps = []            # [(savepoint, pending at that time, readcur at that time, stored by it)]
        self.written_since_sp = set()
        self.dropped = set()
        self.readcur_mod = {}    # obj -> committed value, declared current while modified and not yet stored
        self.popped_by_write = {}  # obj -> value: declarations this bookkeeping dropped at a later write

    def do(self, step):
        if step[0] in ('read', 'write', 'readcur'):
            try:
                return self._do(step)
            except Exception as e:      # e.g. POSKeyError / ReadConflictError on an un-created object
                self.log.append(('error', self.name, step[0], step[2], type(e).__name__))
                return None
        return self._do(step)

    def _do(self, step):
        w = self.w
        root = self.conn.root()
        kind = step[0]
        if kind == 'read':
            v = _get(root[step[2]])
            self.log.append(('read', self.name, step[2], v))
        elif kind == 'write':
            o = step[2]
            ob = root[o]
            seen = _get(ob)
            p = self.pending.setdefault(o, dict(parent=seen, delta=0))
            if w.case['cls'][o] == 'counter':
                _set(ob, seen + step[3])
                p['delta'] += step[3]
            elif len(step) > 4 and step[4]:
                _set(ob, 7000 + step[3])        # a value other writers choose too (identical pickles)
            else:
                w.nextval += 1
                _set(ob, w.nextval)
            p['value'] = _get(ob)
            self.written_since_sp.add(o)
            if o in self.readcur:
                self.popped_by_write[o] = self.readcur.pop(o)
            self.log.append(('write', self.name, o, seen, _get(ob)))
        elif kind == 'readcur':
            o = step[2]
            ob = root[o]
            v = _get(ob)
            self.conn.readCurrent(ob)
            self.dropped.discard(o)
            if o not in self.pending:
                self.readcur[o] = v
            elif o in self.written_since_sp:
                # declared while the object is modified: if the modification is rolled back before any
                # savepoint stored it, the dependency (on the revision it was loaded from) must survive
                self.readcur_mod[o] = self.pending[o]['parent']
            self.log.append(('readcur', self.name, o, v))
        elif kind == 'commit':
            import threading
            w.rec.last_finish.pop(threading.get_ident(), None)
            ghost = {}
            if self.pending and self.readcur:
                self.tm.get().join(Probe({o: root[o] for o in self.readcur}, ghost))
            # every dependency the connection itself holds at commit time (explicit declarations and
            # those libraries declare implicitly, e.g. BTrees): Connection._readCurrent {oid: serial}
            snap = {L.u64(k): L.u64(v) for k, v in self.conn._readCurrent.items()}
            out = commit_outcome(self.tm)
            tid = w.rec.last_finish.get(threading.get_ident()) if out == 'ok' and self.pending else None
            after = {}
            if out == 'ok':
                for o in self.pending:
                    after[o] = _get(root[o])       # what the writer's own connection reads now
            self.log.append(('commit', self.name, out, tid, dict(self.pending), dict(self.readcur), after, ghost,
                             set(self.dropped), snap))
            self.pending, self.readcur, self.sps = {}, {}, []
            self.written_since_sp, self.dropped, self.readcur_mod = set(), set(), {}
            self.popped_by_write = {}
        elif kind == 'savepoint':
            import copy
            sp = self.tm.savepoint()
            # (the real savepoint stores what was written since the last one and pops those oids from
            #  the connection's _readCurrent)
            self.sps.append((sp, copy.deepcopy(self.pending), dict(self.readcur), set(self.written_since_sp)))
            for o in self.written_since_sp:
                self.readcur_mod.pop(o, None)       # stored by this savepoint: the real entry is popped
            self.written_since_sp = set()
            self.log.append(('savepoint', self.name))
        elif kind == 'rollback':
            # partial rollback: the transaction goes on; what it wrote since the savepoint is dropped,
            # every readCurrent declaration stays (those popped by a write that is now rolled back too)
            if self.sps:
                k = step[2] % len(self.sps)
                sp, pend, rc, _ = self.sps[k]
                sp.rollback()
                stored_later = set().union(*[x[3] for x in self.sps[k + 1:]]) if self.sps[k + 1:] else set()
                del self.sps[k + 1:]
                self.written_since_sp = set()
                import copy
                self.pending = copy.deepcopy(pend)
                merged = dict(rc)
                merged.update(self.readcur)
                self.readcur = {o: v for o, v in merged.items() if o not in self.pending}
                for o, v in self.readcur_mod.items():
                    if o not in self.pending:
                        self.readcur[o] = v
                self.readcur_mod = {}
                # declarations dropped (in this bookkeeping) by a write that is now rolled back
                for o, v in list(self.popped_by_write.items()):
                    if o in self.pending or o in self.readcur:
                        continue
                    if o not in stored_later:
                        self.readcur[o] = v         # the write never reached a savepoint: nothing popped it
                    elif STRICT_ROLLBACK:
                        # OPEN residual of the fixed finding: declared after savepoint k, popped by the
                        # store of a later savepoint, rollback to k — the Connection forgets it
                        self.readcur[o] = v
                        self.dropped.add(o)
                    del self.popped_by_write[o]
                # declarations whose object was written and spilled to a LATER savepoint that is now
                # rolled back: known finding, the unchanged Connection forgets them
                self.dropped |= {o for o in self.readcur if o in stored_later and o in rc}
                self.log.append(('rollback', self.name, k))
        elif kind == 'abort':
            self.tm.abort()
            self.pending, self.readcur, self.sps = {}, {}, []
            self.written_since_sp, self.dropped, self.readcur_mod = set(), set(), {}
            self.popped_by_write = {}
            self.log.append(('abort', self.name))


def external_delete(w, o, log):
    """IExternalGC: a raw two-phase commit on the storage that un-creates the object; the DB (and so
    every connection's cache) is not told"""
    from ZODB.Connection import TransactionMetaData
    st = w.storage
    oid = L.p64(w.oids[o])
    try:
        serial = st.getTid(oid)
    except Exception:
        return          # already un-created
    txn = TransactionMetaData()
    st.tpc_begin(txn)
    try:
        st.deleteObject(oid, serial, txn)
        st.tpc_vote(txn)
        tid = st.tpc_finish(txn)
        log.append(('delete', o, L.u64(tid)))
    except Exception:
        st.tpc_abort(txn)
        raise


def bend_clock(clk, mode):
    """after the set-up commits the wall clock is no longer ahead of the database: it stalls, or was
    set back by an hour; tids must keep increasing (`laterThan` the last one handed out)"""
    if mode == 'stall':
        clk.step = 0.0
    elif mode == 'back':
        clk.now -= 3600.0


def run_db_real(case, tmp, tag='d'):
    import clock
    with clock.scripted() as clk:
        w = DbWorld(case, tmp, tag)
        bend_clock(clk, case.get('clock'))
        w.nextval = 5000
        log = []
        try:
            actors = [ConnActor(w, 'c%d' % i, log) for i in range(case['nconn'])]
            for step in case['prog']:
                if step[0] == 'delete':
                    external_delete(w, step[2], log)
                else:
                    actors[step[1]].do(step)
            return finish_db(w, log)
        finally:
            w.close()


def finish_db(w, log):
    ops, obs, problems = w.rec.lines()
    # final queries on the real storage, appended to the recorded trace
    r = L.StorageRunner.__new__(L.StorageRunner)
    r.storage, r.base, r.pending, r.begun, r.txns, r.events, r.voted = w.storage, w.base, {}, set(), {}, [], set()
    fin = []
    for o in w.case['objs']:
        oid = w.oids[o]
        fin += ['cur %d' % oid, 'load %d' % oid, 'hist %d' % oid]
    fobs = [r.op(x) for x in fin]
    extra = []
    for x, ob in zip(fin, fobs):
        tk = x.split()
        if tk[0] == 'hist':
            extra += ['loadserial %s %s' % (tk[1], t) for t in ob.strip('[]').split(',') if t]
    eobs = [r.op(x) for x in extra]
    chains = {}
    for o in w.case['objs']:
        oid = w.oids[o]
        ch = []
        for x, ob in zip(extra, eobs):
            tk = x.split()
            if int(tk[1]) == oid:
                m = re.fullmatch(r'\d+/\d+/a(\d+)\.', ob)
                ch.append((int(tk[2]), int(m.group(1)) if m else ob))
        chains[o] = sorted(ch)
    # revision tids of every oid some connection depended on at a commit
    rchist = {}
    w.rcsnap = [(e[1], i, e[9]) for i, e in enumerate(log) if e[0] == 'commit' and len(e) > 9]
    for _, _, snap in w.rcsnap:
        for oid in snap:
            if oid not in rchist:
                try:
                    rchist[oid] = sorted(L.u64(d['tid']) for d in w.storage.history(L.p64(oid), 100000))
                except Exception:
                    rchist[oid] = []
    return dict(ops=ops + fin + extra, obs=obs + fobs + eobs, lock_problems=problems, log=log,
                chains=chains, initial=w.initial, cls=w.case['cls'], section=w.case['section'],
                rcsnap=list(w.rcsnap), rchist=rchist)


def oracle_rcsnap(res):
    """every (oid, serial) in Connection._readCurrent when a commit started must — if the commit
    succeeded and did not write that oid itself — still be the latest revision before the commit"""
    P = []
    log = res['log']
    for name, idx, snap in res.get('rcsnap', []):
        if idx >= len(log) or log[idx][0] != 'commit' or log[idx][2] != 'ok' or log[idx][3] is None:
            continue
        T = log[idx][3]
        for oid, ser in snap.items():
            h = res['rchist'].get(oid, [])
            if T in h:
                continue                # written by this very transaction (store() compared its serial)
            before = [t for t in h if t < T]
            if before and before[-1] != ser:
                P.append(('C03:readcurrent-stale-commit',
                          'commit %d of %s held a readCurrent dependency on oid %d at serial %d, but the latest '
                          'revision before the commit is %d' % (T, name, oid, ser, before[-1])))
    return P


def oracle_db(res):
    """value-level oracle over the DB-level log and the real revision chains"""
    P = [('C03:lock-not-exclusive', p) for p in res['lock_problems']]
    chains, cls = res['chains'], res['cls']
    commits = [e for e in res['log'] if e[0] == 'commit']
    any_deleted = any(e[0] == 'delete' for e in res['log'])
    for e in commits:
        if e[2].startswith('Other') or (e[2] == 'KeyError' and not any_deleted):
            P.append(('C03:commit-failed-oddly', 'commit of %s raised %s (neither success nor a conflict error)' % (e[1], e[2])))
    ok = sorted((e for e in commits if e[2] == 'ok' and e[3] is not None), key=lambda e: e[3])
    deleted = {(e[1], e[2]) for e in res['log'] if e[0] == 'delete'}      # (object, tid) of un-creations
    # 1. parent pointers / counter arithmetic along every real revision chain
    bytid = {e[3]: e for e in ok}
    for o, ch in chains.items():
        if not ch or ch[0][1] != res['initial'][o]:
            P.append(('C03:final-state-differs', 'object %s: first revision %r is not the set-up value' % (o, ch[:1])))
            continue
        for (t0, v0), (t1, v1) in zip(ch, ch[1:]):
            if (o, t1) in deleted:
                continue
            e = bytid.get(t1)
            if (o, t0) in deleted and e is not None and o in e[4]:
                P.append(('C03:lost-update',
                          'object %s was un-created by transaction %d; revision %d (value %r, derived from %r) '
                          'resurrects it from a stale copy' % (o, t0, t1, v1, e[4][o]['parent'])))
                continue
            if e is None or o not in e[4]:
                P.append(('C03:conflict-stored-something',
                          'object %s has revision %d (value %r) that no successful commit wrote' % (o, t1, v1)))
                continue
            w = e[4][o]
            if cls[o] == 'counter':
                if v1 != v0 + w['delta']:
                    P.append(('C03:lost-update',
                              'counter %s: revision %d holds %r but the preceding revision %d holds %r and the '
                              'transaction added %d (an increment was lost)' % (o, t1, v1, t0, v0, w['delta'])))
            else:
                if v1 != w['value']:
                    P.append(('C03:final-state-differs', 'object %s revision %d holds %r, the writer stored %r' % (o, t1, v1, w['value'])))
                if w['parent'] != v0:
                    P.append(('C03:lost-update',
                              'object %s: revision %d (value %r) was derived from value %r but the immediately '
                              'preceding revision %d holds %r' % (o, t1, v1, w['parent'], t0, v0)))
        # every successful write must be in the chain
        tids = {t for t, _ in ch}
        for e in ok:
            if o in e[4] and e[3] not in tids:
                P.append(('C03:final-state-differs', 'commit %d of %s wrote %s but the object has no such revision' % (e[3], e[1], o)))
    # 2. readCurrent: what the connection saw must still be current at its commit
    for e in ok:
        for o, seen in e[5].items():
            before = [v for (t, v) in chains[o] if t < e[3]]
            if before and before[-1] != seen:
                P.append(('C03:readcurrent-dropped-by-rolled-back-write' if o in e[8] else 'C03:readcurrent-stale-commit',
                          'commit %d of %s declared %s current at value %r, but the latest revision before the '
                          'commit holds %r' % (e[3], e[1], o, seen, before[-1])))
    # 2a. the same on the connection's own table at commit time (covers implicit declarations)
    P += oracle_rcsnap(res)
    # 2b. after a ReadConflictError the connection must have dropped (ghostified) a stale copy, so
    #     that a retry reads the new state
    if res.get('section') == 'db':
        for e in commits:
            if e[2] == 'ReadConflict' and e[7]:
                # the values the connection had declared current vs. the real latest values
                stale = [o for o, seen in e[5].items() if chains[o] and chains[o][-1][1] != seen]
                if stale and not any(e[7].get(o) for o in stale):
                    P.append(('C03:stale-copy-kept-after-readconflict',
                              'commit of %s failed with ReadConflictError but the connection kept its stale '
                              'copy of %s (not invalidated)' % (e[1], ','.join(stale))))
    # 3. serial replay in tid order
    final = dict(res['initial'])
    events = sorted([(e[3], 'c', e) for e in ok] + [(e[2], 'd', e) for e in res['log'] if e[0] == 'delete'],
                    key=lambda x: x[0])
    for _, kind_, e in events:
        if kind_ == 'd':
            final[e[1]] = 'none'
            continue
        for o, w in e[4].items():
            if final[o] == 'none':
                continue        # (already reported as resurrection if it happened)
            final[o] = final[o] + w['delta'] if cls[o] == 'counter' else w['value']
    for o, ch in chains.items():
        if ch and ch[-1][1] != final[o]:
            P.append(('C03:final-state-differs',
                      'object %s: final value %r, serial replay of the successful commits gives %r' % (o, ch[-1][1], final[o])))
    # 4. the writer's own connection reads what was stored (merged state after a resolution);
    #    only without concurrency: under a schedule a later commit may already be visible
    for e in (ok if res.get('section') == 'db' else []):
        for o, v in e[6].items():
            stored = [val for (t, val) in chains[o] if t == e[3]]
            if stored and stored[0] != v:
                P.append(('C10:resolved-not-ghostified',
                          'after commit %d connection %s reads %r for %s but the stored revision holds %r' % (e[3], e[1], v, o, stored[0])))
    return P


# =============================================================================== (c) schedules
class Stuck(Exception):
    """the real code deadlocked under the deterministic scheduler (a verdict, not an infra error)"""


def gen_sched_case(rng, kind, seed):
    nobj = rng.choice([1, 2, 2])
    objs = ['o%d' % i for i in range(nobj)]
    cls = {o: rng.choice(['plain', 'counter', 'counter', 'minpo']) for o in objs}
    nthreads = rng.choice([2, 2, 3])
    progs = []
    for _ in range(nthreads):
        p = []
        for _ in range(rng.choice([1, 2, 2, 3])):         # transactions per thread
            # every transaction writes (readCurrent only matters to a transaction that writes)
            if rng.random() < 0.45:
                p.append(['readcur', 0, rng.choice(objs)])
            if rng.random() < 0.2:
                p.append(['read', 0, rng.choice(objs)])
            for _ in range(rng.choice([1, 1, 2])):
                p.append(['write', 0, rng.choice(objs), rng.choice([1, 1, 2, 3]), rng.random() < 0.3])
                if rng.random() < 0.2:
                    p.append(['savepoint', 0])
                    if rng.random() < 0.4:
                        p.append(['write', 0, rng.choice(objs), rng.choice([1, 2]), False])
                        if rng.random() < 0.5:
                            p.append(['readcur', 0, rng.choice(objs)])      # declared AFTER the savepoint
                        p.append(['rollback', 0, rng.randrange(3)])
                        p.append(['write', 0, rng.choice(objs), rng.choice([1, 2]), False])
            if rng.random() < 0.2:
                p.append(['readcur', 0, rng.choice(objs)])
            p.append(['commit', 0])
        progs.append(p)
    hist = rng.choice([0, 0, 0, 2, 3]) if 'file' in kind else 0      # history() calls of an extra reader thread
    return dict(section='sched', kind=kind, objs=objs, cls=cls, progs=progs, sched_seed=seed,
                mode=rng.choice(['random', 'random', 'sticky']), schedule=None, hist=hist,
                bydb=rng.choice([0, 0, 0, 1, 2]),
                clock=rng.choice([None, None, None, 'stall', 'back']))


def run_sched_real(case, tmp, tag='t'):
    import clock
    import sched
    with clock.scripted() as clk, sched.installed():
        w = DbWorld(case, tmp, tag)
        bend_clock(clk, case.get('clock'))
        w.nextval = 5000
        log = []
        try:
            s = sched.Scheduler(seed=case['sched_seed'], schedule=case.get('schedule'),
                                stickiness=0.7 if case.get('mode') == 'sticky' else 0.0)
            actors = {}

            def body(i, prog):
                a = actors[i] = ConnActor(w, 'c%d' % i, log)
                for step in prog:
                    a.do(step)
                a.conn.close()
            for i, prog in enumerate(case['progs']):
                s.spawn('c%d' % i, body, i, prog)
            if case.get('bydb'):
                # a second database of the same kind in the same process commits concurrently
                import ZODB
                import transaction
                bst, _ = L.make_storage(case['kind'], tmp, tag + '-by')
                bdb = ZODB.DB(bst)

                def bystander():
                    tm = transaction.TransactionManager()
                    c = bdb.open(tm)
                    for i in range(case['bydb']):
                        c.root()['x%d' % i] = K.Plain(i)
                        tm.commit()
                    c.close()
                s.spawn('b', bystander)
            if case.get('hist'):
                # a reader of the storage's shared file object; seek/read become preemption points
                install_file_proxy(w.storage)
                s.spawn('h', history_body(w, case['objs'], case['hist']))
            r = s.run(timeout=60)
            if r['deadlock']:
                raise Stuck('committer threads deadlocked under schedule %r (errors %r)' % (
                    r['decisions'][:60], {k: repr(v)[:80] for k, v in r['errors'].items()}))
            for name, e in r['errors'].items():
                log.append(('commit', name, 'Other(%s)' % type(e).__name__, None, {}, {}, {}, {}, set()))
            res = finish_db(w, log)
            res['decisions'] = r['decisions']
            return res
        finally:
            w.close()


class FileProxy:
    """delegating proxy for `FileStorage._file` (the storage's single shared file object): every seek /
    read of a scheduled thread is a preemption point, so that a reader that walks the file WITHOUT the
    storage lock can be interleaved between the seek and the read of a committer's conflict check"""

    def __init__(self, f, notes):
        self.__dict__['_f'] = f
        self.__dict__['_notes'] = notes

    def __getattr__(self, name):
        return getattr(self._f, name)

    def __setattr__(self, name, value):
        setattr(self._f, name, value)

    def _yield(self, op):
        import sched
        import threading
        sc = sched._current
        if sc is not None:
            t = sc.by_ident.get(threading.get_ident())
            if t is not None:
                self._notes.setdefault(t.name, []).append(op)
                sc.yield_point('io', op)

    def seek(self, *a):
        self._yield('seek')
        return self._f.seek(*a)

    def read(self, *a):
        self._yield('read')
        return self._f.read(*a)

    def __iter__(self):
        return iter(self._f)

    def __enter__(self):
        return self._f.__enter__()

    def __exit__(self, *a):
        return self._f.__exit__(*a)


def file_storage_of(storage):
    from ZODB.FileStorage import FileStorage
    for st in (storage, getattr(storage, 'changes', None)):
        if isinstance(st, FileStorage):
            return st
    return None


def install_file_proxy(storage):
    notes = {}
    fs = file_storage_of(storage)
    if fs is not None:
        fs._file = FileProxy(fs._file, notes)
    return notes


def history_body(w, objs, n, mix=True):
    def body():
        out = []
        for i in range(n):
            o = objs[i % len(objs)]
            oid = L.p64(w.oids[o])
            try:
                h = [L.u64(d['tid']) for d in w.storage.history(oid, 10)]
                out.append(h)
                if mix and i % 2:
                    # other readers of the storage's shared file object / of its in-memory tables
                    st = w.storage
                    st.getTid(oid)
                    st.lastTransaction()
                    if h:
                        st.loadSerial(oid, L.p64(h[-1]))
                    if hasattr(st, 'undoLog'):
                        st.undoLog(0, 3)
            except Exception as e:
                out.append(type(e).__name__)
        return out
    return body


def run_histrace_real(case, tmp, tag='h'):
    """directed schedule: a `history()` reader is parked right before its first file access (in the
    unchanged code: inside the storage lock), the stale writer's store() is run up to between the seek
    and the read of its conflict check, the reader is run up to its seek to the PREVIOUS record, then
    the writer reads.  If history() walks without the lock the writer parses the older header."""
    import clock
    import sched
    with clock.scripted(), sched.installed():
        w = DbWorld(case, tmp, tag)
        w.nextval = 5000
        log = []
        try:
            o = case['objs'][0]
            a0 = ConnActor(w, 'c0', log)
            a1 = ConnActor(w, 'c1', log)
            a0.do(['read', 0, o])                       # the stale writer loads revision R0
            for _ in range(case.get('later', 1)):
                a1.do(['write', 1, o, 2, False])        # somebody else commits R1 (…)
                a1.do(['commit', 1])
            notes = install_file_proxy(w.storage)

            class Directed(sched.Scheduler):
                phase = 0

                def want(self):
                    h, wr = notes.get('h', []), notes.get('c0', [])
                    if self.phase == 0 and 'seek' in h:
                        self.phase = 1
                    if self.phase == 1 and 'read' in wr:
                        self.phase = 2
                    if self.phase == 2 and h.count('seek') >= 1 + 2 * case.get('later', 1) and h[-1] == 'read':
                        self.phase = 3
                    return {0: 'h', 1: 'c0', 2: 'h', 3: 'c0'}[self.phase]

                def _choose(self, cur):
                    en = [t for t in self.threads if self._enabled(t)]
                    if not en:
                        return sched.Scheduler._choose(self, cur)
                    self.steps += 1
                    if self.steps > self.max_steps:
                        return None
                    want = self.want()
                    pick = next((t for t in en if t.name == want), None) or (cur if cur in en else en[0])
                    self.decisions.append(en.index(pick))
                    return pick
            s = Directed(seed=0)

            def writer():
                a0.do(['write', 0, o, 1, False])
                a0.do(['commit', 0])
            s.spawn('c0', writer)
            s.spawn('h', history_body(w, [o], 1, mix=False))
            r = s.run(timeout=60)
            if r['deadlock']:
                raise Stuck('directed history schedule deadlocked (errors %r)' % (
                    {k: repr(v)[:80] for k, v in r['errors'].items()},))
            for name, e in r['errors'].items():
                log.append(('commit', name, 'Other(%s)' % type(e).__name__, None, {}, {}, {}, {}, set()))
            res = finish_db(w, log)
            res['phase'] = s.phase
            return res
        finally:
            w.close()


def run_threads_smoke(kind, tmp, n_iter, tag='p'):
    """plain OS threads, no scheduler: 3 committers increment one counter and overwrite one plain
    object with retry; joined with a timeout.  Returns oracle problems."""
    import threading
    import transaction
    import ZODB
    from ZODB.POSException import ConflictError
    L.clear_resolution_caches()
    storage, _ = L.make_storage(kind, tmp, tag)
    db = ZODB.DB(storage)
    tm = transaction.TransactionManager()
    c = db.open(tm)
    c.root()['k'] = K.Counter(0)
    c.root()['p'] = K.Plain(0)
    tm.commit()
    c.close()
    done = []

    def worker(i):
        tm = transaction.TransactionManager()
        conn = db.open(tm)
        okc = okp = 0
        for j in range(n_iter):
            while True:
                try:
                    tm.begin()
                    conn.root()['k'].v += 1
                    tm.commit()
                    okc += 1
                    break
                except ConflictError:
                    tm.abort()
            try:
                tm.begin()
                conn.root()['p'].v += 1
                tm.commit()
                okp += 1
            except ConflictError:
                tm.abort()
        conn.close()
        done.append((okc, okp))
    ths = [threading.Thread(target=worker, args=(i,), daemon=True) for i in range(3)]
    for t in ths:
        t.start()
    for t in ths:
        t.join(120)
    P = []
    if any(t.is_alive() for t in ths):
        P.append(('C03:threads-stuck', 'committer threads did not finish within 120 s on %s' % kind))
        return P
    tm = transaction.TransactionManager()
    c = db.open(tm)
    k, p = c.root()['k'].v, c.root()['p'].v
    c.close()
    db.close()
    if k != sum(d[0] for d in done):
        P.append(('C03:lost-update', '%s: counter holds %d after %d successful increments' % (kind, k, sum(d[0] for d in done))))
    if p != sum(d[1] for d in done):
        P.append(('C03:lost-update', '%s: plain object holds %d after %d successful increments' % (kind, p, sum(d[1] for d in done))))
    return P


# =============================================================================== (d) BTrees
def gen_btree_case(rng, kind):
    """connections update one OOBTree (several buckets): inserting into a bucket makes BTrees declare
    the parent node current IMPLICITLY (`_p_jar.readCurrent`), bulk inserts split buckets and rewrite
    the parent.  Oracle only (bucket conflict resolution is C code outside the model)."""
    nconn = rng.choice([2, 2, 3])
    prog = []
    for _ in range(rng.choice([6, 10, 16])):
        c = rng.randrange(nconn)
        r = rng.random()
        if r < 0.35:
            prog.append(['ins', c, rng.randrange(0, 4000)])
        elif r < 0.5:
            prog.append(['del', c, rng.randrange(0, 1200, 10)])
        elif r < 0.65:
            prog.append(['bulk', c, rng.randrange(0, 4000), rng.choice([20, 40, 70])])
        elif r < 0.95:
            prog.append(['commit', c])
        else:
            prog.append(['abort', c])
    for c in range(nconn):
        prog.append(['commit', c])
    return dict(section='btree', kind=kind, nconn=nconn, prog=prog)


def run_btree_real(case, tmp, tag='b'):
    import threading
    import clock
    import transaction
    import ZODB
    from BTrees.OOBTree import OOBTree
    with clock.scripted():
        L.clear_resolution_caches()
        storage, base = L.make_storage(case['kind'], tmp, tag)
        rec = L.Recorder(storage, L.tid_reader(storage))
        db = ZODB.DB(storage)
        try:
            tm = transaction.TransactionManager()
            conn = db.open(tm)
            t = conn.root()['t'] = OOBTree()
            for k in range(0, 1200, 10):
                t[k] = k
            tm.commit()
            conn.close()
            actors = []
            for i in range(case['nconn']):
                tm = transaction.TransactionManager()
                actors.append(dict(tm=tm, conn=db.open(tm), delta={}))
            log, rcsnap = [], []
            for step in case['prog']:
                a = actors[step[1]]
                t = a['conn'].root()['t']
                try:
                    if step[0] == 'ins':
                        t[step[2]] = step[2]
                        a['delta'][step[2]] = step[2]
                    elif step[0] == 'del':
                        if step[2] in t:
                            del t[step[2]]
                            a['delta'][step[2]] = None
                    elif step[0] == 'bulk':
                        for k in range(step[2], step[2] + step[3]):
                            t[k] = k
                            a['delta'][k] = k
                    elif step[0] == 'abort':
                        a['tm'].abort()
                        a['delta'] = {}
                    else:
                        rec.last_finish.pop(threading.get_ident(), None)
                        rcsnap.append(('c%d' % step[1], len(log),
                                       {L.u64(k): L.u64(v) for k, v in a['conn']._readCurrent.items()}))
                        out = commit_outcome(a['tm'])
                        tid = rec.last_finish.get(threading.get_ident()) if out == 'ok' and a['delta'] else None
                        log.append(('commit', 'c%d' % step[1], out, tid, dict(a['delta'])))
                        a['delta'] = {}
                        continue
                except Exception as e:
                    log.append(('error', 'c%d' % step[1], step[0], type(e).__name__))
                    continue
            ops, obs, problems = rec.lines()
            rchist = {}
            for _, _, snap in rcsnap:
                for oid in snap:
                    if oid not in rchist:
                        try:
                            rchist[oid] = sorted(L.u64(d['tid']) for d in storage.history(L.p64(oid), 100000))
                        except Exception:
                            rchist[oid] = []
            tm = transaction.TransactionManager()
            conn = db.open(tm)
            final = dict(conn.root()['t'].items())
            conn.close()
            return dict(ops=ops, obs=obs, lock_problems=problems, log=log, rcsnap=rcsnap, rchist=rchist,
                        final=final, nomodel=True)
        finally:
            db.close()


def oracle_btree(res):
    P = [('C03:lock-not-exclusive', p) for p in res['lock_problems']]
    for e in res['log']:
        if e[0] == 'commit' and e[2].startswith('Other'):
            P.append(('C03:commit-failed-oddly', 'commit of %s raised %s' % (e[1], e[2])))
    P += oracle_rcsnap(res)
    # serial replay at key level: every successful transaction's inserts / deletes are in the final tree
    exp = {k: k for k in range(0, 1200, 10)}
    for e in sorted((e for e in res['log'] if e[0] == 'commit' and e[2] == 'ok' and e[3] is not None), key=lambda e: e[3]):
        for k, v in e[4].items():
            if v is None:
                exp.pop(k, None)
            else:
                exp[k] = v
    if exp != res['final']:
        miss = sorted(set(exp) ^ set(res['final']))[:8]
        P.append(('C03:lost-update',
                  'BTree content differs from the serial replay of the successful commits at keys %s' % miss))
    return P


# =============================================================================== running a case
def with_session(rng, case, gen, kinds):
    """in a fifth of the storage cases a SECOND storage is used in the same process after the first
    (process-wide caches such as ConflictResolution._unresolvable / _class_cache carry over)"""
    if rng.random() < 0.2:
        k2 = rng.choice(kinds)
        second = gen(k2)
        case = dict(case, ops=case['ops'] + ['newstorage ' + k2] + second['ops'])
    return case


def gen_build(rng):
    """construction path of the case's storage / DB: constructor vs ZODB.config, non-default DB options"""
    return dict(config=rng.random() < 0.3, pool=rng.choice([None, None, 1, 3]),
                cache=rng.choice([None, None, 0, 1, 400]))


def run_real(case, tmp, tag):
    L.BUILD = case.get('build') or {}
    if case['section'] == 'storage':
        ops, obs = run_storage_real(case, tmp, tag)
        return dict(ops=ops, obs=obs)
    if case['section'] == 'db':
        return run_db_real(case, tmp, tag)
    if case['section'] == 'btree':
        return run_btree_real(case, tmp, tag)
    if case['section'] == 'histrace':
        return run_histrace_real(case, tmp, tag)
    if case['section'] == 'threads':        # replay of a plain-threads finding
        return dict(ops=[], obs=[], threads_problems=run_threads_smoke(case['kind'], tmp, case.get('n', 40)))
    return run_sched_real(case, tmp, tag)


class CaseTimeout(Exception):
    """a single case ran into the per-case watchdog: a verdict with this case as failing input"""


def watchdog(seconds):
    """per-case alarm (main thread of the process only): a blocked step becomes a verdict instead of a
    hang until the global watchdog"""
    import signal
    import threading
    if threading.current_thread() is not threading.main_thread() or not hasattr(signal, 'SIGALRM'):
        return lambda: None

    def onalarm(signum, frame):
        raise CaseTimeout('case did not finish within %d s' % seconds)
    old = signal.signal(signal.SIGALRM, onalarm)
    signal.alarm(seconds)

    def cancel():
        signal.alarm(0)
        signal.signal(signal.SIGALRM, old)
    return cancel


def run_real_safe(case, tmp, tag):
    """an exception escaping the real code where the unchanged code raises none is a verdict
    (signature C03:unexpected-exception:<type>), not an infrastructure error"""
    cancel = watchdog(240)
    try:
        return run_real(case, tmp, tag)
    except (InfraError, KeyboardInterrupt):
        raise
    except BaseException as e:  # noqa: B902
        import traceback
        return dict(ops=[], obs=[], crash=(type(e).__name__, traceback.format_exc()[-1200:]))
    finally:
        cancel()


def judge(case, res):
    if res.get('crash'):
        return [('C03:unexpected-exception:' + res['crash'][0], res['crash'][1])], False, {}
    if case['section'] == 'threads':
        return list(res['threads_problems']), False, {}
    if case['section'] == 'btree':
        P = oracle_btree(res)
        nt = any(e[0] == 'commit' and e[2] in ('Conflict', 'ReadConflict') for e in res['log']) or \
            any('resolved' in o for o in res['obs'])
        return P, nt, {'btree-commit:' + e[2]: sum(1 for x in res['log'] if x[0] == 'commit' and x[2] == e[2])
                       for e in res['log'] if e[0] == 'commit'}
    P, nontriv, hc = oracle_trace(res['ops'], res['obs'])
    if case['section'] != 'storage':
        P += oracle_db(res)
    return P, nontriv, hc


def shrink(case, sig, tmp):
    """smaller case with the same oracle signature"""
    n = [0]

    def fails_with(c):
        n[0] += 1
        try:
            r = run_real_safe(c, tmp, 'k%d' % n[0])
            P, _, _ = judge(c, r)
        except InfraError:
            return False
        return any(s == sig for s, _ in P)
    if case['section'] == 'btree':
        n = [0]

        def f(sub):
            n[0] += 1
            try:
                r = run_real_safe(dict(case, prog=sub), tmp, 'k%d' % n[0])
                return any(s_ == sig for s_, _ in judge(case, r)[0])
            except InfraError:
                return False
        return dict(case, prog=ddmin(case['prog'], f, max_tests=60))
    if case['section'] in ('threads', 'histrace'):
        return case
    if case['section'] == 'storage':
        tail = [o for o in case['ops'] if o.split()[0] in ('cur', 'load', 'hist')]
        body = [o for o in case['ops'] if o.split()[0] not in ('cur', 'load', 'hist')]
        small = ddmin(body, lambda sub: fails_with(dict(case, ops=sub + tail)), max_tests=150)
        return dict(case, ops=small + tail)
    if case['section'] == 'db':
        small = ddmin(case['prog'], lambda sub: fails_with(dict(case, prog=sub)), max_tests=150)
        return dict(case, prog=small)
    # schedules: drop whole transactions of the thread programs (same scheduler seed; the run stays
    # deterministic, the schedule is re-drawn for the smaller programs)
    groups = []
    for ti, prog in enumerate(case['progs']):
        g = []
        for st in prog:
            g.append(st)
            if st[0] == 'commit':
                groups.append((ti, g))
                g = []
        if g:
            groups.append((ti, g))

    def rebuild(gs):
        progs = [[] for _ in case['progs']]
        for ti, g in gs:
            progs[ti] += g
        return dict(case, progs=progs, schedule=None)
    small = ddmin(groups, lambda sub: fails_with(rebuild(sub)), max_tests=60)
    return rebuild(small)


def trivial_hash(case):
    return {k: v for k, v in case.items() if k != 'schedule'}


def main(argv=None):
    import logging
    logging.disable(logging.CRITICAL)
    ck = Check('C03', argv)
    ck.extra['modules'] = ['Props.C03', 'Drivers.StoreRules']
    ck.run_gate(ck.extra['modules'], ['Props.C03'])
    have_sched = os.path.exists(os.path.join(os.path.dirname(os.path.abspath(__file__)), 'sched.py'))
    cases = []
    if ck.replay_path:
        with open(ck.replay_path) as f:
            cases = [json.load(f)['case']['case']]
    else:
        cdir = os.path.join(os.path.dirname(os.path.dirname(os.path.abspath(__file__))), 'corpus', 'C03')
        if os.path.isdir(cdir):
            for fn in sorted(os.listdir(cdir)):
                if fn.endswith('.json'):
                    with open(os.path.join(cdir, fn)) as f:
                        cases.append(json.load(f))
        n_st, n_db, n_sc = (60, 40, 100) if not ck.thorough else (2500, 1500, 4000)
        n0 = (n_st, n_db, n_sc)
        for kind in KINDS + ['mvccmapping', 'hex:file', 'demo2']:
            n_st, n_db, n_sc = n0
            if kind == 'mvccmapping':
                n_st, n_db, n_sc = n_st // 3, n_db, n_sc // 2
            if kind in ('hex:file', 'demo2'):
                n_st, n_db, n_sc = n_st // 4, n_db // 4, n_sc // 8
            for _ in range(n_st):
                cases.append(with_session(
                    ck.rng, gen_storage_case(ck.rng, kind, ck.rng.choice([12, 25, 40, 60])),
                    lambda k2: gen_storage_case(ck.rng, k2, ck.rng.choice([12, 25])), KINDS + ['demo2']))
            if kind == 'file':
                for _ in range(n_st // 2):
                    cases.append(gen_storage_undo_case(ck.rng))
            for _ in range(max(n_db // 4, 3)):
                cases.append(gen_btree_case(ck.rng, kind))
            for _ in range(n_db):
                cases.append(gen_db_case(ck.rng, kind, ck.rng.choice([8, 14, 24])))
            if have_sched:
                for _ in range(n_sc):
                    cases.append(gen_sched_case(ck.rng, kind, ck.rng.randrange(1 << 30)))
                if kind == 'file':
                    for c in ('plain', 'counter', 'minpo'):
                        for later in (1, 2):
                            cases.append(dict(section='histrace', kind=kind, objs=['o0'], cls={'o0': c},
                                              nconn=2, later=later))
    # states are trees over NATURAL numbers: a case with a negative atom (written by an older generator)
    # is not in the model's input language and is not run
    bad = [c for c in cases if any('a-' in o for o in c.get('ops', []))]
    for c in bad:
        ck.count('ill-formed-case-dropped')
    cases = [c for c in cases if c not in bad]
    for c in cases:
        if 'build' not in c and c.get('section') in ('storage', 'db', 'sched') and not ck.replay_path:
            c['build'] = gen_build(ck.rng)
    results = run_all(ck, cases)
    # ---- model: one driver process for everything
    lines, spans = [], []
    for case, res in zip(cases, results):
        if res is None or res.get('nomodel'):
            spans.append(None)
            continue
        ml = model_lines(case['kind'], res['ops'])
        spans.append((len(lines) + len(ml) - len(res['ops']), len(res['ops'])))
        lines += ml
    mout = run_driver('StoreRules', lines) if lines else []
    shrunk = set()
    for idx, (case, res) in enumerate(zip(cases, results)):
        if res is None:
            continue
        P, nontriv, hc = res['judged']
        for k, v in hc.items():
            ck.count(k, v)
        ck.count('section:' + case['section'])
        ck.count('kind:' + case['kind'])
        sample = None
        if nontriv:
            sample = dict(section=case['section'], kind=case['kind'],
                          ops=res['ops'][:14], real=res['obs'][:14])
        ck.case(trivial_hash(case), nontriv, sample)
        if P:
            sig, what = P[0]
            # shrink only the first failure of each kind (shrinking re-runs the real code many times)
            small = shrink(case, sig, ck.tmp) if sig not in shrunk and len(shrunk) < 3 else case
            shrunk.add(sig)
            r2 = run_real_safe(small, ck.tmp, 'v%d' % idx)
            P2, _, _ = judge(small, r2)
            what2 = [w for s, w in P2 if s == sig]
            ck.violation(sig, (what2 or [what])[0],
                         dict(case=small, ops=r2['ops'], real=r2['obs'], problems=P2[:5]))
            continue
        if spans[idx] is None:
            continue
        start, n = spans[idx]
        mo = mout[start:start + n]
        if mo != res['obs']:
            j = [k for k in range(n) if mo[k] != res['obs'][k]][0]
            ck.mismatch('model/impl differ (%s, %s) at op %r: impl %r model %r' % (
                case['section'], case['kind'], res['ops'][j], res['obs'][j], mo[j]),
                dict(case=case, ops=res['ops'][:j + 1], real=res['obs'][:j + 1], model=mo[:j + 1]))
    # ---- plain OS threads smoke (no scheduler): real preemption, a few hundred commits
    if not ck.replay_path and not ck.violations:
        for kind in KINDS:
            try:
                probs = run_threads_smoke(kind, ck.tmp, 40 if not ck.thorough else 400)
            except BaseException as e:  # noqa: B902
                probs = [('C03:unexpected-exception:' + type(e).__name__, 'plain-threads run on %s raised %r' % (kind, e))]
            for sig, what in probs:
                ck.violation(sig, what, dict(case=dict(section='threads', kind=kind, n=40 if not ck.thorough else 400)))
            ck.count('threads-smoke:' + kind)
    ck.finish(
        rule='three sections x 4 storage kinds (file, mapping, demo over mapping with mapping/file changes): '
             'storage-level programs of 2-3 writers with serials read at arbitrary earlier times (incl. blocked '
             'tpc_begin probes), DB-level programs of 2-3 connections, and 2-3 committer threads under the '
             'deterministic scheduler; non-trivial = some store/readCurrent check was made with a serial that '
             'was no longer the latest committed one (two overlapping transactions with intersecting '
             'write/readCurrent sets), measured on the executed trace; distinct by hash of the case',
        assumptions=['tids handed to tpc_begin are later than everything committed (as tpc_begin itself '
                     'guarantees; for DemoStorage also later than the base: open finding #10 excluded)',
                     'undo / deletion records, pack and restore are outside this model (C06, C07, C17)',
                     'thread schedules: preemption at lock operations (sched.py) and, with a reader thread, at '
                     'seek/read of the FileStorage file object; a plain-threads smoke run adds real preemption '
                     'without comparison against the model',
                     'ORACLE ONLY (no model comparison): the BTrees section (implicit readCurrent of BTree nodes, '
                     'bucket conflict resolution in C), the per-commit check of Connection._readCurrent against '
                     'the real revision history, the bystander database / bystander storage commits and the '
                     'plain-threads run',
                     'readCurrent is judged for transactions that write; a transaction that un-creates objects '
                     'may fail a dependent commit with POSKeyError instead of a conflict error'])


def _work(args):
    idx, case, tmp = args
    import logging
    logging.disable(logging.CRITICAL)
    import shutil
    sub = os.path.join(tmp, 'case%d' % idx)
    os.makedirs(sub, exist_ok=True)
    try:
        res = run_real_safe(case, sub, 'w')
        res['judged'] = judge(case, res)
        return idx, res, None
    except InfraError as e:
        return idx, None, 'infra: %s' % e
    finally:
        shutil.rmtree(sub, ignore_errors=True)


MAX_BAD = 6      # stop executing further cases once this many have violated the property


def run_all(ck, cases):
    """real runs + direct oracle for every case (cases not executed stay None).  Once MAX_BAD cases
    violated the property the rest is skipped: the verdict is settled, and broken lock semantics make
    every further case wait for timeouts."""
    results = [None] * len(cases)
    bad = 0
    if ck.thorough and len(cases) > 200:
        import multiprocessing as mp
        with mp.get_context('fork').Pool(min(16, os.cpu_count() or 4)) as pool:
            for idx, res, err in pool.imap_unordered(_work, [(i, c, ck.tmp) for i, c in enumerate(cases)], chunksize=4):
                if err:
                    raise InfraError('case %d failed to run: %s' % (idx, err))
                results[idx] = res
                bad += bool(res['judged'][0])
                if bad >= MAX_BAD:
                    pool.terminate()
                    break
    else:
        for i, c in enumerate(cases):
            idx, res, err = _work((i, c, ck.tmp))
            if err:
                raise InfraError('case %d (%s) failed to run: %s' % (i, json.dumps(c)[:300], err))
            results[i] = res
            bad += bool(res['judged'][0])
            if bad >= MAX_BAD:
                ck.count('stopped-early-after-violations')
                break
    return results


if __name__ == '__main__':
    try:
        main()
    except InfraError as e:
        print('INFRA-ERROR', e)
        sys.exit(2)
