"""C11, multi-database family (oracle only: the Lean model has one database).

Two databases share a `databases` mapping; the primary connection (database 'main') hands out a secondary
connection (database 'aux', Connection.get_connection); both use one transaction manager and are closed,
pooled and reopened together.  One committed object in each database: P (main) and S (aux).

    modP v | modS v | readP | readS       through the connection pair under test
    closeP                                 primary.close()
    reset                                  ZODB.Connection.resetCaches() (between close and open)
    open                                   db_main.open(tm) again (+ get_connection('aux')), objects re-fetched
    commit | abort                         of the pair's transaction manager
    peekP | peekS                          committed value, read through an independent connection pair

Observation per op:  <result> | P:<G|U|C>[=<v>] S:<G|U|C>[=<v>]   (values read without un-ghosting).

The property (close_requires_unjoined, reuse_has_no_uncommitted_state for ANY connection of the group):
close succeeds exactly when no connection of the group has joined a transaction; a refused close has no
effect at all; after close + open the pair shows committed state only."""
import os

from c11_lib import errname, make_storage


class World2:
    def __init__(self, case, tmpdir, tag):
        import ZODB
        import transaction
        from c11_classes import Node
        self.dbs = {}
        self.st1 = make_storage(case['kind'], tmpdir, tag + 'a')
        self.st2 = make_storage(case['kind'], tmpdir, tag + 'b')
        self.db1 = ZODB.DB(self.st1, databases=self.dbs, database_name='main')
        self.db2 = ZODB.DB(self.st2, databases=self.dbs, database_name='aux')
        self.tm = transaction.TransactionManager()
        self.conn = self.db1.open(self.tm)
        self.aux = self.conn.get_connection('aux')
        self.conn.root()['p'] = Node()      # (a class written in C style: a refused registration changes nothing)
        self.aux.root()['s'] = Node()
        self.tm.commit()
        self.sps = []
        self.fetch()

    def fetch(self):
        self.P = self.conn.root()['p']
        self.S = self.aux.root()['s']

    def close(self):
        for f in (self.tm.abort, self.db1.close, self.db2.close):
            try:
                f()
            except Exception:
                pass

    def vector(self):
        out = []
        for name, o in (('P', self.P), ('S', self.S)):
            ch = o._p_changed
            s = '%s:%s' % (name, 'G' if ch is None else ('C' if ch else 'U'))
            if ch is not None:
                s += '=%s' % o.__dict__.get('v', '?')
            out.append(s)
        return ' '.join(out)

    def peek(self, which):
        import transaction
        tmx = transaction.TransactionManager()
        c = self.db1.open(tmx)
        try:
            if which == 'P':
                return 'v=%d' % c.root()['p'].v
            return 'v=%d' % c.get_connection('aux').root()['s'].v
        finally:
            tmx.abort()
            c.close()

    def run_op(self, op):
        t = op.split()
        try:
            if t[0] in ('modP', 'modS'):
                (self.P if t[0] == 'modP' else self.S).v = int(t[1])
                r = 'ok'
            elif t[0] in ('readP', 'readS'):
                r = 'v=%d' % (self.P if t[0] == 'readP' else self.S).v
            elif t[0] == 'sp':
                self.sps.append(self.tm.savepoint())        # a savepoint spanning both databases
                r = 'ok'
            elif t[0] == 'rb':
                if int(t[1]) >= len(self.sps):
                    r = 'err:InvalidSavepoint'
                else:
                    self.sps[int(t[1])].rollback()
                    r = 'ok'
            elif t[0] == 'extP':
                # an independent connection pair commits a new value of P
                import transaction
                tmx = transaction.TransactionManager()
                c = self.db1.open(tmx)
                try:
                    c.root()['p'].v = int(t[1])
                    tmx.commit()
                finally:
                    tmx.abort()
                    c.close()
                r = 'ok'
            elif t[0] == 'commitx':
                # commit WITHOUT the abort the harness otherwise issues after a failure: the manager is shared by
                # the connections of the group, the failed transaction stays current until it is aborted
                self.sps = []
                self.tm.commit()
                r = 'ok'
            elif t[0] == 'closeP':
                self.conn.close()
                r = 'ok'
            elif t[0] == 'reset':
                import ZODB.Connection
                ZODB.Connection.resetCaches()       # pooled connections start with an empty cache when reopened
                r = 'ok'
            elif t[0] == 'open':
                c = self.db1.open(self.tm)
                self.conn = c
                self.aux = c.get_connection('aux')
                self.fetch()
                r = 'ok'
            elif t[0] == 'commit':
                self.sps = []
                self.tm.commit()
                r = 'ok'
            elif t[0] == 'abort':
                self.sps = []
                self.tm.abort()
                r = 'ok'
            elif t[0] in ('peekP', 'peekS'):
                r = self.peek(t[0][-1])
            else:
                r = 'bad-op'
        except Exception as e:
            n = errname(e)
            r = ('fail:' if t[0] in ('commit', 'commitx') else 'err:') + n
            if t[0] == 'commit':
                try:
                    self.tm.abort()
                except Exception:
                    pass
        return r + ' | ' + self.vector()


def run_real(case, tmpdir, tag):
    import shutil
    w = World2(case, tmpdir, tag)
    try:
        out = ['ok | ' + w.vector()]
        for op in case['ops']:
            out.append(w.run_op(op))
        return out
    finally:
        w.close()
        for x in 'ab':
            shutil.rmtree(os.path.join(tmpdir, 'fs-' + tag + x), ignore_errors=True)


D3 = 'C11:multidb:refused-close-damages-primary'


def judge(case, real):
    """-> None | ('taint', idx) | (idx, signature, what)"""
    com = {'P': 0, 'S': 0}
    vis = dict(com)
    base = dict(com)    # the connections' current view of the committed data (moves at boundaries and at open)
    dirty = set()       # modified since the last savepoint: must be marked changed
    touched = set()     # modified in this transaction: their connections are joined, commit writes them
    unsure = False      # after a rollback the oracle does not say which connections are still joined
    closed = False
    damaged = False     # a close was refused while only the secondary connection was joined (finding D3)
    sps = []            # savepoints: (vis, touched) or None when invalidated
    stale = False       # another pair committed P since this transaction's view was taken
    failed = None       # the shared manager's current transaction failed and is not aborted yet: touched then

    def sig(op, what):
        return D3 if damaged else 'C11:multidb:%s:%s' % (op.split()[0], what)
    for idx, op in enumerate(case['ops'], 1):
        res, vec = real[idx].split(' | ')
        t = op.split()
        k = t[0]
        if closed and k not in ('open', 'peekP', 'peekS', 'commit', 'abort', 'reset'):
            return ('taint', idx)
        if failed is not None and k not in ('modP', 'modS', 'abort', 'peekP', 'peekS'):
            return ('taint', idx)
        will_damage = False
        if k == 'reset':
            if not closed:
                return ('taint', idx)       # (only between close and open: the application drops its objects)
            exp = 'ok'
        elif k in ('modP', 'modS') and failed is not None:
            # refused (TransactionFailedError) — and the refusal changes nothing: after the abort the
            # connection takes part in the next transaction as usual
            if k[-1] in failed:
                return ('taint', idx)       # (only for a connection that had not joined)
            exp = 'err:TransactionFailed'
        elif k in ('modP', 'modS'):
            exp = 'ok'
            vis[k[-1]] = int(t[1])
            dirty.add(k[-1])
            touched.add(k[-1])
        elif k in ('readP', 'readS'):
            exp = 'v=%d' % vis[k[-1]]
        elif k == 'sp':
            sps.append((dict(vis), set(touched)))
            dirty = set()
            exp = 'ok'
        elif k == 'rb':
            n = int(t[1])
            if n >= len(sps) or sps[n] is None:
                exp = 'err:InvalidSavepoint'
            else:
                # the rollback restores what the transaction had CHANGED by then; an object it had not changed
                # shows the connection's current view (which a close + reopen in between has moved)
                touched = set(sps[n][1])
                vis = {x: (sps[n][0][x] if x in touched else base[x]) for x in base}
                dirty = set()
                unsure = True
                for m in range(n + 1, len(sps)):
                    sps[m] = None
                exp = 'ok'
        elif k == 'extP':
            com['P'] = int(t[1])
            stale = True
            exp = 'ok'
        elif k in ('commit', 'commitx'):
            sps = []
            if 'P' in touched and stale and not closed:
                exp = 'fail:Conflict'
                if k == 'commitx':
                    failed = set(touched)
                else:                       # (the harness aborts at once)
                    vis, dirty, touched, stale, unsure = dict(com), set(), set(), False, False
                    base = dict(com)
            else:
                exp = 'ok'
                if not closed:
                    com.update({x: vis[x] for x in touched})
                    vis, stale = dict(com), False
                    base = dict(com)
                dirty, touched, unsure = set(), set(), False
        elif k == 'closeP':
            if unsure:
                return ('taint', idx)
            if touched:
                exp = 'err:ConnState'
                will_damage = touched == {'S'}
            else:
                exp = 'ok'
                closed = True
        elif k == 'open':
            if not closed:
                return ('taint', idx)
            exp = 'ok'
            closed = False
            damaged = False
            vis = dict(com)
            base = dict(com)
            stale = False
        elif k == 'abort':
            exp = 'ok'
            if not closed:
                vis, stale = dict(com), False
                base = dict(com)
            dirty, touched, sps, unsure, failed = set(), set(), [], False, None
        elif k in ('peekP', 'peekS'):
            exp = 'v=%d' % com[k[-1]]
        else:
            return ('taint', idx)
        if res != exp:
            if k == 'closeP' and exp != 'ok' and res == 'ok':
                return (idx, 'C11:multidb:closeP:result',
                        'close() succeeded although a connection of the group (%s) is joined to a transaction'
                        % ','.join(sorted(touched)))
            return (idx, sig(op, 'result'), 'op %r returned %r, the property requires %r%s'
                    % (op, res, exp, ' (after a refused close)' if damaged else ''))
        if will_damage:
            damaged = True
        if closed or failed is not None:
            continue
        for item in vec.split():
            name, rest = item.split(':')
            st = rest[0]
            val = rest[2:] if len(rest) > 1 else None
            if name in dirty:
                if st != 'C':
                    return (idx, sig(op, 'modified-object-not-changed'),
                            'object %s was modified but _p_changed is %s after %r' % (name, st, op))
            elif st == 'C':
                return (idx, sig(op, 'object-not-clean'), 'object %s is marked changed after %r' % (name, op))
            if st != 'G' and val != str(vis[name]):
                return (idx, sig(op, 'value'), 'object %s shows %s, expected %d after %r%s'
                        % (name, val, vis[name], op, ' (after a refused close)' if damaged else ''))
    return None


def gen(rng, kind):
    if rng.random() < 0.2:
        # the manager is shared by the group: a commit fails (conflict on P), and BEFORE the abort an object of
        # the connection that had not joined is touched: refused, without any lasting effect
        v = rng.randrange(1, 9)
        ops = ['modP %d' % v, 'extP %d' % (10 + v), 'commitx', 'modS %d' % (v + 1), 'abort', 'readS',
               'modS %d' % (v + 2), rng.choice(['commit', 'abort']), 'peekS', 'readS', 'closeP', 'open', 'readS', 'readP']
        return dict(kind=kind, n=2, ops=ops, family='multidb')
    nsp = 0
    ops = []
    closed = False
    size = rng.choice([5, 8, 12, 16])
    for _ in range(size):
        if closed:
            ops.append(rng.choice(['open', 'open', 'peekP', 'peekS', 'reset', 'reset']))
            if ops[-1] == 'open':
                closed = False
            continue
        r = rng.random()
        v = rng.randrange(1, 10)
        if r < 0.18:
            ops.append('modS %d' % v)
        elif r < 0.32:
            ops.append('modP %d' % v)
        elif r < 0.42:
            ops.append(rng.choice(['readP', 'readS']))
        elif r < 0.48:
            ops.append('sp')
            nsp += 1
        elif r < 0.53 and nsp:
            ops.append('rb %d' % rng.randrange(nsp))
        elif r < 0.56:
            ops.append('extP %d' % (10 + v))
        elif r < 0.64:
            ops.append('closeP')
            closed = None      # unknown to the generator: decided below
        elif r < 0.78:
            ops.append('commit')
            nsp = 0
        elif r < 0.90:
            ops.append('abort')
            nsp = 0
        else:
            ops.append(rng.choice(['peekP', 'peekS']))
        if closed is None:
            # the close succeeds iff nothing was modified since the last commit/abort
            d = False
            for o in ops[:-1]:
                if o.startswith('mod'):
                    d = True
                elif o in ('commit', 'abort'):
                    d = False
            closed = not d
    if closed:
        ops.append('open')
    ops += ['readP', 'readS', 'abort', 'closeP']
    if rng.random() < 0.5:
        # ZODB.Connection.resetCaches() while closed; then changes through the reopened pair are undone by abort
        ops += ['reset', 'open', 'mod%s %d' % (rng.choice('PS'), rng.randrange(1, 10)),
                rng.choice(['abort', 'abort', 'commit']), 'readP', 'readS']
    else:
        ops += ['open', 'readP', 'readS']
    ops += ['peekP', 'peekS']
    return dict(kind=kind, n=2, ops=ops, family='multidb')


# =====================================================================================================
# family 'explicit': one database, a connection opened with transaction.TransactionManager(explicit=True).
# Touching a persistent object outside begin()/commit() is refused (NoTransaction) — and a refused
# registration must have no effect: the connection takes part in the next transaction as usual.
#     begin | commit | abort | mod v | read | close | open | peek
# Observation:  <result> | X:<G|U|C>[=<v>]     (object X: a c11_classes.Node under root['x'])
# =====================================================================================================
class World3:
    def __init__(self, case, tmpdir, tag):
        import ZODB
        import transaction
        from c11_classes import Node
        self.st = make_storage(case['kind'], tmpdir, tag)
        self.db = ZODB.DB(self.st)
        self.tm = transaction.TransactionManager(explicit=True)
        self.conn = self.db.open(self.tm)
        self.tm.begin()
        self.conn.root()['x'] = Node()
        self.tm.commit()
        self.tm.begin()
        self.X = self.conn.root()['x']
        self.X.v                    # loaded
        self.tm.abort()

    def close(self):
        for f in (self.tm.abort, self.db.close):
            try:
                f()
            except Exception:
                pass

    def vector(self):
        ch = self.X._p_changed
        s = 'X:%s' % ('G' if ch is None else ('C' if ch else 'U'))
        if ch is not None:
            s += '=%s' % self.X.__dict__.get('v', '?')
        return s

    def run_op(self, op):
        import transaction
        t = op.split()
        try:
            if t[0] == 'begin':
                self.tm.begin()
                r = 'ok'
            elif t[0] == 'commit':
                self.tm.commit()
                r = 'ok'
            elif t[0] == 'abort':
                self.tm.abort()
                r = 'ok'
            elif t[0] == 'mod':
                self.X.v = int(t[1])
                r = 'ok'
            elif t[0] == 'read':
                r = 'v=%d' % self.X.v
            elif t[0] == 'close':
                self.conn.close()
                r = 'ok'
            elif t[0] == 'open':
                # (the pool may hand out another connection than the one closed before: fetch the object
                # through the connection we got, as the next user of a pooled connection does)
                self.conn = self.db.open(self.tm)
                self.X = self.conn.root()['x']
                r = 'ok'
            elif t[0] == 'peek':
                tmx = transaction.TransactionManager()
                c = self.db.open(tmx)
                try:
                    r = 'v=%d' % c.root()['x'].v
                finally:
                    tmx.abort()
                    c.close()
            else:
                r = 'bad-op'
        except Exception as e:
            r = 'err:' + type(e).__name__
        return r + ' | ' + self.vector()


def run_real_x(case, tmpdir, tag):
    import shutil
    w = World3(case, tmpdir, tag)
    try:
        out = ['ok | ' + w.vector()]
        for op in case['ops']:
            out.append(w.run_op(op))
        return out
    finally:
        w.close()
        shutil.rmtree(os.path.join(tmpdir, 'fs-' + tag), ignore_errors=True)


def judge_x(case, real):
    com = vis = 0
    intxn = dirty = closed = False
    fresh = True        # False between a reopen and the next begin(): an explicit manager refreshes the view of a
    #                     pooled connection only when a transaction begins
    for idx, op in enumerate(case['ops'], 1):
        res, vec = real[idx].split(' | ')
        t = op.split()
        k = t[0]
        if closed and k not in ('open', 'peek'):
            return ('taint', idx)
        if k == 'begin':
            if intxn:
                exp = 'err:AlreadyInTransaction'
            else:
                exp, intxn, vis, fresh = 'ok', True, com, True
        elif k == 'commit':
            if not intxn:
                exp = 'err:NoTransaction'
            else:
                exp, com, intxn, dirty = 'ok', vis, False, False
        elif k == 'abort':
            if not intxn:
                exp = 'err:NoTransaction'
            else:
                exp, vis, intxn, dirty = 'ok', com, False, False
        elif k == 'mod':
            if not intxn:
                exp = 'err:NoTransaction'       # refused, and nothing changes
            else:
                exp, vis, dirty = 'ok', int(t[1]), True
        elif k == 'read':
            if not fresh:
                continue
            exp = 'v=%d' % vis
        elif k == 'close':
            if intxn:
                return ('taint', idx)           # (closing inside an explicit transaction: not generated)
            exp, closed = 'ok', True
        elif k == 'open':
            if not closed:
                return ('taint', idx)
            exp, closed, fresh = 'ok', False, intxn
        elif k == 'peek':
            exp = 'v=%d' % com
        else:
            return ('taint', idx)
        if res != exp:
            return (idx, 'C11:explicit:%s:result' % k, 'op %r returned %r, the property requires %r' % (op, res, exp))
        if closed:
            continue
        st = vec[2]
        val = vec[4:] if len(vec) > 3 else None
        if dirty and st != 'C':
            return (idx, 'C11:explicit:%s:modified-object-not-changed' % k,
                    'the object was modified but _p_changed is %s after %r' % (st, op))
        if not dirty and st == 'C':
            return (idx, 'C11:explicit:%s:object-not-clean' % k, 'the object is marked changed after %r' % op)
        if fresh and st != 'G' and val != str(vis):
            return (idx, 'C11:explicit:%s:value' % k, 'the object shows %s, expected %d after %r' % (val, vis, op))
    return None


def gen_x(rng, kind):
    ops = []
    intxn = closed = False
    for _ in range(rng.choice([5, 8, 12, 16])):
        v = rng.randrange(1, 10)
        if closed:
            ops.append(rng.choice(['open', 'open', 'peek']))
            closed = ops[-1] != 'open'
            continue
        r = rng.random()
        if r < 0.22:
            ops.append('begin')
            intxn = True
        elif r < 0.47:
            ops.append('mod %d' % v)            # inside or outside a transaction
        elif r < 0.57:
            ops.append('read')
        elif r < 0.72:
            ops.append('commit')
            intxn = False
        elif r < 0.84:
            ops.append('abort')
            intxn = False
        elif r < 0.92 and not intxn:
            ops.append('close')
            closed = True
        else:
            ops.append('peek')
    if closed:
        ops.append('open')
    if intxn:
        ops.append('abort')
    ops += ['begin', 'mod 11', 'commit', 'peek', 'begin', 'mod 12', 'abort', 'begin', 'read', 'abort', 'close', 'open',
            'peek']
    return dict(kind=kind, n=1, ops=ops, family='explicit')
