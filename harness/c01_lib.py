"""Shared pieces of the C01 / C09 checks: history generator, execution on the REAL FileStorage under
the recording VFS, an independent pure-Python parser of the data-file format (the oracle's eyes),
query dumps, crash-image enumeration and the translation of a real run into model-driver lines."""
import base64
import json
import logging
import os
import struct
import sys

sys.path.insert(0, os.path.dirname(os.path.abspath(__file__)))
import vfs  # noqa: E402

logging.disable(logging.CRITICAL)

TID_BASE = 0x03d5000000000000
Z64 = b'\0' * 8
MAXTID = b'\x7f' + b'\xff' * 7


def p64(n):
    return struct.pack('>Q', n)


def u64(b):
    return struct.unpack('>Q', b)[0]


def fnv64(b):
    h = 14695981039346656037
    for x in b:
        h = ((h ^ x) * 1099511628211) & 0xFFFFFFFFFFFFFFFF
    return '%016x' % h


# ---------------------------------------------------------------- byte specs
def fill(n, seed):
    return bytes((seed + 7 * i) % 256 for i in range(n))


def spec_bytes(spec):
    """('f', len, seed) | ('h', hex) | None/'-' -> bytes"""
    if spec is None or spec == '-':
        return b''
    if spec[0] == 'f':
        return fill(spec[1], spec[2])
    return bytes.fromhex(spec[1])


def spec_tok(spec):
    if spec is None or spec == '-':
        return '-'
    if spec[0] == 'f':
        return '-' if spec[1] == 0 else 'f:%d:%d' % (spec[1], spec[2])
    return 'h:' + spec[1] if spec[1] else '-'


def bytes_tok(b):
    """shortest driver token for the bytes b (recognises fill patterns)"""
    if not b:
        return '-'
    seed = b[0]
    if len(b) > 24 and b == fill(len(b), seed):
        return 'f:%d:%d' % (len(b), seed)
    return 'h:' + b.hex()


# ---------------------------------------------------------------- generator
def gen_history(rng, profile='small', ntx=None):
    """A history = list of transaction dicts (JSON-able).  profile: small | big | meta"""
    n = ntx or rng.choice([1, 2, 3, 3, 4, 5, 6, 8])
    oids = rng.sample([1, 2, 3, 4, 5, 7, 0x10000, 0xffff, 2 ** 40 + 3, 9, 11], rng.choice([2, 3, 4, 6]))
    hist = []
    tid = TID_BASE + rng.randrange(1, 1000)

    def data_spec():
        r = rng.random()
        if profile == 'big' and r < 0.6:
            ln = rng.choice([rng.randrange(4000, 4200), rng.randrange(8100, 8300),
                             rng.randrange(3900, 4100), rng.randrange(8000, 8200), 12000])
        elif r < 0.2:
            ln = rng.choice([1, 2, 8, 42])
        else:
            ln = rng.randrange(1, 70)
        return ['f', ln, rng.randrange(256)]

    def meta_spec(heavy):
        r = rng.random()
        if heavy and r < 0.5:
            ln = rng.choice([65535, 65534, 40000, 8192, 4096, 65535])
        elif r < 0.45:
            ln = 0
        elif r < 0.6:
            ln = 1
        else:
            ln = rng.randrange(2, 40)
        return ['f', ln, rng.randrange(256)]

    for i in range(n):
        tid += rng.choice([1, 2, 0x100, 0x10000, 0x123456])
        r = rng.random()
        kind = 'commit' if r < 0.72 else ('abort_after' if r < 0.9 else 'abort_before')
        heavy = profile == 'meta' and rng.random() < 0.5
        t = dict(kind=kind, tid=tid, status=rng.choice([' ', ' ', ' ', 'p']),
                 user=meta_spec(heavy and rng.random() < 0.4), desc=meta_spec(heavy),
                 ext=meta_spec(heavy and rng.random() < 0.3), ops=[],
                 save_index=rng.random() < 0.35)
        nops = rng.choice([0, 1, 1, 2, 2, 3, 4]) if profile != 'big' else rng.choice([1, 2, 3])
        for _ in range(nops):
            q = rng.random()
            oid = rng.choice(oids)
            if q < 0.55:
                t['ops'].append(['store', oid, data_spec()])
            elif q < 0.67:
                t['ops'].append(['delete', oid])
            elif q < 0.8:
                t['ops'].append(['undo', rng.randrange(1, 4)])
            elif q < 0.93:
                t['ops'].append(['restore', oid, data_spec(), rng.random() < 0.6])
            else:
                t['ops'].append(['restore', oid, None, False])
        if any(o[0] == 'undo' for o in t['ops']):
            t['status'] = ' '
        hist.append(t)
    if not any(t['kind'] == 'commit' for t in hist):
        hist[-1]['kind'] = 'commit'
    return hist


WIDE_OIDS = [1, 2, 0xff, 0x100, 0xffff, 0x10000, 0x10001, 0xff00ff, 2 ** 32, 2 ** 48 - 1, 2 ** 48, 2 ** 63,
             2 ** 63 + 0xff00, 2 ** 64 - 2, 2 ** 64 - 1, 0x0100000000000000, 0xffff0000ffff0000]


def gen_wide_history(rng):
    """the less-travelled dimensions: storage built through ZODB.config / create= / quota= / blob_dir=,
    oids in many index buckets with 0x00/0xff bytes and the high bit, empty transactions at every place,
    two undo records / two stores per oid in one transaction, faults (EIO/ENOSPC) at a raw operation of
    vote or finish followed by a retry of the same transaction, a rival committer between store and vote"""
    hist = gen_history(rng, 'small', ntx=rng.choice([3, 4, 5, 6, 8]))
    pool = rng.sample(WIDE_OIDS, rng.choice([3, 4, 6]))
    remap = {}
    for t in hist:
        for op in t['ops']:
            if op[0] != 'undo':
                op[1] = remap.setdefault(op[1], pool[len(remap) % len(pool)])
    # empty transactions: first, in the middle, last
    for pos in rng.sample(range(len(hist)), min(len(hist), rng.choice([1, 2, 3]))) + [rng.choice([0, len(hist) - 1])]:
        hist[pos]['ops'] = []
        hist[pos]['kind'] = 'commit'
        if rng.random() < 0.5:
            hist[pos]['user'] = hist[pos]['desc'] = hist[pos]['ext'] = ['f', 0, 0]     # tl == 23 exactly
    commits = [t for t in hist if t['kind'] == 'commit' and t['ops']]
    for t in rng.sample(commits, min(len(commits), 2)):
        q = rng.random()
        if q < 0.4:
            t['ops'] = [['undo', 1], ['undo', 2]] + t['ops'][:1]      # two undo records (maybe of one oid)
            t['status'] = ' '
        elif q < 0.7 and t['ops'][0][0] == 'store':
            t['ops'] = [t['ops'][0], ['store', t['ops'][0][1], ['f', rng.randrange(1, 90), rng.randrange(256)]]] + t['ops'][1:]
    for t in hist:
        if t['kind'] == 'commit' and rng.random() < 0.3:
            t['fault'] = dict(at=rng.choice([1, 2, 2, 3, 3, 4, 4, 5, 6]), errno=rng.choice(['EIO', 'ENOSPC']),
                              partial=rng.random() < 0.5, retry=rng.random() < 0.6)
    cand = [t for t in hist if t['kind'] in ('commit', 'abort_after') and t['ops'] and not t.get('fault')]
    if cand:
        rng.choice(cand)['rival'] = True
    hist[0]['opts'] = dict(via=rng.choice(['direct', 'config', 'config']), create=rng.random() < 0.4,
                           quota=rng.choice([None, 10 ** 9, 10 ** 9, 2500]), blob_dir=rng.random() < 0.4)
    return hist


def boundary_histories():
    """deterministic boundary cases that every run executes: empty transactions (tl == header length, with
    and without metadata) first / between / last, metadata at the 65535 limit next to an empty transaction,
    records over 64 KiB after a larger transaction (utils.cp chunking, stale bytes in Data.fs.tmp), extreme oids"""
    B = TID_BASE + 0x7000

    def txn(i, ops, kind='commit', meta=(0, 0, 0), **kw):
        d = dict(kind=kind, tid=B + i * 0x100, status=' ', user=['f', meta[0], 11], desc=['f', meta[1], 22],
                 ext=['f', meta[2], 33], ops=ops, save_index=False)
        d.update(kw)
        return d
    empties = [txn(1, []), txn(2, [['store', 2 ** 64 - 1, ['f', 5, 1]], ['store', 0, ['f', 1, 2]]], rival=True),
               txn(3, [], meta=(0, 7, 0)), txn(4, [], kind='abort_after'), txn(5, [['delete', 2 ** 64 - 1]], save_index=True),
               txn(6, [['undo', 1], ['undo', 2]]), txn(7, [])]
    limits = [txn(1, [['store', 2 ** 63, ['f', 3, 9]]], meta=(65535, 65535, 65535)), txn(2, [], meta=(0, 65535, 0)),
              txn(3, [['restore', 2 ** 63, ['f', 3, 9], True], ['restore', 0xff00ff, None, False]], meta=(1, 0, 65535)),
              txn(4, [])]
    huge = [txn(1, [['store', 1, ['f', 150000, 3]], ['store', 0x10000, ['f', 70000, 4]]]),
            txn(2, [['store', 1, ['f', 66000, 5]]], kind='abort_after'),
            txn(3, [['store', 2, ['f', 65537, 6]], ['store', 1, ['f', 9, 7]]]),
            txn(4, [['store', 2, ['f', 40, 8]]])]
    faults = [txn(1, [['store', 1, ['f', 60, 1]]])]
    for j in range(1, 6):
        faults.append(txn(1 + j, [['store', 1 + j % 2, ['f', 20 + 9 * j, j]], ['store', 7, ['f', 11, j]]],
                          fault=dict(at=j, errno='ENOSPC' if j % 2 else 'EIO', partial=(j % 2 == 0), retry=True)))
    faults.append(txn(7, [['store', 1, ['f', 400, 1]], ['store', 2, ['f', 300, 2]]],
                      fault=dict(at=2, errno='ENOSPC', partial=True, retry=False)))      # given up: a short one follows
    faults.append(txn(8, [['store', 7, ['f', 3, 3]]]))
    faults.append(txn(9, [['store', 1, ['f', 5, 9]]]))
    return [('boundary-empty', empties), ('boundary-limits', limits), ('boundary-huge', huge),
            ('boundary-faults', faults)]


# ---------------------------------------------------------------- real execution
class RealRun:
    """Result of executing a history on the real FileStorage under the recording VFS."""
    pass


class _TfileProxy:
    """stands in for FileStorage._tfile (instance attribute, harness process only): the first read() after
    arming — i.e. tpc_vote's cp() after the header went into the write buffer, before the records — runs a
    hook (a second thread's read) at a point where no lock operation or raw write would let it in"""

    def __init__(self, f):
        self.__dict__['_f'] = f
        self.__dict__['_hook'] = None

    def read(self, *a):
        h = self.__dict__['_hook']
        if h is not None:
            self.__dict__['_hook'] = None
            h()
        return self.__dict__['_f'].read(*a)

    def __getattr__(self, n):
        return getattr(self.__dict__['_f'], n)


UNKNOWN = object()


def storage_options(hist):
    """non-default ways to build the storage, carried by the first transaction dict of a history:
    {'via': 'direct'|'config', 'create': bool, 'quota': int|None, 'blob_dir': bool}"""
    return (hist[0].get('opts') if hist else None) or {}


def open_storage(path, opts, first=False, read_only=False):
    """FileStorage through the constructor or through a ZODB.config <filestorage> section"""
    from ZODB.FileStorage import FileStorage
    blob_dir = os.path.join(os.path.dirname(path), 'blobs') if opts.get('blob_dir') else None
    create = bool(opts.get('create')) and first and not read_only
    if opts.get('via') == 'config':
        import ZODB.config
        lines = ['<filestorage>', '  path %s' % path, '  read-only %s' % ('true' if read_only else 'false'),
                 '  create %s' % ('true' if create else 'false')]
        if opts.get('quota'):
            lines.append('  quota %d' % opts['quota'])
        if blob_dir:
            lines.append('  blob-dir %s' % blob_dir)
        return ZODB.config.storageFromString('\n'.join(lines + ['</filestorage>', '']))
    kw = {}
    if opts.get('quota'):
        kw['quota'] = opts['quota']
    if blob_dir:
        kw['blob_dir'] = blob_dir
    if create:
        kw['create'] = True
    if read_only:
        kw['read_only'] = True
    return FileStorage(path, **kw)


def run_history(hist, root, pack_after=None, keep_open=False, referencesf=None, existing=False,
                fsync_fault_at=None, live_reads=True, pack_probe=None):
    """Execute `hist` on a FileStorage at root/Data.fs under vfs recording (fresh, or `existing`: continue on
    what is there).  Returns RealRun with: init (directory image after the open), events (since then),
    committed (indices of the transactions that are in the file, in file order), outcome per transaction,
    final (Data.fs bytes), live_violations, …

    A transaction dict may carry
      'fault': {'at': j, 'errno': 'EIO'|'ENOSPC'}  the j-th raw operation (write/truncate/fsync on any file)
               issued by its tpc_vote + tpc_finish raises; the harness then aborts (or, when the failure path
               closed the storage, reopens it) and RETRIES the same transaction once, without fault;
      'rival': True  while it is between its stores and its vote a second thread calls tpc_begin for another
               transaction (which has to wait for the commit lock and is aborted afterwards)."""
    import errno
    import threading
    from ZODB.Connection import TransactionMetaData
    from ZODB.POSException import POSKeyError, UndoError, ConflictError, StorageError
    os.makedirs(root, exist_ok=True)
    rec = vfs.Recorder(root)
    rr = RealRun()
    rr.root = root
    rr.committed, rr.outcome, rr.issued = [], [], []
    rr.no_model = False
    rr.fault_notes = []
    opts = storage_options(hist)
    if opts:
        rr.no_model = bool(opts.get('create') or opts.get('quota'))
    path = os.path.join(root, 'Data.fs')
    with vfs.install(rec):
        try:
            fs = open_storage(path, opts, first=not existing)
        except Exception as e:
            rr.open_error = ename(e) + ' ' + str(e)[:200]
            raise
        rr.init = vfs.snapshot(root)
        n0 = len(rec.events)
        cur = {}          # oid -> tid of its last committed record
        last_data = {}    # oid -> (txn tid, data) of its last committed store/restore with data
        undoable = []     # tids of committed transactions with status ' '
        rr.fsync_fault = None
        rr.live_violations = []      # reads through the LIVE storage that did not show the committed state
        rr.reader_interleavings = 0
        state = {}                   # oid -> committed bytes | None (does not exist) | UNKNOWN
        bp_revs = []                 # (oid, tid) of committed back-pointer records (undo / restore with prev_txn)
        recency = []                 # oids, least recently committed first (~ ascending file position)

        def wrap_tfile():
            if live_reads and getattr(fs, '_tfile', None) is not None and not isinstance(fs._tfile, _TfileProxy):
                fs._tfile = _TfileProxy(fs._tfile)
        wrap_tfile()

        def live_check(when, oids):
            """load() through the read-file pool must show exactly the last COMMITTED revision"""
            for o in oids:
                want = state.get(o, UNKNOWN)
                if want is UNKNOWN:
                    continue
                try:
                    got = fs.load(o, '')
                    if want is None or got[0] != want or got[1] != cur.get(o):
                        rr.live_violations.append((when, 'load(%x) returned %d bytes serial %x, committed is %s' % (
                            u64(o), len(got[0]), u64(got[1]),
                            'no object' if want is None else '%d bytes serial %x' % (len(want), u64(cur.get(o, Z64))))))
                except POSKeyError:
                    if want is not None:
                        rr.live_violations.append((when, 'load(%x) raised POSKeyError, committed is %d bytes'
                                                   % (u64(o), len(want))))
                except Exception as e:
                    rr.live_violations.append((when, 'load(%x) raised %s' % (u64(o), ename(e))))

        def adopt_existing():
            for okey, opos in list(fs._index.items()):
                cur.setdefault(okey, fs._read_data_header(opos, okey).tid)
            it = fs.iterator()
            tids_ = [x.tid for x in it if x.status == ' ']
            it.close()
            return tids_
        if existing:
            # continue on a data file that already holds transactions (reopened after a crash)
            undoable = adopt_existing()

        def execute_ops(md, tid, t):
            """tpc_begin + the operations of t.  Returns (pending, pdata, failed, issued)"""
            fs.tpc_begin(md, tid=tid, status=t['status'])
            pending, pdata, failed, issued = {}, {}, False, []
            for op in t['ops']:
                oid = p64(op[1]) if op[0] != 'undo' else None
                try:
                    if op[0] == 'store':
                        data = spec_bytes(op[2])
                        fs.store(oid, cur.get(oid, Z64), data, '', md)
                        pending[oid] = tid
                        pdata[oid] = (tid, data)
                        issued.append(('data', op[1], data))
                    elif op[0] == 'delete':
                        if oid not in cur:
                            continue
                        fs.deleteObject(oid, cur[oid], md)
                        pending[oid] = tid
                        pdata.pop(oid, None)
                        issued.append(('del', op[1], None))
                    elif op[0] == 'restore':
                        data = None if op[2] is None else spec_bytes(op[2])
                        prev_txn = None
                        if op[3] and oid in last_data:
                            prev_txn, data = last_data[oid]
                        fs.restore(oid, tid, data, '', prev_txn, md)
                        pending[oid] = tid
                        if data is not None:
                            pdata[oid] = (tid, data)
                        else:
                            pdata.pop(oid, None)      # the transaction's last word on oid is "does not exist"
                        issued.append(('data' if data is not None else 'del', op[1], data))
                    elif op[0] == 'undo':
                        if len(undoable) < op[1]:
                            continue
                        target = undoable[-op[1]]
                        _, oids = fs.undo(base64.encodebytes(target).rstrip(b'\n'), md)
                        for o in oids:
                            pending[o] = tid
                            pdata.pop(o, None)
                            issued.append(('undo', u64(o), None))
                except (UndoError, POSKeyError, ConflictError, StorageError):
                    failed = True
                    break
            return pending, pdata, failed, issued

        def publish(k, t, tid, pending, pdata, issued, returned):
            """bookkeeping of a transaction that is in the file"""
            rr.committed.append(k)
            rr.issued.append(issued)
            cur.update(pending)
            for o in pending:
                if o in pdata:
                    last_data[o] = pdata[o]
                else:
                    last_data.pop(o, None)
            if t['status'] == ' ':
                undoable.append(tid)
            for kind_, o_, data_ in issued:
                o_ = p64(o_)
                state[o_] = data_ if kind_ == 'data' else (None if kind_ == 'del' else UNKNOWN)
            for op in t['ops']:
                if op[0] == 'undo':
                    bp_revs.extend((o_, tid) for o_ in pending if state.get(o_) is UNKNOWN)
                elif op[0] == 'restore' and op[3]:
                    o_ = p64(op[1])
                    if state.get(o_, UNKNOWN) not in (UNKNOWN, None):
                        bp_revs.append((o_, tid))
            for o_ in pending:
                if o_ in recency:
                    recency.remove(o_)
                recency.append(o_)

        for k, t in enumerate(hist):
            rec.mark('begin %d' % k)
            tid = p64(t['tid'])
            fault = t.get('fault') if t['kind'] == 'commit' else None
            attempts = 0
            while True:
                attempts += 1
                md = TransactionMetaData(spec_bytes(t['user']), spec_bytes(t['desc']), spec_bytes(t['ext']))
                pending, pdata, failed, issued = execute_ops(md, tid, t)
                kind = t['kind']
                rival = None
                if t.get('rival') and attempts == 1:
                    # another committer arrives while this one is between its stores and its vote
                    rr.no_model = rr.no_model
                    mdb = TransactionMetaData(b'', b'rival', b'')

                    def rival_body(mdb=mdb):
                        try:
                            fs.tpc_begin(mdb)
                            fs.tpc_abort(mdb)
                        except Exception:
                            pass
                    rival = threading.Thread(target=rival_body, daemon=True)
                    rival.start()
                    rival.join(0.1)             # unchanged code: waits for the commit lock, touches nothing
                    rec.mark('rival begun %d' % k)
                if failed or kind == 'abort_before':
                    fs.tpc_abort(md)
                    rec.mark('aborted %d' % k)
                    rr.outcome.append('abort_before' if not failed else 'op_failed')
                    if rival:
                        rival.join(5)
                    break
                readers = []
                if live_reads and bp_revs and rr.reader_interleavings < 2 and isinstance(fs._tfile, _TfileProxy) \
                        and not fault:
                    # a second thread asks for a back-pointer revision while this vote is between its writes
                    boid, btid = bp_revs[-1]

                    def sync(boid=boid, btid=btid):
                        def reader():
                            try:
                                fs.loadSerial(boid, btid)
                            except Exception:
                                pass
                        th = threading.Thread(target=reader, daemon=True)
                        th.start()
                        th.join(0.1)            # unchanged code: the reader waits for the storage lock
                        readers.append(th)
                    fs._tfile.__dict__['_hook'] = sync
                    rr.reader_interleavings += 1
                fired = []
                if fault and attempts == 1:
                    rr.no_model = True
                    code = getattr(errno, fault.get('errno', 'EIO'))
                    cnt = [0]

                    def hook(ev, code=code, j=fault['at'], partial=fault.get('partial')):
                        if ev[0] in ('write', 'trunc', 'fsync'):
                            cnt[0] += 1
                            if cnt[0] == j:
                                rec.on_event = None
                                fired.append(ev[:3])
                                if partial and ev[0] == 'write' and len(ev[3]) > 1:
                                    # a short write: half of the bytes reach the file, then the error
                                    part = ev[3][:max(1, len(ev[3]) // 2)]
                                    with open(os.path.join(root, ev[1]), 'r+b') as raw:
                                        raw.seek(ev[2])
                                        raw.write(part)
                                    rec.events.append(('write', ev[1], ev[2], part))
                                rec.events.append(('mark', 'fault in %d at raw op %d: %s %s' % (k, j, ev[0], ev[1])))
                                raise OSError(code, 'vfs injected fault')
                    rec.on_event = hook
                vote_error = finish_error = None
                try:
                    fs.tpc_vote(md)
                except OSError as e:
                    if not fired:
                        raise
                    vote_error = e
                if isinstance(getattr(fs, '_tfile', None), _TfileProxy):
                    fs._tfile.__dict__['_hook'] = None
                for th in readers:
                    th.join(5)
                if vote_error is not None:
                    rec.on_event = None
                    fs.tpc_abort(md)
                    rec.mark('aborted %d' % k)
                    if rival:
                        rival.join(5)
                    if fault.get('retry', True):
                        rr.fault_notes.append('txn %d: fault at %s raised by tpc_vote, aborted, retried' % (k, fired[0]))
                        continue                # retry the same transaction
                    rr.fault_notes.append('txn %d: fault at %s raised by tpc_vote, aborted, given up' % (k, fired[0]))
                    rr.outcome.append('fault_given_up')
                    break
                rec.mark('voted %d' % k)
                if live_reads:
                    # newest record first, then older ones: the pooled handle has to refill its read-ahead
                    # buffer (which then holds the voted bytes behind the committed end) whenever possible
                    live_check('while transaction %d is voted' % k, [o for o in reversed(recency) if o in cur][:5])
                if kind == 'abort_after':
                    rec.on_event = None
                    fs.tpc_abort(md)
                    rec.mark('aborted %d' % k)
                    rr.outcome.append('abort_after')
                    if rival:
                        rival.join(5)
                    break
                if fsync_fault_at == k:
                    # fault injection: the fsync of Data.fs issued by this tpc_finish raises EIO
                    def boom(ev):
                        if ev[0] == 'fsync' and ev[1] == 'Data.fs':
                            rec.on_event = None
                            rec.events.append(('mark', 'fsync failed %d' % k))
                            raise OSError(errno.EIO, 'vfs injected fsync failure')
                    rec.on_event = boom
                    try:
                        fs.tpc_finish(md)
                        rr.fsync_fault = 'returned' if rec.on_event is None else 'no-fsync-issued'
                        rec.mark('ret finish %d' % k)
                    except BaseException as e:
                        rr.fsync_fault = 'raised:' + type(e).__name__
                    rec.on_event = None
                    rr.outcome.append('fsync_fault')
                    break
                try:
                    fs.tpc_finish(md)
                except Exception as e:
                    if not fired:
                        raise
                    finish_error = e
                rec.on_event = None
                if rival:
                    rival.join(5)
                if finish_error is None:
                    if fired:
                        # a raw operation of this tpc_finish failed, yet it returned normally
                        rr.fault_notes.append('RETURNED-DESPITE-FAULT txn %d: %s failed with %s but tpc_finish returned'
                                              % (k, fired[0], fault.get('errno', 'EIO')))
                        rr.returned_despite_fault = (k, fired[0])
                    rec.mark('ret finish %d' % k)
                    rr.outcome.append('commit' if attempts == 1 else 'commit_after_retry')
                    publish(k, t, tid, pending, pdata, issued, True)
                    break
                # tpc_finish raised: its failure path closed the storage; go on with a reopened one
                rec.mark('finish failed %d' % k)
                try:
                    fs.close()
                except Exception:
                    pass
                fs = open_storage(path, opts)
                wrap_tfile()
                it = fs.iterator()
                present = tid in [x.tid for x in it]
                it.close()
                rr.fault_notes.append('txn %d: fault at %s raised by tpc_finish, storage reopened, transaction %s'
                                      % (k, fired[0], 'is in the file' if present else 'is not in the file: retried'))
                if present:
                    rr.outcome.append('in_file_not_returned')
                    publish(k, t, tid, pending, pdata, issued, False)
                    break
                if not fault.get('retry', True):
                    rr.outcome.append('fault_given_up')
                    break
                # not in the file: retry
            if live_reads and rr.outcome and rr.outcome[-1] != 'fsync_fault' and (k % 2 == 1 or k == len(hist) - 1):
                # (only after every other transaction, oldest record first: so that the first read after a
                # commit sometimes happens inside the next voted window, and the buffer ends up at the end)
                live_check('after transaction %d (%s)' % (k, rr.outcome[-1]), [o for o in recency if o in cur][-6:])
            if rr.outcome and rr.outcome[-1] == 'fsync_fault':
                break
            if t.get('save_index'):
                fs._save_index()
                rec.mark('saved index %d' % k)
        rr.events = rec.events[n0:]
        rr.pos = getattr(fs, '_pos', None)
        with open(path, 'rb') as f:
            rr.final = f.read()
        if fsync_fault_at is not None:
            try:
                fs.close()
            except Exception:
                pass
            rr.all_events = rec.events[n0:]
            return rr
        rr.packed = None
        if pack_after is not None:
            rr.pre_pack_events = len(rr.events)
            import time as _time
            if pack_probe is not None:
                # call the probe before every whole-file operation of the pack (and once after it)
                def phook(ev):
                    if ev[0] in ('create', 'rename', 'link', 'remove'):
                        rec.on_event = None
                        try:
                            pack_probe(rec, ev)
                        finally:
                            rec.on_event = phook
                rec.on_event = phook
            if isinstance(pack_after, dict):
                # pack to a time BETWEEN transaction `after` and the next one (tids must be well apart)
                from ZODB.TimeStamp import TimeStamp
                a = hist[pack_after['after']]['tid']
                b = hist[pack_after['after'] + 1]['tid'] if pack_after['after'] + 1 < len(hist) else a + 0x2000000
                fs.pack(TimeStamp(p64((a + b) // 2)).timeTime(), referencesf, gc=pack_after.get('gc', False))
            else:
                fs.pack(_time.time(), referencesf, gc=pack_after)
            rec.on_event = None
            if pack_probe is not None:
                pack_probe(rec, ('done',))
            rr.events = rec.events[n0:]
            with open(path, 'rb') as f:
                rr.packed = f.read()
        if keep_open:
            rr.fs = fs
            rr.rec = rec
        else:
            fs.close()
    rr.all_events = rec.events[n0:]
    return rr


# ---------------------------------------------------------------- pure-Python format parser
class ParseError(Exception):
    pass


def parse_file(b, magic=b'FS30'):
    """Independent parser of a CLEAN data file: list of dicts
    {pos, tid, status, user, desc, ext, tlen, end, recs:[{pos, oid, tid, prev, tloc, plen, data, back}]}.
    Raises ParseError on anything that is not a well-formed sequence of finished transactions."""
    if b[:4] != magic:
        raise ParseError('magic')
    pos, out = 4, []
    while pos < len(b):
        if pos + 23 > len(b):
            raise ParseError('short header at %d' % pos)
        tid, tl, st, ul, dl, el = struct.unpack('>8sQcHHH', b[pos:pos + 23])
        if st not in (b' ', b'p'):
            raise ParseError('status %r at %d' % (st, pos))
        if pos + tl + 8 > len(b):
            raise ParseError('overrun at %d' % pos)
        if tl < 23 + ul + dl + el:
            raise ParseError('tl < header at %d' % pos)
        if u64(b[pos + tl:pos + tl + 8]) != tl:
            raise ParseError('trailer at %d' % pos)
        q = pos + 23
        t = dict(pos=pos, tid=u64(tid), status=st.decode(), user=b[q:q + ul],
                 desc=b[q + ul:q + ul + dl], ext=b[q + ul + dl:q + ul + dl + el], tlen=tl,
                 end=pos + tl + 8, recs=[])
        q += ul + dl + el
        while q < pos + tl:
            if q + 42 > pos + tl:
                raise ParseError('short record at %d' % q)
            oid, rtid, prev, tloc, vlen, plen = struct.unpack('>8s8sQQHQ', b[q:q + 42])
            if vlen or tloc != pos:
                raise ParseError('record header at %d' % q)
            r = dict(pos=q, oid=u64(oid), tid=u64(rtid), prev=prev, tloc=tloc, plen=plen)
            if plen:
                r['data'], r['back'] = b[q + 42:q + 42 + plen], None
                q += 42 + plen
            else:
                r['data'], r['back'] = None, u64(b[q + 42:q + 50])
                q += 50
            if q > pos + tl:
                raise ParseError('record overrun at %d' % r['pos'])
            t['recs'].append(r)
        out.append(t)
        pos = t['end']
    return out


def parse_vote_bytes(b, pos):
    """the bytes of one complete vote write (status 'c') -> transaction dict as in parse_file"""
    tid, tl, st, ul, dl, el = struct.unpack('>8sQcHHH', b[:23])
    q = 23
    t = dict(pos=pos, tid=u64(tid), status=st.decode(), user=b[q:q + ul], desc=b[q + ul:q + ul + dl],
             ext=b[q + ul + dl:q + ul + dl + el], tlen=tl, end=pos + tl + 8, recs=[])
    q += ul + dl + el
    while q < tl:
        oid, rtid, prev, tloc, vlen, plen = struct.unpack('>8s8sQQHQ', b[q:q + 42])
        r = dict(pos=pos + q, oid=u64(oid), tid=u64(rtid), prev=prev, tloc=tloc, plen=plen)
        if plen:
            r['data'], r['back'] = b[q + 42:q + 42 + plen], None
            q += 42 + plen
        else:
            r['data'], r['back'] = None, u64(b[q + 42:q + 50])
            q += 50
        t['recs'].append(r)
    return t


def resolve_data(txns):
    """offset -> data after following back pointers (None: object does not exist)"""
    by_pos = {r['pos']: r for t in txns for r in t['recs']}

    def res(r, depth=0):
        if r['data'] is not None:
            return r['data']
        if not r['back'] or depth > 10000 or r['back'] not in by_pos:
            return None
        return res(by_pos[r['back']], depth + 1)
    return {p: res(r) for p, r in by_pos.items()}


# ---------------------------------------------------------------- dumps of a real storage
def ename(e):
    return 'err:' + type(e).__name__


def _dg(b):
    """fast digest of record data for dumps (fnv64 in pure Python is for model comparison only)"""
    import hashlib
    return hashlib.blake2b(bytes(b), digest_size=8).hexdigest()


def dump_storage(fs, oids, tids):
    """ALL queries: iterator with records, load / loadBefore at every tid boundary / loadSerial /
    history for every oid, lastTransaction, _pos, len, max oid.  JSON-able, canonical."""
    d = {}
    try:
        it = fs.iterator()
        txs = []
        for t in it:
            recs = []
            for r in t:
                recs.append([u64(r.oid), u64(r.tid), None if r.data is None else (r.data.hex() if len(r.data) <= 256
                                                                                  else 'len %d %s' % (len(r.data), _dg(r.data)))])
            txs.append([u64(t.tid), t.status, bytes(t.user).hex(), bytes(t.description).hex(),
                        bytes(t.extension_bytes).hex(), recs])
        it.close()
        d['iterator'] = txs
    except Exception as e:
        d['iterator'] = ename(e)
    bounds = sorted(set([1] + [x for t in tids for x in (t, t + 1)])) + [u64(MAXTID)]
    for o in oids:
        oid = p64(o)
        key = '%016x' % o
        try:
            data, serial = fs.load(oid, '')
            d['load ' + key] = [data.hex() if len(data) <= 256 else 'len %d %s' % (len(data), _dg(data)), u64(serial)]
        except Exception as e:
            d['load ' + key] = ename(e)
        lb = []
        for b in bounds:
            try:
                r = fs.loadBefore(oid, p64(b))
                lb.append(None if r is None else [_dg(r[0]), u64(r[1]), None if r[2] is None else u64(r[2])])
            except Exception as e:
                lb.append(ename(e))
        d['loadBefore ' + key] = lb
        ls = []
        for t in tids:
            try:
                ls.append(_dg(fs.loadSerial(oid, p64(t))))
            except Exception as e:
                ls.append(ename(e))
        d['loadSerial ' + key] = ls
        try:
            h = fs.history(oid, size=100)
            d['history ' + key] = [[u64(x['tid']), x['size'], bytes(x['description']).hex()] for x in h]
        except Exception as e:
            d['history ' + key] = ename(e)
    # iterator(start) at every tid boundary, undoLog, current-record iteration
    its = []
    for t in tids:
        try:
            it = fs.iterator(p64(t))
            its.append([u64(x.tid) for x in it])
            it.close()
        except Exception as e:
            its.append(ename(e))
    d['iterator_start'] = its
    try:
        d['undoLog'] = [[base64.decodebytes(x['id'] + b'\n').hex(), bytes(x['description']).hex()]
                        for x in fs.undoLog(0, -1000)]
    except Exception as e:
        d['undoLog'] = ename(e)
    try:
        cur, nxt, n = [], None, 0
        while n < 1000:
            oid, tid, data, nxt = fs.record_iternext(nxt)
            cur.append([u64(oid), u64(tid), _dg(data)])
            n += 1
            if nxt is None:
                break
        d['record_iternext'] = cur
    except Exception as e:
        d['record_iternext'] = ename(e)
    d['lastTransaction'] = u64(fs.lastTransaction())
    d['pos'] = fs._pos
    d['len'] = len(fs)
    d['maxoid'] = u64(fs._oid)
    return d


# the exception that surfaces depends on what the bytes of the torn tail happen to decode to when
# _skip_to_start takes them for a transaction header / redundant length (status byte → UnicodeDecodeError,
# short read → struct.error, wild position → OverflowError / OSError from seek)
ITER_START_ERRORS = ('err:CorruptedError', 'err:CorruptedDataError', 'err:ValueError', 'err:UnicodeDecodeError',
                     'err:error', 'err:OverflowError', 'err:OSError')


def classify_iterator_start(got, want, tids):
    """The recorded open finding …:ro-iterator-start-(raises|wrong)-on-torn-tail and nothing but it.
    `got`/`want`: full dumps of a READ-ONLY open of a file with an unfinished tail and of the committed
    prefix; all keys but iterator_start must already be equal (checked by the caller).  Every differing
    entry of iterator_start must be either (raises) an exception of the three kinds, or (wrong) for a start
    BEYOND the last committed tid — where nothing is expected — a list holding a tid that is not in the
    committed prefix (positioned inside the torn tail) or exactly the last committed transaction.
    Returns None (not this class) | 'raises' | 'wrong'."""
    g, w = got.get('iterator_start'), want.get('iterator_start')
    if not (isinstance(g, list) and isinstance(w, list) and len(g) == len(w) == len(tids)) or g == w:
        return None
    it = want.get('iterator')
    if not isinstance(it, list):
        return None
    committed = [t[0] for t in it]
    last = committed[-1] if committed else 0
    kind = 'raises'
    for x, y, start in zip(g, w, tids):
        if x == y:
            continue
        if x in ITER_START_ERRORS:
            continue
        if y == [] and start > last and isinstance(x, list) and x and \
                (any(t not in committed for t in x) or x == [last]):
            kind = 'wrong'
            continue
        return None
    return kind


def canon(d):
    return json.dumps(d, sort_keys=True)


def open_and_dump(dirpath, oids, tids, read_only=False):
    """open dirpath/Data.fs with the real FileStorage, dump, close.  Returns (dump | None, error)"""
    from ZODB.FileStorage import FileStorage
    try:
        fs = FileStorage(os.path.join(dirpath, 'Data.fs'), read_only=read_only)
    except Exception as e:
        return None, ename(e) + ' ' + str(e)[:200]
    try:
        d = dump_storage(fs, oids, tids)
        d['used_index'] = getattr(fs, '_used_index', None)
        return d, None
    finally:
        try:
            fs.close()
        except Exception:
            pass


def write_dir(dirpath, files):
    if os.path.exists(dirpath):
        for n in os.listdir(dirpath):
            p = os.path.join(dirpath, n)
            if os.path.isdir(p):
                import shutil
                shutil.rmtree(p)
            else:
                os.remove(p)
    else:
        os.makedirs(dirpath)
    for n, b in files.items():
        if b is None:                       # a directory of that name
            os.makedirs(os.path.join(dirpath, n), exist_ok=True)
            continue
        with open(os.path.join(dirpath, n), 'wb') as f:
            f.write(b)


def read_dir(dirpath):
    out = {}
    for n in sorted(os.listdir(dirpath)):
        p = os.path.join(dirpath, n)
        if os.path.isfile(p):
            with open(p, 'rb') as f:
                out[n] = f.read()
    return out


# ---------------------------------------------------------------- canonical trace / model lines
def canonical_trace(events):
    """Data.fs events with adjacent sequential writes merged; 'ret' for each 'ret finish' mark.
    Returns list of tuples and, per raw event index, (canonical index, byte offset inside it)."""
    can, where = [], {}
    last_was_write = False
    for i, e in enumerate(events):
        if e[0] == 'write' and e[1] == 'Data.fs':
            if last_was_write and can[-1][1] + len(can[-1][2]) == e[2]:
                where[i] = (len(can) - 1, len(can[-1][2]))
                can[-1] = ('w', can[-1][1], can[-1][2] + e[3])
            else:
                where[i] = (len(can), 0)
                can.append(('w', e[2], e[3]))
            last_was_write = True
        elif e[0] == 'trunc' and e[1] == 'Data.fs':
            where[i] = (len(can), 0)
            can.append(('t', e[2]))
            last_was_write = False
        elif e[0] == 'fsync' and e[1] == 'Data.fs':
            where[i] = (len(can), 0)
            can.append(('fsync',))
            last_was_write = False
        elif e[0] == 'mark' and e[1].startswith('ret finish'):
            where[i] = (len(can), 0)
            can.append(('ret',))
            last_was_write = False
        elif e[0] == 'mark' and e[1].startswith('fsync failed'):
            where[i] = (len(can), 0)
            can.append(('fsync-failed',))
            last_was_write = False
        elif e[0] in ('create', 'rename', 'remove') and 'Data.fs' in (e[1:3]):
            where[i] = (len(can), 0)
            can.append(('other',) + tuple(e))
            last_was_write = False
        else:
            where[i] = (len(can), 0)       # does not touch Data.fs: same canonical position
            # marks and side-file events do not interrupt a sequence of chunks of one logical write
    return can, where


def trace_str(can):
    out = []
    for e in can:
        if e[0] == 'w':
            out.append('w@%d+%d#%s' % (e[1], len(e[2]), fnv64(e[2])))
        elif e[0] == 't':
            out.append('t@%d' % e[1])
        else:
            out.append(e[0])
    return ' '.join(out)


def txn_lines(t):
    """driver lines describing a parsed transaction (begin + records)"""
    lines = ['begin %016x %d %s %s %s' % (t['tid'], ord(t['status']) if t['status'] != 'c' else 32,
                                          bytes_tok(t['user']), bytes_tok(t['desc']), bytes_tok(t['ext']))]
    for r in t['recs']:
        if r['data'] is not None:
            lines.append('recd %016x %016x %d %s' % (r['oid'], r['tid'], r['prev'], bytes_tok(r['data'])))
        else:
            lines.append('recb %016x %016x %d %d' % (r['oid'], r['tid'], r['prev'], r['back']))
    return lines


def model_lines_for_run(hist, rr):
    """Translate the real run into driver ops.  Each vote write found in the canonical trace is parsed
    (pure Python) into a transaction description; the model has to regenerate the same bytes, offsets
    and event order from the description.  Returns (lines, checks) where checks maps a line index to
    the expected observation string ([I]: image length + hash after the op)."""
    can, _ = canonical_trace(rr.events)
    lines, checks = ['reset'], {}
    img = bytearray(rr.init['Data.fs'])
    i = 0
    while i < len(can):
        e = can[i]
        if e[0] == 'w' and i + 1 < len(can) and can[i + 1][0] == 'w' and can[i + 1][1] == e[1] + 16 \
                and len(can[i + 1][2]) == 1:
            # vote write followed by the status-byte write: a commit (then fsync, ret)
            t = parse_vote_bytes(e[2], e[1])
            t['status'] = can[i + 1][2].decode('latin1')
            lines += txn_lines(t)
            img[e[1]:e[1] + len(e[2])] = e[2]
            img[e[1] + 16:e[1] + 17] = can[i + 1][2]
            j = i + 2
            if j < len(can) and can[j][0] == 'fsync-failed':
                lines.append('fsyncfail')       # tpc_finish whose fsync raised: no ret
                j += 1
            else:
                lines.append('commit')
            while j < len(can) and can[j][0] in ('fsync', 'ret'):
                j += 1
            checks[len(lines) - 1] = 'ok pos=%d len=%d fnv=%s' % (e[1] + len(e[2]), len(img), fnv64(bytes(img)))
            i = j
        elif e[0] == 'w' and i + 1 < len(can) and can[i + 1][0] == 't' and can[i + 1][1] == e[1]:
            t = parse_vote_bytes(e[2], e[1])
            t['status'] = ' '
            lines += txn_lines(t)
            lines.append('abortvote')
            checks[len(lines) - 1] = 'ok pos=%d len=%d fnv=%s' % (e[1], len(img), fnv64(bytes(img)))
            i += 2
        else:
            # an event shape the model does not generate: leave it to the trace comparison
            i += 1
    lines.append('events')
    checks[len(lines) - 1] = trace_str([e for e in can])
    return lines, checks, can
