"""Single source for MANIFEST.json (python3 harness/registry.py writes it)."""
import json
import os

VERIF = os.path.dirname(os.path.dirname(os.path.abspath(__file__)))

LEVEL_NOTE = ("Trusted: Lean 4.33 kernel; axioms propext/Classical.choice/Quot.sound only (audited each run); "
              "the hand-written model is tied to /repo by this check's seeded differential run "
              "(real code vs model driver vs independent Python oracle) and by constants translated from the "
              "source (Props/Tie.lean). ")

def load_claimed():
    """one JSON fragment per claimed property in harness/registry.d/Cxx.json with keys
    text, note, technique, design (and optionally category, default "proof")"""
    d = os.path.join(VERIF, 'harness', 'registry.d')
    out = {}
    for f in sorted(os.listdir(d)):
        if f.endswith('.json'):
            with open(os.path.join(d, f)) as fh:
                out[f[:-5]] = json.load(fh)
    return out


CLAIMED = load_claimed()

NOT_APPLICABLE = {}

PENDING_REASON = ("check not built yet in this round: the Lean model and correspondence harness for this property "
                  "are planned in DESIGN.md section 4 and will be claimed once they run clean on the unchanged tree")


def manifest():
    ids = ['C%02d' % i for i in range(1, 21)]
    checks = []
    for pid in ids:
        if pid in CLAIMED:
            c = CLAIMED[pid]
            checks.append(dict(
                property_id=pid,
                quick_cmd='./check %s --tier quick' % pid,
                thorough_cmd='./check %s --tier thorough' % pid,
                evidence_file='evidence/%s.json' % pid,
                replay_cmd_template='./check %s --replay {path}' % pid,
                engine='lean4+correspondence',
                level_claimed=dict(category=c.get('category', 'proof'), text=c['text'],
                                   design_ref='DESIGN.md ' + c['design']),
                level_note=LEVEL_NOTE + c['note'],
                technique=c['technique']))
    na = [dict(property_id=p, reason=NOT_APPLICABLE.get(p, PENDING_REASON))
          for p in ids if p not in CLAIMED]
    return dict(
        version=1,
        setup_cmd='./setup.sh',
        hooks=dict(guard='ZODB_VERIF',
                   enable='no source hooks: the harness rebinds names (open/fsync/locks/time) in-process only '
                          'when ZODB_VERIF=1 is set by ./check; /repo is imported from its working tree via PYTHONPATH',
                   baseline_off_cmd='cd /repo && env -u ZODB_VERIF /venv/bin/python -m pytest -ra -q -p no:cacheprovider --timeout=900',
                   source_commits=[], add_only=True),
        engines=[dict(name='lean4+correspondence', path='lean/ harness/',
                      serves_properties=sorted(CLAIMED),
                      kind_free_text='Lean 4 models + theorems (lake build, axiom audit) tied to the code by a '
                                     'seeded differential correspondence check against the real ZODB code')],
        checks=checks,
        notes='Every check: ./check Cxx --tier quick|thorough; exit 0 ok, 1 VIOLATION, 2 infrastructure error. '
              'Genuine defects repaired by fix: commits in /repo or listed in known_findings.json.',
        not_applicable=na)


if __name__ == '__main__':
    with open(os.path.join(VERIF, 'MANIFEST.json'), 'w') as f:
        json.dump(manifest(), f, indent=1)
    print('wrote MANIFEST.json with', len(CLAIMED), 'claimed checks')
