"""C12, byte level of the savepoint store: the real class ZODB.Connection.TmpStore against the Lean model
ZodbModel/TmpBytes.lean (driver Drivers/TmpBytes.lean) and against a direct oracle.

A program is a list of
    store <oidhex> <serialhex|-> <datahex|->   TmpStore.store(oid, serial|None, data, '', None)
    load <oidhex>                              TmpStore.load(oid)
    save                                       state = (position, index.copy(), creating.copy())   [Connection.savepoint]
    rollback <k>                               TmpStore.reset(*state_k); savepoints after k are dropped  [_rollback_savepoint]
    file                                       the bytes of the temporary file
run on ONE TmpStore over a stub storage (its load() is the fall-through).  Observations are compared line by
line with the model's; independently the oracle — a dict oid -> (data, serial) with a stack of copies, the
statement "a rollback shows every record exactly as it was at the savepoint" — judges the loads of the real
class.  A load the oracle rejects is a violation of C12 (signature C12:tmpstore:load); a line that differs from
the model's while the oracle is satisfied is a model/implementation mismatch.
"""
import struct

FALL = (b'<fall-through>', b'\xff' * 8)


class Stub:
    """what TmpStore.__init__ takes from the real storage"""

    def getName(self):
        return 'stub'

    def new_oid(self):
        raise AssertionError('not used')

    def sortKey(self):
        return 'stub'

    def isReadOnly(self):
        return False

    def load(self, oid, version=''):
        return FALL

    def temporaryDirectory(self):
        import tempfile
        return tempfile.gettempdir()


def hx(b):
    return b.hex() if b else '-'


def gen(rng, thorough=False):
    """mostly 8-byte oids from a small pool (so that oids are written by several savepoints), now and then an
    oid of another length; data of 0..40 bytes, sometimes a few hundred or > 64 KiB; serial None or 8 bytes"""
    pool = [struct.pack('>Q', rng.choice([0, 1, 2, 3, 255, 256, 2 ** 32, 2 ** 64 - 1, rng.randrange(2 ** 64)]))
            for _ in range(rng.choice([2, 3, 4, 6]))]
    if rng.random() < 0.15:
        pool.append(bytes(rng.randrange(256) for _ in range(rng.choice([1, 2, 7, 9, 12]))))
    ops, nsp = [], 0
    for _ in range(rng.choice([6, 10, 16, 24, 40])):
        r = rng.random()
        if r < 0.40:
            ln = rng.choice([0, 0, 1, 2, 5, 8, 16, 33, 40, 40, rng.randrange(300),
                             (70000 if thorough and rng.random() < 0.1 else 255)])
            ch = rng.random()
            if ch < 0.3:
                data = bytes(ln)                                       # zeros: looks like headers
            elif ch < 0.45 and ln >= 8:
                data = (rng.choice(pool) * (ln // 8 + 1))[:ln]        # oids inside the payload
            else:
                data = bytes(rng.randrange(256) for _ in range(ln))
            serial = None if rng.random() < 0.4 else struct.pack('>Q', rng.choice([0, 1, 5, rng.randrange(2 ** 64)]))
            ops.append('store %s %s %s' % (rng.choice(pool).hex(), serial.hex() if serial is not None else '-', hx(data)))
        elif r < 0.65:
            ops.append('load %s' % rng.choice(pool).hex())
        elif r < 0.80:
            ops.append('save')
            nsp += 1
        elif r < 0.95:
            if nsp:
                k = rng.randrange(nsp)
                ops.append('rollback %d' % k)
                nsp = k + 1
            else:
                ops.append('rollback 0')        # no such savepoint: refused by the harness on both sides
            # reading right after a rollback is where a stale record would show
            for o in rng.sample(pool, min(len(pool), rng.choice([1, 2, 3]))):
                ops.append('load %s' % o.hex())
        else:
            ops.append('file')
    ops += ['load %s' % o.hex() for o in pool] + ['file']
    return ops


def run_real(ops):
    """-> (observation lines, oracle complaints [(index, text)])"""
    from ZODB.Connection import TmpStore
    from ZODB.POSException import StorageSystemError
    ts = TmpStore(Stub())
    states = []
    spec, spec_sps = {}, []
    out, bad = ['ok'], []
    try:
        for idx, op in enumerate(ops, 1):
            t = op.split()
            if t[0] == 'store':
                oid = bytes.fromhex(t[1])
                serial = None if t[2] == '-' else bytes.fromhex(t[2])
                data = b'' if t[3] == '-' else bytes.fromhex(t[3])
                s = ts.store(oid, serial, data, '', None)
                spec[oid] = (data, s)
                if s != (serial if serial is not None else b'\0' * 8):
                    bad.append((idx, 'store returned serial %r for %r' % (s, serial)))
                out.append('%s %d' % (s.hex(), ts.position))
            elif t[0] == 'load':
                oid = bytes.fromhex(t[1])
                try:
                    r = ts.load(oid)
                except StorageSystemError:
                    r, line = 'bad', 'bad'
                except (struct.error, ValueError):      # (ZODB.utils.u64 re-raises struct.error as ValueError)
                    r, line = 'short', 'short'
                except (Exception, MemoryError) as e:   # (a size field read from the wrong place)
                    r = line = 'err:' + type(e).__name__
                else:
                    line = 'fallback' if r == FALL else 'found %s %s' % (hx(r[0]), r[1].hex())
                want = spec.get(oid, FALL)
                if r != want:
                    bad.append((idx, 'load(%s) gave %s, the records stored since the state rolled back to say %s' % (
                        t[1], line, 'fall-through' if want == FALL else 'found %s %s' % (hx(want[0]), want[1].hex()))))
                out.append(line)
            elif t[0] == 'save':
                states.append((ts.position, ts.index.copy(), ts.creating.copy()))
                spec_sps.append(dict(spec))
                out.append('ok %d' % (len(states) - 1))
            elif t[0] == 'rollback':
                k = int(t[1])
                if k < len(states):
                    ts.reset(*states[k])
                    del states[k + 1:]
                    spec = dict(spec_sps[k])
                    del spec_sps[k + 1:]
                    out.append('ok %d' % ts.position)
                else:
                    out.append('invalid')
            elif t[0] == 'file':
                ts._file.seek(0)
                out.append(hx(ts._file.read()))
            else:
                out.append('bad-op')
    finally:
        ts.close()
    return out, bad


def run(ck, run_driver, ddmin):
    n = 150 if not ck.thorough else 2500
    progs = [gen(ck.rng, ck.thorough) for _ in range(n)]
    lines = []
    for p in progs:
        lines += ['new'] + p
    model = run_driver('TmpBytes', lines, timeout=900)
    pos = 0
    for p in progs:
        m = model[pos:pos + len(p) + 1]
        pos += len(p) + 1
        real, bad = run_real(p)
        nrb = sum(1 for o in p if o.startswith('rollback'))
        ck.count('oracle+model:tmpstore-bytes')
        for o in p:
            ck.count('tmpstore-op:' + o.split()[0])
        ck.case(dict(tmpstore=p), nrb >= 2 and any(o == 'save' for o in p))
        if bad:
            idx, what = bad[0]

            def fails(sub):
                return bool(run_real(sub)[1])
            small = ddmin(p[:idx], fails, max_tests=200)
            r2, b2 = run_real(small)
            if not b2:
                small, r2, b2 = p[:idx], real[:idx + 1], bad
            ck.violation('C12:tmpstore:load', 'TmpStore (savepoint store, byte level): ' + b2[0][1],
                         dict(family='tmpstore-bytes', ops=small, real=r2))
            continue
        for k in range(len(real)):
            if real[k] != m[k]:
                ck.mismatch('TmpStore byte model/impl differ at op #%d %r: impl %r model %r' % (
                    k, (['new'] + p)[k], real[k][:200], m[k][:200]),
                    dict(family='tmpstore-bytes', ops=p[:k], real=real[:k + 1], model=m[:k + 1]))
                break
