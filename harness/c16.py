"""C16 — A demo storage never modifies its base and reads as changes-over-base.

Correspondence: seeded base histories (MappingStorage / FileStorage / FileStorage+blob_dir) and
histories applied through DemoStorage stacks (changes: mapping / file / blob / implicit temporary),
explicit tids at the storage level, executed on the real code and on the Lean model
(Drivers/Demo.lean).  Direct oracle (independent of the model): ONE logical database = the merged
list of transactions; every demo query is answered from it, and the lower storage is dumped
(iterator, loads, file bytes, blob files) before/after every call made through the demo storage.
`random.randint` is scripted in ZODB.DemoStorage's namespace so new_oid draws are inputs.

Further real-code sections (oracle only): blob files through blob-capable layers; overlapping commits
(a gate on the demo storage's commit lock lets a second committer finish a whole commit while the first one
waits inside tpc_begin, plus two committer threads under harness/sched.py): commit tids strictly increase
in commit order, lastTransaction() is the last commit, the stack reads as the merged history
(C16:commit-tid-order; the model's `begin` chooses the tid under the commit lock, Props.C16
.reachable_tid_ordered); close(): a pushed layer discarded by close()/DB.close() leaves everything below
open, answering identically and able to commit, and close_base_on_close / close_changes_on_close
(None/True/False x given/implicit) close exactly what the documentation says (C16:close).

Excluded points (hypotheses of the Lean theorems that the code does not enforce) are run as
separate probes on the real code; each yields exactly one signature:
  C16:demo-tid-below-base (repaired in /repo: regression probe), C16:undo-over-base-loadbefore,
  C16:undo-over-base-unwritable, C16:new-oid-uncreated-reissued; the gc pack of implicit changes over a
  non-empty base is not modelled and only probed for lost data (C16:pack-temporary-changes-loses-data).
"""
import base64
import hashlib
import json
import logging
import os
import shutil
import sys

sys.path.insert(0, os.path.dirname(os.path.abspath(__file__)))
from common import Check, InfraError, run_driver, ddmin  # noqa: E402

logging.disable(logging.CRITICAL)

from ZODB.Connection import TransactionMetaData  # noqa: E402
from ZODB.DemoStorage import DemoStorage  # noqa: E402
from ZODB.FileStorage import FileStorage  # noqa: E402
from ZODB.MappingStorage import MappingStorage  # noqa: E402
from ZODB import POSException  # noqa: E402
from ZODB.serialize import referencesf  # noqa: E402
from ZODB.tests.MinPO import MinPO  # noqa: E402
from ZODB.tests.StorageTestBase import zodb_pickle, zodb_unpickle  # noqa: E402
from ZODB.TimeStamp import TimeStamp  # noqa: E402
from ZODB.utils import p64, u64, z64, maxtid  # noqa: E402

DEMO_MODULE = sys.modules['ZODB.DemoStorage']


# ---------------------------------------------------------------- scripted draws for new_oid
class OutOfDraws(Exception):
    pass


class FakeRandom:
    """stands in for the `random` module inside ZODB.DemoStorage: draws are an input stream"""

    def __init__(self):
        self.queue = []
        self.used = 0
        self.strict = False
        self.fallback = 9 * 10 ** 8

    def randint(self, a, b):
        if not self.queue:
            if self.strict:
                raise OutOfDraws()
            self.fallback += 1000
            return self.fallback
        self.used += 1
        return self.queue.pop(0)


FAKE = FakeRandom()


def install_fake():
    DEMO_MODULE.random = FAKE


# ---------------------------------------------------------------- abstract <-> real tids/oids/data
V0 = u64(TimeStamp(2020, 1, 1, 0, 0, 0.0).raw()) >> 32
HALF = 1 << 31
MAXT = u64(maxtid)


UNIT = 1000           # abstract tids: 1000*k = minute k; +-d = d raw units around it; +500 = half a minute later


def real_tid(n):
    """abstract tid -> 8 bytes (0..4 are the raw values: 0 = z64)"""
    if n == 'max':
        return maxtid
    n = int(n)
    if n < 5:
        return p64(n)
    k, d = divmod(n, UNIT)
    if d == UNIT // 2:
        return p64(((V0 + k) << 32) + HALF)
    if d > UNIT // 2:
        k, d = k + 1, d - UNIT
    return p64(((V0 + k) << 32) + d)


def abs_tid(b):
    if b is None:
        return None
    v = u64(b)
    if v == MAXT:
        return 'max'
    if v < 5:
        return v
    k, low = (v >> 32) - V0, v & 0xffffffff
    if low == HALF:
        return UNIT * k + UNIT // 2
    if low < HALF:
        if low >= UNIT // 2:
            raise InfraError('tid outside the abstract grid: %r' % (b,))
        return UNIT * k + low
    if (1 << 32) - low >= UNIT // 2:
        raise InfraError('tid outside the abstract grid: %r' % (b,))
    return UNIT * (k + 1) - ((1 << 32) - low)


def clock_time(n):
    """float time at which the clock reads the abstract tid n = 1000*k"""
    return TimeStamp(real_tid(n)).timeTime()


def pack_time(n):
    """float time whose TimeStamp is the abstract stop 1000*k+500"""
    import time
    k = int(n) // UNIT
    t = TimeStamp(p64((V0 + k) << 32)).timeTime() + 30.0
    stop = TimeStamp(*time.gmtime(t)[:5] + (t % 60,)).raw()
    if abs_tid(stop) != int(n):
        raise InfraError('pack time conversion failed for %r: %r' % (n, abs_tid(stop)))
    return t


_pickles = {}


def pickle_of(d):
    d = int(d)
    if d not in _pickles:
        _pickles[d] = zodb_pickle(MinPO(d))
    return _pickles[d]


def data_id(data):
    if data is None:
        return None
    return zodb_unpickle(data).value


def tstr(t):
    return '-' if t is None else str(t)


def errname(e):
    if isinstance(e, POSException.POSKeyError):
        return 'err:KeyError'
    if isinstance(e, POSException.ReadConflictError):
        return 'err:ReadConflict'
    if isinstance(e, POSException.ConflictError):
        return 'err:Conflict'
    if isinstance(e, POSException.UndoError):
        return 'err:Undo'
    if isinstance(e, POSException.StorageTransactionError):
        return 'err:Txn'
    if isinstance(e, (AttributeError, TypeError)):
        return 'err:Unsupported'
    return 'err:Other(%s)' % type(e).__name__


# ---------------------------------------------------------------- real code
def files_of(st):
    if isinstance(st, DemoStorage):
        return files_of(st.base) + files_of(st.changes)
    fn = getattr(st, '_file_name', None)       # (HexStorage delegates attribute access to what it wraps)
    return [fn] if fn else []


def blobdirs_of(st):
    if isinstance(st, DemoStorage):
        return blobdirs_of(st.base) + blobdirs_of(st.changes)
    bd = getattr(st, 'blob_dir', None)
    return [bd] if bd else []


def dump(st, full=True):
    """everything observable of a storage (and, for files, its bytes): used before/after"""
    out = []
    oids = set()
    for t in st.iterator():
        recs = sorted((r.oid, r.data) for r in t)
        oids.update(o for o, _ in recs)
        out.append(('txn', t.tid, t.status, recs))
    out.append(('last', st.lastTransaction()))
    if full:
        for oid in sorted(oids):
            try:
                out.append(('load', oid, st.load(oid)))
            except POSException.POSKeyError:
                out.append(('load', oid, 'KeyError'))
            try:
                out.append(('hist', oid, [h['tid'] for h in st.history(oid, 99)]))
            except POSException.POSKeyError:
                out.append(('hist', oid, 'KeyError'))
    for fn in files_of(st):
        with open(fn, 'rb') as f:
            out.append(('file', os.path.basename(fn), hashlib.sha1(f.read()).hexdigest()))
    for bd in blobdirs_of(st):
        listing = []
        for root, _, files in os.walk(bd):
            for f in sorted(files):
                if f.endswith('.blob'):
                    p = os.path.join(root, f)
                    with open(p, 'rb') as fh:
                        listing.append((os.path.relpath(p, bd), hashlib.sha1(fh.read()).hexdigest()))
        out.append(('blobs', sorted(listing)))
    return hashlib.sha1(repr(out).encode()).hexdigest()


class Real:
    """interprets protocol ops on real storages"""

    def __init__(self, tmpdir):
        self.dir = tmpdir
        self.n = 0
        self.stack = []         # storages, bottom first
        self.snap = []          # dump of stack[i] taken when stack[i+1] was put on top of it
        self.txns = {}
        self.all = []

    def make(self, kind):
        self.n += 1
        if kind == 'mapping':
            s = MappingStorage('m%d' % self.n)
        elif kind == 'file':
            s = FileStorage(os.path.join(self.dir, 's%d.fs' % self.n))
        elif kind == 'blob':
            p = os.path.join(self.dir, 's%d.fs' % self.n)
            s = FileStorage(p, blob_dir=p + '.blobs')
        elif kind == 'hexmapping':
            from ZODB.tests.hexstorage import HexStorage
            s = HexStorage(MappingStorage('m%d' % self.n))
        elif kind == 'hexfile':
            from ZODB.tests.hexstorage import HexStorage
            s = HexStorage(FileStorage(os.path.join(self.dir, 's%d.fs' % self.n)))
        elif kind == 'cfgmapping':
            import ZODB.config
            s = ZODB.config.storageFromString('<mappingstorage>\n name cm%d\n</mappingstorage>' % self.n)
        elif kind == 'cfgfile':
            import ZODB.config
            s = ZODB.config.storageFromString(
                '<filestorage>\n path %s\n create true\n pack-gc false\n pack-keep-old false\n</filestorage>'
                % os.path.join(self.dir, 's%d.fs' % self.n))
        else:
            raise InfraError('kind %r' % kind)
        self.all.append(s)
        return s

    @property
    def top(self):
        return self.stack[-1]

    def txn(self, x):
        if x not in self.txns:
            self.txns[x] = TransactionMetaData()
        return self.txns[x]

    def close(self):
        for s in reversed(self.stack):
            try:
                s.close()
            except Exception:
                pass
        for s in self.all:
            try:
                s.close()
            except Exception:
                pass

    def present_oids(self):
        """oids with a record present in any layer below/including the top (real observation)"""
        return {u64(r.oid) for t in self.top.iterator() for r in t}

    def check_lower(self):
        """[P] the storage under the top demo storage is exactly as it was when it was wrapped"""
        if len(self.stack) >= 2:
            if dump(self.stack[-2]) != self.snap[-1]:
                return ' !base-changed'
        return ''

    def do(self, op):
        t = op.split()
        c = t[0]
        top = self.stack[-1] if self.stack else None
        try:
            if c == 'reset':
                self.stack = [self.make(t[1])]
                self.snap = []
                return 'ok'
            if c in ('push', 'pushwith'):
                FAKE.queue = [int(t[-1])]
                snap = dump(top)
                if c == 'push':
                    new = top.push() if isinstance(top, DemoStorage) else DemoStorage(base=top)
                elif t[1] in ('wcfgmapping', 'wcfgfile'):
                    if not isinstance(top, FileStorage):
                        raise InfraError('whole-config demo storage needs a FileStorage base')
                    # the whole demo storage from a configuration section over the (closed and reopened) base file
                    import ZODB.config
                    path, bd = top._file_name, getattr(top, 'blob_dir', None)
                    top.close()
                    self.n += 1
                    chg = ('<mappingstorage changes>\n name cc%d\n </mappingstorage>' % self.n) \
                        if t[1] == 'wcfgmapping' else \
                        ('<filestorage changes>\n path %s\n create true\n </filestorage>'
                         % os.path.join(self.dir, 's%d.fs' % self.n))
                    new = ZODB.config.storageFromString(
                        '<demostorage>\n name cfgdemo\n <filestorage base>\n path %s\n%s </filestorage>\n %s\n'
                        '</demostorage>' % (path, (' blob-dir %s\n' % bd) if bd else '', chg))
                    self.stack[-1] = top = new.base
                    self.all.append(new.base)
                    self.all.append(new.changes)
                    snap = dump(top)
                else:
                    ch = self.make(t[1])
                    if isinstance(top, DemoStorage):
                        new = top.push(ch)
                    else:
                        new = DemoStorage(base=top, changes=ch)
                self.snap.append(snap)
                self.stack.append(new)
                return 'ok' + self.check_lower()
            if c == 'pop':
                if not isinstance(top, DemoStorage):
                    return 'err:Unsupported'
                b = top.pop()
                r = 'ok'
                if b is not self.stack[-2]:
                    r += ' !pop-returned-other'
                r += self.check_lower()           # also proves the base is still open and usable
                self.stack.pop()
                self.snap.pop()
                return r
            if c in ('begin', 'pack') and top.tpc_transaction() is not None and (
                    c == 'pack' or top.tpc_transaction() is not self.txn(t[1])):
                return 'err:Blocked'                  # would block on the commit lock (ill-formed sequence)
            if c == 'begin':
                if t[2] == '-':                       # tid from the (scripted) clock
                    import time
                    realtime, now = time.time, clock_time(t[3])
                    time.time = lambda: now
                    try:
                        top.tpc_begin(self.txn(t[1]))
                    finally:
                        time.time = realtime
                else:
                    top.tpc_begin(self.txn(t[1]), real_tid(t[2]))
                return 'ok' + self.check_lower()
            if c == 'store':
                top.store(p64(int(t[2])), real_tid(t[3]), pickle_of(t[4]), '', self.txn(t[1]))
                return 'ok' + self.check_lower()
            if c == 'cc':
                top.checkCurrentSerialInTransaction(p64(int(t[2])), real_tid(t[3]), self.txn(t[1]))
                return 'ok' + self.check_lower()
            if c == 'delete':
                top.deleteObject(p64(int(t[2])), real_tid(t[3]), self.txn(t[1]))
                return 'ok' + self.check_lower()
            if c == 'vote':
                top.tpc_vote(self.txn(t[1]))
                return 'ok' + self.check_lower()
            if c == 'finish':
                tid = top.tpc_finish(self.txn(t[1]))
                return 'ok tid=%s' % tstr(abs_tid(tid)) + self.check_lower()
            if c == 'abort':
                top.tpc_abort(self.txn(t[1]))
                return 'ok' + self.check_lower()
            if c == 'undo':
                tid = real_tid(t[2])
                top.undo(base64.encodebytes(tid).rstrip(b'\n'), self.txn(t[1]))
                return 'ok' + self.check_lower()
            if c == 'pack':
                if isinstance(top, DemoStorage):
                    if len(t) > 2:
                        top.pack(pack_time(t[1]), referencesf, gc=(t[2] == 't'))
                    else:
                        top.pack(pack_time(t[1]), referencesf)
                else:
                    top.pack(pack_time(t[1]), referencesf, gc=False)
                return 'ok' + self.check_lower()
            if c == 'undolog':
                a = [abs_tid(base64.decodebytes(d['id'] + b'\n')) for d in top.undoLog(0, 1000)]
                b = [abs_tid(base64.decodebytes(d['id'] + b'\n')) for d in top.undoInfo(0, 1000)]
                return '[' + ','.join(map(tstr, a)) + ']' + ('' if a == b else ' undoInfo-differs:%s' % b)
            if c == 'api':
                su = getattr(top, 'supportsUndo', None)
                return 'len=%d txn=%d undo=%d' % (len(top), top.tpc_transaction() is not None,
                                                  1 if (su is not None and su()) else 0)
            if c == 'newoid':
                draws = [] if t[1] == '-' else [int(x) for x in t[1].split(',')]
                FAKE.queue = list(draws)
                FAKE.used = 0
                FAKE.strict = True
                try:
                    oid = u64(top.new_oid())
                    r = 'oid=%d used=%d' % (oid, FAKE.used)
                except OutOfDraws:
                    r = 'oid=- used=%d' % FAKE.used
                finally:
                    FAKE.strict = False
                    FAKE.queue = []
                return r + self.check_lower()
            if c == 'lb':
                r = top.loadBefore(p64(int(t[1])), real_tid(t[2]))
                if r is None:
                    return 'none'
                return 'd=%s s=%s e=%s' % (data_id(r[0]), tstr(abs_tid(r[1])), tstr(abs_tid(r[2])))
            if c == 'load':
                r = top.load(p64(int(t[1])))
                return 'd=%s s=%s' % (data_id(r[0]), tstr(abs_tid(r[1])))
            if c == 'ls':
                return 'd=%s' % data_id(top.loadSerial(p64(int(t[1])), real_tid(t[2])))
            if c == 'gt':
                return tstr(abs_tid(top.getTid(p64(int(t[1])))))
            if c == 'hist':
                return '[' + ','.join(tstr(abs_tid(h['tid'])) for h in top.history(p64(int(t[1])), int(t[2]))) + ']'
            if c == 'last':
                return tstr(abs_tid(top.lastTransaction()))
            if c in ('iter', 'iterr'):
                it = top.iterator() if c == 'iter' else top.iterator(real_tid(t[1]), real_tid(t[2]))
                res = []
                for tx in it:
                    recs = sorted((u64(r.oid), data_id(r.data)) for r in tx)
                    res.append('%s:%s' % (tstr(abs_tid(tx.tid)),
                                          ','.join('%d=%s' % (o, '-' if d is None else d) for o, d in recs)))
                return '[' + ';'.join(res) + ']'
            return 'bad-op'
        except OutOfDraws:
            return 'err:OutOfDraws'
        except Exception as e:
            return errname(e)


class CallTimeout(BaseException):
    pass


def _on_alarm(signum, frame):
    raise CallTimeout()


def run_real(ops, tmpdir, per_call=10.0):
    """every call runs under a watchdog (lock.acquire is interruptible): a call that blocks -- e.g. on a
    commit lock leaked by an earlier failure -- is an observation ('err:Hang'), not a hung check"""
    import signal
    d = os.path.join(tmpdir, 'case')
    shutil.rmtree(d, ignore_errors=True)
    os.makedirs(d)
    r = Real(d)
    out, present = [], []
    old = signal.signal(signal.SIGALRM, _on_alarm)
    try:
        for op in ops:
            signal.setitimer(signal.ITIMER_REAL, per_call)
            try:
                if op.startswith('newoid') and r.stack:
                    present.append(r.present_oids())
                else:
                    present.append(None)
                out.append(r.do(op))
            except CallTimeout:
                if len(present) == len(out):
                    present.append(None)
                out.append('err:Hang')
                out += ['err:Skipped'] * (len(ops) - len(out))
                present += [None] * (len(ops) - len(present))
                break
            finally:
                signal.setitimer(signal.ITIMER_REAL, 0)
    finally:
        signal.signal(signal.SIGALRM, old)
        r.close()
        shutil.rmtree(d, ignore_errors=True)
    return out, present


# ---------------------------------------------------------------- direct oracle: ONE logical database
class Level:
    def __init__(self, kind, temp, mark, first):
        self.kind, self.temp, self.mark = kind, temp, mark
        self.issued = set()
        self.next = first
        self.txn = None          # (x, tid, {oid: data})
        self.packed = 0
        self.undo_tids = []
        self.can_undo = kind in ('file', 'blob', 'hexfile', 'cfgfile', 'wcfgfile')
        self.file_backed = self.can_undo


class World:
    """The merged list of transactions `H` of the whole stack seen as a single database, and what a
    single database answers.  Knows nothing about layers except where the stack was pushed (so that
    `pop` can discard what was written above) and which pack times were requested."""

    def __init__(self):
        self.H = []              # [(tid, {oid: data-id | None})]
        self.levels = []

    # -- helpers
    @property
    def top(self):
        return self.levels[-1]

    def revs(self, o):
        return [(tid, recs[o]) for tid, recs in self.H if o in recs]

    def packed(self):
        return max([l.packed for l in self.levels] + [0])

    def level_of_tid(self, tid):
        idx = [i for i, (t, _) in enumerate(self.H) if t == tid]
        if not idx:
            return None
        lv = 0
        for i, l in enumerate(self.levels):
            if idx[0] >= l.mark:
                lv = i
        return lv

    def oids_by_level(self):
        res = []
        for i, l in enumerate(self.levels):
            end = self.levels[i + 1].mark if i + 1 < len(self.levels) else len(self.H)
            res.append({o for _, recs in self.H[l.mark:end] for o in recs})
        return res

    def nontrivial(self):
        """an oid has revisions in two different layers of the current stack"""
        ls = self.oids_by_level()
        return any(ls[i] & ls[j] for i in range(len(ls)) for j in range(i + 1, len(ls)))

    def tid_ordered(self):
        tids = [t for t, _ in self.H]
        return all(a < b for a, b in zip(tids, tids[1:]))

    # -- expectation for one op; `real` (the observation of the real code) is only used to follow
    #    the outcome where the single-database reading has no opinion
    def apply(self, op, real=None):
        try:
            return self._apply(op, real)
        except Exception:
            return None

    def _apply(self, op, real):
        t = op.split()
        c = t[0]
        if c == 'reset':
            self.H = []
            self.levels = [Level(t[1], False, 0, None)]
            return 'ok'
        if c in ('push', 'pushwith'):
            kind = 'mapping' if c == 'push' else t[1]
            self.levels.append(Level(kind, c == 'push', len(self.H), int(t[-1])))
            return 'ok'
        lv = self.top
        demo = len(self.levels) > 1
        if c == 'pop':
            if not demo:
                return None
            del self.H[lv.mark:]
            self.levels.pop()
            return 'ok'
        if c == 'begin':
            if lv.txn is not None:
                return 'err:Txn' if lv.txn[0] == t[1] else None
            if t[2] == '-':
                # clock tid: the generator's prediction (newTid = later than the last transaction);
                # the oracle itself takes the tid the real code reports at finish
                last = self.H[-1][0] if self.H else 0
                tid = int(t[3]) if int(t[3]) > last else last + 1
                lv.txn = (t[1], tid, {}, True)
            else:
                lv.txn = (t[1], int(t[2]), {}, False)
            return 'ok'
        if c in ('store', 'delete'):
            if lv.txn is None or lv.txn[0] != t[1]:
                return 'err:Txn' if (demo or lv.txn is not None) else None
            o, ser = int(t[2]), int(t[3])
            r = self.revs(o)
            exp = None
            if c == 'store':
                if not r:
                    exp = 'ok'
                elif r[-1][1] is not None:
                    exp = 'ok' if ser == r[-1][0] else 'err:Conflict'
            else:
                if demo:
                    exp = None
                elif not r:
                    exp = 'err:KeyError'
                elif r[-1][1] is not None:
                    exp = 'ok' if ser == r[-1][0] else 'err:Conflict'
            outcome = exp if exp is not None else (real or 'ok')
            if outcome.startswith('ok'):
                lv.txn[2][o] = int(t[4]) if c == 'store' else None
            return exp
        if c == 'cc':
            # readCurrent: accepted iff the serial is that of the current revision of the ONE database
            if lv.txn is None or lv.txn[0] != t[1]:
                return 'err:Txn' if (demo or lv.txn is not None) else None
            r = self.revs(int(t[2]))
            if not r:
                return 'err:KeyError'
            if r[-1][1] is None:
                return None
            return 'ok' if int(t[3]) == r[-1][0] else 'err:ReadConflict'
        if c == 'vote':
            if lv.txn is None or lv.txn[0] != t[1]:
                return 'err:Txn'
            return 'ok'
        if c == 'finish':
            if lv.txn is None or lv.txn[0] != t[1]:
                return 'err:Txn'
            tid = lv.txn[1]
            exp = 'ok tid=%d' % tid
            if lv.txn[3]:
                # clock-generated tid: the single-database requirement is only "above everything"
                exp = ('finish-clock', self.H[-1][0] if self.H else 0)
                if real is not None and real.startswith('ok tid='):
                    tid = int(real.split()[1][4:])
            self.H.append((tid, dict(lv.txn[2])))
            lv.issued -= set(lv.txn[2])
            lv.txn = None
            return exp
        if c == 'abort':
            if lv.txn is not None and lv.txn[0] == t[1]:
                lv.txn = None
            return 'ok'
        if c == 'undo':
            if not lv.can_undo:
                return None
            if lv.txn is None or lv.txn[0] != t[1]:
                return 'err:Txn'
            u = int(t[2])
            where = self.level_of_tid(u)
            if where is None:
                return 'err:Undo'
            if where != len(self.levels) - 1 or u <= self.packed():
                return None
            recs = [r for tid, r in self.H if tid == u][0]
            new = {}
            for o in recs:
                r = self.revs(o)
                prev = [x for x in r if x[0] < u]
                pre = prev[-1][1] if prev else None
                if o in lv.txn[2]:
                    return None
                if r[-1][0] == u or (recs[o] is not None and r[-1][1] == recs[o]):
                    new[o] = pre
                else:
                    return 'err:Undo'
            lv.txn[2].update(new)
            lv.undo_tids.append(lv.txn[1])
            return 'ok'
        if c == 'pack':
            if lv.txn is not None:
                return None
            # a pack may refuse to run (it must then change nothing: the reads that follow are judged
            # against the unpacked history); its return value is not the property's business
            if t[2:] == ['t']:
                return None                      # gc=True is refused when there is a base
            if real is None or real.startswith('ok'):
                lv.packed = max(lv.packed, int(t[1]))
            return None
        if c == 'undolog':
            return ('undolog', lv.mark) if lv.can_undo else None
        if c == 'newoid':
            return ('newoid', lv)
        # ---- queries
        P = self.packed()
        if c == 'lb':
            o, b = int(t[1]), (MAXT if t[2] == 'max' else int(t[2]))
            if P and b <= P:
                return None
            r = self.revs(o)
            if not r:
                return 'err:KeyError'
            bef = [x for x in r if x[0] < b]
            aft = [x for x in r if x[0] >= b]
            if not bef:
                return 'none'
            if bef[-1][1] is None:
                return 'err:KeyError'
            return 'd=%s s=%s e=%s' % (bef[-1][1], bef[-1][0], aft[0][0] if aft else '-')
        if c in ('load', 'gt'):
            r = self.revs(int(t[1]))
            if not r or r[-1][1] is None:
                return 'err:KeyError'
            return 'd=%s s=%s' % (r[-1][1], r[-1][0]) if c == 'load' else str(r[-1][0])
        if c == 'ls':
            ser = MAXT if t[2] == 'max' else int(t[2])
            if ser <= P:
                return None
            for tid, d in self.revs(int(t[1])):
                if tid == ser and d is not None:
                    return 'd=%s' % d
            return 'err:KeyError'
        if c == 'hist':
            if P or int(t[2]) < 1:
                return None
            r = self.revs(int(t[1]))
            if not r:
                return 'err:KeyError'
            return '[' + ','.join(str(x[0]) for x in r[::-1][:int(t[2])]) + ']'
        if c == 'last':
            return str(self.H[-1][0]) if self.H else '0'
        if c in ('iter', 'iterr'):
            lo, hi = (0, MAXT) if c == 'iter' else tuple(MAXT if x == 'max' else int(x) for x in t[1:3])
            return ('iter', P, lo, hi)
        return None

    def fmt_txn(self, tid, recs):
        return '%s:%s' % (tid, ','.join('%d=%s' % (o, '-' if d is None else d) for o, d in sorted(recs.items())))


ABSENT = ('none', 'err:KeyError')


def judge(op, real, exp, world, present):
    """None = the oracle accepts (or has no opinion); else a description of the disagreement"""
    if ' !' in real:
        return 'lower storage was modified: %s' % real
    if real == 'err:Hang':
        return '%s did not return within the watchdog time (blocked)' % op
    if real == 'err:Skipped' or exp is None:
        return None
    if isinstance(exp, tuple) and exp[0] == 'newoid':
        lv = exp[1]
        if real.startswith('oid=') and not real.startswith('oid=-'):
            oid = int(real.split()[0][4:])
            if oid in lv.issued:
                return 'new_oid returned %d, already issued by this storage and not stored' % oid
            if present is not None and oid in present:
                return 'new_oid returned %d, which has a record present in the stack' % oid
            lv.issued.add(oid)
            return None
        if real.startswith('oid=-'):
            return None
        return 'new_oid failed: %s' % real
    if isinstance(exp, tuple) and exp[0] == 'finish-clock':
        if not real.startswith('ok tid='):
            return 'tpc_finish failed: %s' % real
        tid = int(real.split()[1][4:])
        if tid <= exp[1]:
            return ('commit through the demo storage got tid %d, not above the last transaction %d of the '
                    'merged history' % (tid, exp[1]))
        return None
    if isinstance(exp, tuple) and exp[0] == 'undolog':
        if not real.startswith('[') or ' ' in real:
            return 'undoLog/undoInfo failed or disagree: %s' % real
        mine = {t for t, _ in world.H[exp[1]:]}
        got = [int(x) for x in real[1:-1].split(',') if x]
        if any(x not in mine for x in got) or got != sorted(got, reverse=True):
            return 'undoLog lists %s; the transactions written through this storage are %s' % (got, sorted(mine))
        return None
    if isinstance(exp, tuple) and exp[0] == 'iter':
        _, P, lo, hi = exp
        if not real.startswith('['):
            return 'iterator failed: %s' % real
        got = [x for x in real[1:-1].split(';') if x]
        got = [x for x in got if int(x.split(':')[0]) > P]
        want = [world.fmt_txn(tid, recs) for tid, recs in world.H if tid > P and lo <= tid <= hi]
        if got != want:
            return 'iterator yields %s, the merged history is %s' % (got, want)
        return None
    if op.startswith('lb ') and real in ABSENT and exp in ABSENT:
        return None
    if real != exp:
        return '%s returned %s, the merged history says %s' % (op, real, exp)
    return None


def run_oracle(ops, real, present):
    """returns (index, description) of the first observation the single-database reading rejects"""
    w = World()
    for i, op in enumerate(ops):
        exp = w.apply(op, real[i].split(' !')[0])
        bad = judge(op, real[i], exp, w, present[i])
        if bad:
            return i, bad, w
    return None, None, w


SIGS = {'lb': 'loadBefore', 'load': 'load', 'ls': 'loadSerial', 'gt': 'getTid', 'hist': 'history',
        'last': 'lastTransaction', 'iter': 'iterator', 'iterr': 'iterator', 'store': 'store',
        'newoid': 'new_oid', 'pop': 'pop', 'push': 'push', 'pushwith': 'push', 'finish': 'demo-tid-below-base',
        'cc': 'readCurrent', 'undolog': 'undoLog'}


def signature(ops, i, real):
    if real[i] == 'err:Hang':
        return 'C16:hang'
    if ' !base-changed' in real[i]:
        return 'C16:base-modified'
    if ' !pop-returned-other' in real[i]:
        return 'C16:pop'
    c = ops[i].split()[0]
    return 'C16:' + SIGS.get(c, c)


# ---------------------------------------------------------------- generator
class Gen:
    def __init__(self, rng, thorough):
        self.rng = rng
        self.thorough = thorough
        self.ops = []
        self.w = World()
        self.k = 0
        self.dc = 100
        self.x = 0
        # a few small oids plus two with boundary shapes (>= 2^16, 0xff / 0x00 bytes, high bit set)
        self.pool = [0, 1, 2, 3] + rng.sample([4, 5, 255, 256, 65535, 65536, 2 ** 32, 2 ** 63 + 5, 2 ** 64 - 2], 2)
        self.fresh = 50
        self.aborted_issued = set()

    def emit(self, op):
        self.ops.append(op)
        return self.w.apply(op, None)

    def newdata(self):
        self.dc += 1
        return self.dc

    def cur(self, o):
        r = self.w.revs(o)
        return r[-1] if r else None

    def below(self, o):
        """revisions of `o` below the top level"""
        m = self.w.top.mark
        return [(tid, recs[o]) for tid, recs in self.w.H[:m] if o in recs]

    def txn(self, allow_undo=True):
        rng, w = self.rng, self.w
        lv = w.top
        demo = len(w.levels) > 1
        self.k += 1
        self.x += 1
        x, tid = self.x, UNIT * self.k
        if demo and rng.random() < 0.3:
            # tid from the clock: ahead, stalled, or far behind the base (the repaired excluded point)
            now = rng.choice([tid, tid, UNIT * max(1, self.k - rng.choice([1, 2, 5])), UNIT])
            self.emit('begin %d - %d' % (x, now))
            if now < tid:
                self.k -= 1
        else:
            self.emit('begin %d %d' % (x, tid))
        r = rng.random()
        undoable = [t for t, _ in w.H[lv.mark:] if t > w.packed()] if lv.can_undo else []
        if allow_undo and undoable and r < 0.22:
            u = rng.choice(undoable[-3:])
            recs = [rc for t, rc in w.H if t == u][0]
            # main stream stays inside the hypothesis "an un-creation is only written for an oid unknown
            # below" (the excluded point is probed separately)
            safe = True
            for o in recs:
                mine = [(t, d) for t, d in w.revs(o) if t < u and t >= (w.H[lv.mark][0] if lv.mark < len(w.H) else 0)]
                if not mine and self.below(o):
                    safe = False
                # FileStorage quirk outside this property (reported for C04): undoing back to an
                # un-creation writes a back pointer to the un-creation record; getTid then answers the
                # new tid although load raises POSKeyError
                if mine and mine[-1][1] is None:
                    safe = False
            if safe:
                exp = self.emit('undo %d %d' % (x, u))
                if exp != 'ok':
                    self.emit('abort %d' % x)
                    return
                self.emit('vote %d' % x)
                self.emit('finish %d' % x)
                return
        if (not demo) and lv.can_undo and r < 0.32:
            live = [o for o in self.pool if self.cur(o) and self.cur(o)[1] is not None]
            if live:
                o = rng.choice(live)
                self.emit('delete %d %d %d' % (x, o, self.cur(o)[0]))
                self.emit('vote %d' % x)
                self.emit('finish %d' % x)
                return
        # readCurrent declarations: current serial, or a non-current one from either layer
        for _ in range(rng.choice([0, 0, 1, 2])):
            o = rng.choice(self.pool + [9])
            r = w.revs(o)
            if r and r[-1][1] is None:
                continue
            if r and rng.random() < 0.5:
                ser = rng.choice([t for t, _ in r[:-1]] + [0, r[-1][0] + 1, r[-1][0] - 1])
            else:
                ser = r[-1][0] if r else 0
            self.emit('cc %d %d %d' % (x, o, ser))
        cands = sorted(set(self.pool) | lv.issued)
        n = rng.choice([1, 1, 2, 2, 3])
        if lv.file_backed and w.H[lv.mark:] and lv.txn is not None and rng.random() < 0.08:
            n = 0                                # an EMPTY transaction (file-backed layers; never their first)
        chosen = rng.sample(cands, min(n, len(cands)))
        stored = 0
        for o in chosen:
            c = self.cur(o)
            if c is not None and c[1] is None:
                # un-created object: re-creating it is outside the single-database opinion; allowed when
                # the top layer does not know it (falls under the None/KeyError equivalence)
                if [1 for t, recs in w.H[lv.mark:] if o in recs] or not demo:
                    continue
                ser = 0
            else:
                ser = c[0] if c else 0
                if c and rng.random() < 0.25:
                    older = [t for t, _ in w.revs(o)[:-1]] + [0, c[0] + 1]
                    ser = rng.choice(older)             # stale serial from either layer
            exp = self.emit('store %d %d %d %d' % (x, o, ser, self.newdata()))
            if exp == 'ok' or exp is None:
                stored += 1
            elif exp == 'err:Conflict' and rng.random() < 0.5:
                # failure, then the same operation again with the right serial
                if self.emit('store %d %d %d %d' % (x, o, c[0], self.newdata())) == 'ok':
                    stored += 1
        touched_issued = [o for o in chosen if o in lv.issued]
        if n == 0:
            self.emit('vote %d' % x)
            self.emit('finish %d' % x)
            return
        if stored == 0 or rng.random() < (0.45 if touched_issued else 0.15):
            self.aborted_issued.update(touched_issued)     # issued, stored, aborted: must stay issued
            self.emit('abort %d' % x)
        else:
            self.emit('vote %d' % x)
            self.emit('finish %d' % x)

    def newoid(self):
        rng, w = self.rng, self.w
        lv = w.top
        if lv.txn is None and lv.next is not None and rng.random() < 0.45 and self.cur(lv.next) is None \
                and lv.next not in lv.issued:
            # occupy the running candidate (`_next_oid`) by storing a record with exactly that oid, so that
            # the next allocation has to go through the draw stream
            self.k += 1
            self.x += 1
            self.emit('begin %d %d' % (self.x, UNIT * self.k))
            self.emit('store %d %d 0 %d' % (self.x, lv.next, self.newdata()))
            self.emit('vote %d' % self.x)
            self.emit('finish %d' % self.x)
        taken_live = sorted({o for _, recs in w.H for o in recs
                             if self.cur(o) is not None and self.cur(o)[1] is not None})
        uncreated = {o for _, recs in w.H for o in recs if self.cur(o)[1] is None}
        coll = []
        again = sorted(self.aborted_issued & lv.issued)
        if again and rng.random() < 0.7:
            coll.append(rng.choice(again))
        for _ in range(rng.choice([0, 1, 2, 3])):
            src = rng.random()
            if src < 0.35 and lv.issued:
                coll.append(rng.choice(sorted(lv.issued)))
            elif src < 0.7 and taken_live:
                coll.append(rng.choice(taken_live))         # in changes or in the base
            elif taken_live:
                below = sorted({o for _, recs in w.H[:lv.mark] for o in recs} - uncreated)
                coll.append(rng.choice(below or taken_live))
        self.fresh += rng.choice([1, 1, 2, 7])
        draws = coll + ([self.fresh] if rng.random() < 0.9 else [])
        # never propose an un-created oid here (excluded point, probed separately)
        draws = [d for d in draws if d not in uncreated]
        if lv.next in uncreated:
            return
        self.emit('newoid ' + (','.join(map(str, draws)) or '-'))
        # follow the code's choice: first candidate that is free
        taken = set(taken_live) | lv.issued
        cand = lv.next
        for d in [None] + draws:
            if d is not None:
                cand = d
            if cand not in taken:
                lv.issued.add(cand)
                lv.next = cand + 1
                if cand not in self.pool and rng.random() < 0.7:
                    pass
                return
        lv.next = cand

    def issue_store_abort_reissue(self):
        """directed: an id that was issued, stored and aborted must stay issued (and one that was committed
        must be found in the changes) when the draw stream proposes it again"""
        rng, w = self.rng, self.w
        lv = w.top
        if lv.txn is not None or lv.next is None:
            return
        before = set(lv.issued)
        self.newoid()
        new = sorted(lv.issued - before)
        if not new:
            return
        o = new[0]
        self.k += 1
        self.x += 1
        self.emit('begin %d %d' % (self.x, UNIT * self.k))
        self.emit('store %d %d 0 %d' % (self.x, o, self.newdata()))
        if rng.random() < 0.7:
            self.emit('abort %d' % self.x)
            self.aborted_issued.add(o)
        else:
            self.emit('vote %d' % self.x)
            self.emit('finish %d' % self.x)
        if self.cur(lv.next) is None and lv.next not in lv.issued:
            self.k += 1
            self.x += 1
            self.emit('begin %d %d' % (self.x, UNIT * self.k))
            self.emit('store %d %d 0 %d' % (self.x, lv.next, self.newdata()))
            self.emit('vote %d' % self.x)
            self.emit('finish %d' % self.x)
        self.fresh += 3
        draws = [o, self.fresh]
        uncreated = {x for _, recs in w.H for x in recs if self.cur(x)[1] is None}
        if lv.next in uncreated or set(draws) & uncreated:
            return                           # excluded point (probed separately)
        self.emit('newoid ' + ','.join(map(str, draws)))
        taken = {x for _, recs in w.H for x in recs if self.cur(x)[1] is not None} | lv.issued
        cand = lv.next
        for d in [None] + draws:
            if d is not None:
                cand = d
            if cand not in taken:
                lv.issued.add(cand)
                lv.next = cand + 1
                return
        lv.next = cand

    def queries(self, full):
        rng, w = self.rng, self.w
        tids = sorted({t for t, _ in w.H})
        oids = sorted(set(self.pool) | {o for _, recs in w.H for o in recs} | {9})
        if not full:
            oids = rng.sample(oids, min(3, len(oids)))
        bounds = sorted({b for t in tids for b in (t - 1, t, t + 1)} | {0, UNIT // 2})
        if not full and len(bounds) > 8:
            bounds = rng.sample(bounds, 8)
        for o in oids:
            for b in bounds:
                self.ops.append('lb %d %d' % (o, b))
            self.ops.append('lb %d max' % o)
            self.ops.append('load %d' % o)
            self.ops.append('gt %d' % o)
            for t in (tids if full else rng.sample(tids, min(3, len(tids)))):
                self.ops.append('ls %d %d' % (o, t))
            for n in ((1, 2, 3, 4, 5, 50) if full else (rng.choice([1, 2, 3, 50]),)):
                self.ops.append('hist %d %d' % (o, n))     # windows inside a layer and spanning layers
        self.ops.append('last')
        self.ops.append('api')
        self.ops.append('undolog')
        self.ops.append('iter')
        if tids:
            a, z = sorted([rng.choice(bounds), rng.choice(bounds)])
            self.ops.append('iterr %d %d' % (a, z))
            self.ops.append('iterr %d max' % rng.choice(bounds))

    def maybe_pack(self):
        rng, w = self.rng, self.w
        lv = w.top
        if lv.txn is not None:
            return
        demo = len(w.levels) > 1
        if demo and not lv.temp and rng.random() < 0.15:
            self.emit('pack %d t' % (UNIT * self.k + UNIT // 2))      # gc=True with a base: refused
            return
        mine = [t for t, _ in w.H[lv.mark:]]
        # FileStorage.pack(gc=False) raises PackError when an undo record after the pack time points back to
        # a record that is not current at the pack time (reported; not C16's business): pack only at times
        # after every undo of this layer
        floor = max([lv.packed] + lv.undo_tids)
        cands = [t - t % UNIT + UNIT // 2 for t in mine if t - t % UNIT + UNIT // 2 > floor]
        if cands:
            # gc=None (explicit changes only: with implicit ones it is the changes' own gc) or gc=False
            form = ' f' if (demo and (lv.temp or rng.random() < 0.5)) else ''
            self.emit('pack %d%s' % (rng.choice(cands), form))

    def build(self):
        rng = self.rng
        bk = rng.choice(['mapping', 'file', 'blob', 'hexmapping', 'hexfile'])
        self.emit('reset ' + bk)
        for _ in range(rng.choice([1, 2, 3, 4, 5])):
            self.txn()
        if rng.random() < 0.25:
            self.maybe_pack()
        depth = rng.choice([1, 1, 2, 3])
        for level in range(depth):
            ck = rng.choice(['mapping', 'file', 'blob', 'temp', 'temp', 'hexmapping', 'hexfile', 'cfgmapping', 'cfgfile'])
            # (random.randint(1, 1 << 62): the running candidate never comes near the top of the oid space)
            first = rng.choice([rng.choice([x for x in self.pool if x < 2 ** 62]), 40 + level, 60 + rng.randrange(5)])
            if ck.startswith('cfg') and level == 0 and bk in ('file', 'blob') and not self.w.top.packed \
                    and rng.random() < 0.7:
                ck = 'w' + ck           # the whole <demostorage> section over the closed and reopened base file
            if ck == 'temp':
                self.emit('push %d' % first)
            else:
                self.emit('pushwith %s %d' % (ck, first))
            for _ in range(rng.choice([2, 3, 4, 6])):
                r = rng.random()
                if r < 0.55:
                    self.txn()
                elif r < 0.78:
                    self.newoid()
                elif r < 0.88:
                    self.issue_store_abort_reissue()
                else:
                    self.maybe_pack()
                if rng.random() < 0.3:
                    self.queries(full=False)
            self.queries(full=True)
        # unwind: pop, check the lower storage answers as before, go on writing there
        while len(self.w.levels) > 1 and rng.random() < 0.7:
            self.emit('pop')
            self.queries(full=rng.random() < 0.5)
            if len(self.w.levels) > 1 and rng.random() < 0.6:
                self.newoid()                  # the storage popped to still knows what it had issued
                if rng.random() < 0.5:
                    self.issue_store_abort_reissue()
            if rng.random() < 0.5:
                self.txn()
                self.queries(full=False)
        return self.ops


def gen_case(rng, thorough):
    return Gen(rng, thorough).build()


# ---------------------------------------------------------------- excluded points (probes)
def commit(s, tid, recs=(), undo=None, explicit_none=False):
    t = TransactionMetaData()
    if tid is not None:
        s.tpc_begin(t, p64(tid))
    elif explicit_none:
        s.tpc_begin(t, None)
    else:
        s.tpc_begin(t)
    for oid, ser, v in recs:
        s.store(p64(oid), ser if isinstance(ser, bytes) else p64(ser), pickle_of(v), '', t)
    if undo:
        s.undo(base64.encodebytes(p64(undo)).rstrip(b'\n'), t)
    s.tpc_vote(t)
    return s.tpc_finish(t)


def probe_tid_below_base(tmp, rng, explicit_none=False):
    """base ahead of the clock; the demo storage commits with clock tids (no explicit tid, or -- second
    variant -- `tid=None` passed positionally as the IStorage signature allows)"""
    import clock
    ahead = rng.choice([3600.0, 86400.0, 1e8])
    with clock.scripted(start=1_700_000_000.0 + ahead):
        base = MappingStorage()
        commit(base, None, [(0, 0, 1), (1, 0, 2)])
        tb = commit(base, None, [(1, base.lastTransaction(), 3), (2, 0, 4)])
    with clock.scripted(start=1_700_000_000.0):
        demo = DemoStorage(base=base, changes=MappingStorage())
        tc = commit(demo, None, [(0, demo.load(p64(0))[1], 5)], explicit_none=explicit_none)
    bad = None
    snap = p64(u64(demo.lastTransaction()) + 1)
    got = demo.loadBefore(p64(2), snap)
    cur = demo.load(p64(2))
    if not (tc > tb):
        if got is None or got[:2] != cur:
            bad = ('base last tid %d, first demo commit tid %d (< base): the newest snapshot '
                   '(lastTransaction()+1) does not contain the current revision of base object 2: '
                   'loadBefore -> %r, load -> serial %d' % (u64(tb), u64(tc), got and u64(got[1]), u64(cur[1])))
    return bad, dict(ahead=ahead)


def probe_undo_over_base(tmp, rng):
    base = MappingStorage()
    commit(base, 100, [(1, 0, 1)])
    demo = DemoStorage(base=base, changes=FileStorage(os.path.join(tmp, 'pu.fs'), create=True))
    commit(demo, 200, [(1, 100, 2)])
    before = demo.loadBefore(p64(1), p64(150))
    commit(demo, 300, undo=200)
    a = b = None
    try:
        after = demo.loadBefore(p64(1), p64(150))
        if after != before:
            a = 'loadBefore(1, 150) changed from %r to %r by an undo at 300' % (before, after)
    except POSException.POSKeyError:
        a = ('loadBefore(oid 1, tid 150) raises POSKeyError after the undo of the first change (200) at 300; '
             'before the undo it returned the base revision (serial 100, end 200)')
    data, serial = demo.load(p64(1))
    if data_id(data) != 1:
        a = (a or '') + ' load after undo returns data %r' % data_id(data)
    # a reader that saw the undone revision (serial 200) and declares readCurrent must be refused
    t = TransactionMetaData()
    demo.tpc_begin(t, p64(350))
    try:
        demo.checkCurrentSerialInTransaction(p64(1), p64(200), t)
        rc = 'accepted'
    except POSException.ReadConflictError:
        rc = None
    demo.tpc_abort(t)
    if rc:
        raise AssertionError('checkCurrentSerialInTransaction(oid 1, serial 200) is accepted after the revision '
                             '200 was undone through the demo storage (merged current serial is %d)' % u64(serial))
    try:
        commit(demo, 400, [(1, serial, 3)])
    except POSException.ConflictError:
        t = demo._transaction
        if t is not None:
            demo.tpc_abort(t)
        b = ('after the undo, store(oid 1, serial=%d as reported by load()) raises ConflictError: the object '
             'can no longer be written through the demo storage' % u64(serial))
    demo.close()
    return a, b


def probe_pack_temp(tmp, rng):
    base = MappingStorage()
    T = lambda k: u64(real_tid(UNIT * k))  # noqa: E731
    commit(base, T(1), [(0, 0, 0), (1, 0, 1)])
    demo = DemoStorage(base=base)
    commit(demo, T(2), [(1, T(1), 2)])
    commit(demo, T(3), [(1, T(2), 3)])
    commit(demo, T(4), [(7, 0, 4)])
    want = {o: demo.load(p64(o)) for o in (0, 1, 7)}
    bad = []
    try:
        demo.pack(pack_time(3 * UNIT + UNIT // 2), referencesf)
    except KeyError as e:
        bad.append('pack raised KeyError(%r)' % (e.args[0],))
    for o in want:
        try:
            if demo.load(p64(o)) != want[o]:
                bad.append('object %d reads differently after the pack' % o)
        except POSException.POSKeyError:
            bad.append('object %d (committed) is gone after the pack' % o)
    lost = [b for b in bad if not b.startswith('pack raised')]
    note = [b for b in bad if b.startswith('pack raised')]
    return (('DemoStorage(base=<non-empty>).pack with implicit changes: ' + '; '.join(bad)) if lost else None,
            note[0] if note else 'pack succeeded')


def probe_uncreated_reissue(tmp, rng):
    base = MappingStorage()
    commit(base, 100, [(51, 0, 2)])
    FAKE.queue = [50]
    demo = DemoStorage(base=base, changes=FileStorage(os.path.join(tmp, 'pn.fs'), create=True))
    first = u64(demo.new_oid())
    commit(demo, 200, [(first, 0, 7)])
    commit(demo, 300, undo=200)
    FAKE.queue = [50, 52]
    again = u64(demo.new_oid())
    hist = [u64(h['tid']) for h in demo.history(p64(50), 9)]
    demo.close()
    if again == first:
        return ('new_oid re-issued oid %d although records %r of it are present (newest is an un-creation); '
                'draw stream scripted' % (again, hist))
    return None


# ---------------------------------------------------------------- blob-capable layers (real code + oracle)
def run_blob_case(rng, tmp):
    """Blob records and their files through demo stacks over a blob-capable base: every committed
    (oid, serial) blob of every layer is readable through the top storage with its own content, aborted
    ones are not, the base (records, file bytes, blob directory) never changes.  The blob files themselves
    are outside the Lean model (C13's subject); here they are compared with a plain dictionary."""
    import ZODB.blob
    d = os.path.join(tmp, 'blobcase')
    shutil.rmtree(d, ignore_errors=True)
    os.makedirs(d)
    rec = zodb_pickle(ZODB.blob.Blob())
    content, cur, log = {}, {}, []
    k = [0]
    FAKE.queue = []

    def all_files(st):
        """every file (also under tmp/ and savepoint directories) in the blob directories of `st` and below"""
        res = []
        for bd in blobdirs_of(st):
            for root, _, files in os.walk(bd):
                res += [os.path.join(root, f) for f in files if f != '.layout']
        return sorted(res)
    mid = [None]

    def txn(st, writes, abort=False):
        k[0] += 1
        tid = real_tid(UNIT * k[0])
        t = TransactionMetaData()
        lower_before = all_files(st.base) if isinstance(st, DemoStorage) else None
        st.tpc_begin(t, tid)
        for oid, text in writes:
            tmpd = st.temporaryDirectory()
            fn = os.path.join(tmpd, 'up-%d-%d' % (k[0], oid))
            with open(fn, 'wb') as f:
                f.write(text)
            if lower_before is not None and all_files(st.base) != lower_before:
                # an uncommitted working copy must not sit in a blob directory of a layer below
                mid[0] = ('while a transaction is open, the uncommitted blob working copy %s lies inside the blob '
                          'directory of the storage below the demo storage (temporaryDirectory() = %s)'
                          % (os.path.basename(fn), tmpd))
            st.storeBlob(p64(oid), cur.get(oid, z64), rec, fn, '', t)
            if lower_before is not None and mid[0] is None and all_files(st.base) != lower_before:
                mid[0] = 'storeBlob through the demo storage changed the blob directory of the storage below it'
            lower_before = all_files(st.base) if isinstance(st, DemoStorage) else None
        if abort:
            st.tpc_abort(t)
            log.append('abort %s' % [w[0] for w in writes])
            return [(oid, tid) for oid, _ in writes]
        st.tpc_vote(t)
        st.tpc_finish(t)
        for oid, text in writes:
            content[(oid, tid)] = text
            cur[oid] = tid
        log.append('commit %s' % [w[0] for w in writes])
        return []

    def check(top, gone, first='load'):
        for (oid, tid), text in sorted(content.items()):
            what = None
            try:
                if first == 'open':
                    what = 'openCommittedBlobFile'
                    with top.openCommittedBlobFile(p64(oid), tid) as f:
                        got2 = f.read()
                what = 'loadBlob'
                with open(top.loadBlob(p64(oid), tid), 'rb') as f:
                    got = f.read()
                what = 'openCommittedBlobFile'
                with top.openCommittedBlobFile(p64(oid), tid) as f:
                    got2 = f.read()
            except Exception as e:
                return '%s(%d, %s) through the demo stack raised %s' % (what, oid, abs_tid(tid), type(e).__name__)
            if got != text or got2 != text:
                return 'loadBlob(%d, %s) returned the wrong file content' % (oid, abs_tid(tid))
        for oid, tid in gone:
            try:
                top.loadBlob(p64(oid), tid)
                return 'blob (%d, %s) of an aborted transaction is readable' % (oid, abs_tid(tid))
            except POSException.POSKeyError:
                pass
        for oid, tid in cur.items():
            if top.load(p64(oid))[1] != tid:
                return 'load(%d) serial differs from the last committed blob revision' % oid
        return None
    bad = None
    stack = []
    try:
        base = FileStorage(os.path.join(d, 'base.fs'), blob_dir=os.path.join(d, 'base.blobs'), create=True)
        stack.append(base)
        for _ in range(rng.choice([1, 2, 3])):
            txn(base, [(o, b'base-%d-%d' % (o, k[0])) for o in rng.sample([1, 2, 3, 4], rng.choice([1, 2]))])
        snaps = []
        gone = []
        for level in range(rng.choice([1, 2, 3])):
            lower = stack[-1]
            snaps.append(dump(lower))
            ck_kind = rng.choice(['blob', 'temp', 'blobwrap-file', 'blobwrap-mapping'])
            if ck_kind != 'temp':
                p = os.path.join(d, 'c%d.fs' % level)
                if ck_kind == 'blob':
                    ch = FileStorage(p, blob_dir=p + '.blobs', create=True)
                else:
                    # the BlobStorage proxy around a storage without blob support of its own
                    inner = FileStorage(p, create=True) if ck_kind == 'blobwrap-file' else MappingStorage('bw%d' % level)
                    ch = ZODB.blob.BlobStorage(p + '.wblobs', inner)
                new = lower.push(ch) if isinstance(lower, DemoStorage) else DemoStorage(base=lower, changes=ch)
            else:
                new = lower.push() if isinstance(lower, DemoStorage) else DemoStorage(base=lower)
            log.append('push %s' % ck_kind)
            stack.append(new)
            if rng.random() < 0.5:
                # the very FIRST blob read through a fresh layer (implicit changes are made blob-capable by
                # this call) must already fall through to the layers below
                first = rng.choice(['load', 'open'])
                log.append('first-read %s' % first)
                bad = bad or check(new, gone, first)
                if bad:
                    bad = 'first blob read through a fresh layer: ' + bad
                    break
            for _ in range(rng.choice([1, 2, 4])):
                oids = rng.sample([1, 2, 3, 4], rng.choice([1, 2]))
                if rng.random() < 0.4:
                    oids.append(u64(new.new_oid()))
                gone += txn(new, [(o, b'L%d-%d-%d' % (level, o, k[0])) for o in oids], abort=rng.random() < 0.25)
                bad = bad or mid[0] or check(new, gone)
                if dump(lower) != snaps[-1]:
                    bad = bad or 'the storage below a demo storage changed while blobs were stored through it'
                if bad:
                    break
            if bad:
                break
        while not bad and len(stack) > 1 and rng.random() < 0.7:
            top = stack.pop()
            lower = top.pop()
            log.append('pop')
            for key in [key for key in content if u64(key[1]) > max(
                    [u64(t.tid) for t in lower.iterator()] + [0])]:
                del content[key]
            cur.clear()
            for (oid, tid) in sorted(content, key=lambda x: x[1]):
                cur[oid] = tid
            if lower is not stack[-1] or dump(lower) != snaps.pop():
                bad = 'pop did not return the unchanged lower storage'
            else:
                bad = check(lower, []) if isinstance(lower, DemoStorage) else None
    except Exception as e:
        import traceback
        bad = bad or 'blob scenario raised %s: %s' % (type(e).__name__, traceback.format_exc()[-600:])
    finally:
        for st in reversed(stack):
            try:
                st.close()
            except Exception:
                pass
        shutil.rmtree(d, ignore_errors=True)
    return bad, log


# ---------------------------------------------------------------- overlapping commits (schedules)
class StepClock:
    """time.time(): every call reads the next minute (mode 'step'), or never moves (mode 'stall')"""

    def __init__(self, mode, k0):
        self.mode, self.k = mode, k0

    def __call__(self):
        if self.mode == 'step':
            self.k += 1
        return clock_time(UNIT * self.k)


class GatedLock:
    """the demo storage's commit lock; when armed, the next acquire() first lets ANOTHER committer run a
    complete commit -- the schedule 'A is inside tpc_begin and waits for the commit lock while B commits'
    (A holds no lock at that point, so running B inline is exactly that interleaving)"""

    def __init__(self, lock):
        self.lock, self.action = lock, None

    def acquire(self, *a, **k):
        if self.action is not None:
            act, self.action = self.action, None
            act()
        return self.lock.acquire(*a, **k)

    def release(self):
        return self.lock.release()

    def __enter__(self):
        self.acquire()
        return self

    def __exit__(self, *a):
        self.release()

    def __getattr__(self, name):
        return getattr(self.lock, name)


def judge_history(top, H, marks, kinds):
    """the usual read oracle on a finished stack: every query at every boundary vs the merged list H"""
    w = World()
    w.H = [(t, dict(r)) for t, r in H]
    w.levels = [Level(k, False, m, None) for k, m in zip(kinds, marks)]
    r = Real(None)
    r.stack = [None] * (len(marks) - 1) + [top]
    r.snap = []
    tids = sorted({t for t, _ in H})
    oids = sorted({o for _, recs in H for o in recs} | {9})
    qs = ['last', 'iter']
    for o in oids:
        qs += ['lb %d %d' % (o, b) for t in tids for b in (t - 1, t, t + 1)]
        qs += ['lb %d max' % o, 'load %d' % o, 'gt %d' % o, 'hist %d 50' % o]
        qs += ['ls %d %d' % (o, t) for t in tids]
    for q in qs:
        try:
            real = r.do(q)
        except InfraError as e:
            real = 'err:Other(%s)' % e
        bad = judge(q, real, w.apply(q, real), w, None)
        if bad:
            return bad
    return None


def run_overlap_case(rng, tmp, ckind, mode, gate_at, nthreads_b=1):
    """commits through one DemoStorage whose tids come from the clock; commit number `gate_at` of committer
    A is overtaken by a complete commit of committer B between A's entry into tpc_begin and A's acquisition
    of the commit lock.  [P] commit tids strictly increase in commit order, lastTransaction() is the last
    commit's tid, and the finished stack reads as the merged history."""
    import time
    d = os.path.join(tmp, 'overlap')
    shutil.rmtree(d, ignore_errors=True)
    os.makedirs(d)
    FAKE.queue = []
    base = MappingStorage('obase')
    commit(base, u64(real_tid(UNIT * 2)), [(1, 0, 1), (2, 0, 2), (3, 0, 3)])
    H = [(2 * UNIT, {1: 1, 2: 2, 3: 3})]
    changes = MappingStorage('ochanges') if ckind == 'mapping' else FileStorage(os.path.join(d, 'c.fs'), create=True)
    realtime = time.time
    clock = StepClock(mode, 10 if mode == 'step' else 1)
    time.time = clock
    order = []               # (committer, oid, data, tid) in the order the changes storage committed them
    dc = [500]
    bad = None
    try:
        demo = DemoStorage(base=base, changes=changes)
        gate = GatedLock(demo._commit_lock)
        demo._commit_lock = gate
        snap = dump(base)

        def do_commit(who, oid, positional_none=False):
            dc[0] += 1
            data = dc[0]
            t = TransactionMetaData()
            ser = demo.load(p64(oid))[1]
            if positional_none:
                demo.tpc_begin(t, None)
            else:
                demo.tpc_begin(t)
            ser = demo.load(p64(oid))[1]      # the client of this committer reads inside its commit
            demo.store(p64(oid), ser, pickle_of(data), '', t)
            demo.tpc_vote(t)
            demo.tpc_finish(t, lambda tid: order.append((who, oid, data, tid)))
        for i in range(3):
            if i == gate_at:
                gate.action = lambda: [do_commit('B', 2) for _ in range(nthreads_b)]
            do_commit('A', 1, positional_none=rng.random() < 0.3)
        tids = [abs_tid(x[3]) for x in order]
        for (w1, _, _, t1), (w2, _, _, t2) in zip(order, order[1:]):
            if not t1 < t2:
                bad = ('%s changes, clock %s: the commit of %s (tid %s) was written after the commit of %s '
                       '(tid %s) although it entered tpc_begin first and waited for the commit lock: tids do '
                       'not increase in commit order' % (ckind, mode, w2, abs_tid(t2), w1, abs_tid(t1)))
                break
        if not bad and demo.lastTransaction() != order[-1][3]:
            bad = 'lastTransaction() is %s, the last commit has tid %s' % (
                abs_tid(demo.lastTransaction()), tids[-1])
        if not bad:
            for who, oid, data, tid in order:
                H.append((abs_tid(tid), {oid: data}))
            bad = judge_history(demo, H, [0, 1], ['mapping', ckind])
        if not bad and dump(base) != snap:
            bad = 'the base changed during overlapping commits'
        demo.close()
    finally:
        time.time = realtime
        shutil.rmtree(d, ignore_errors=True)
    return bad, dict(overlap=dict(ckind=ckind, mode=mode, gate_at=gate_at, b=nthreads_b),
                     order=[(x[0], abs_tid(x[3])) for x in order])


def run_sched_commit_case(tmp, ckind, seed, schedule=None):
    """two committer threads on one DemoStorage under harness/sched.py (yield at every lock operation;
    sticky schedules so that one committer can complete while the other is parked at the commit lock)"""
    import sched
    import time
    d = os.path.join(tmp, 'schedc')
    shutil.rmtree(d, ignore_errors=True)
    os.makedirs(d)
    FAKE.queue = []
    realtime = time.time
    time.time = StepClock('step', 10)
    order = []
    try:
        with sched.installed():
            base = MappingStorage('sbase')
            commit(base, u64(real_tid(UNIT * 2)), [(1, 0, 1), (2, 0, 2)])
            changes = MappingStorage('sch') if ckind == 'mapping' else FileStorage(os.path.join(d, 'c.fs'), create=True)
            demo = DemoStorage(base=base, changes=changes)
            s = sched.Scheduler(seed=seed, schedule=schedule, stickiness=0.93)

            def committer(who, oid):
                for i in range(2):
                    t = TransactionMetaData()
                    demo.tpc_begin(t)
                    ser = demo.load(p64(oid))[1]
                    demo.store(p64(oid), ser, pickle_of(100 * oid + i), '', t)
                    demo.tpc_vote(t)
                    demo.tpc_finish(t, lambda tid: order.append((who, oid, 100 * oid + i, tid)))
            s.spawn('A', committer, 'A', 1)
            s.spawn('B', committer, 'B', 2)
            res = s.run(timeout=60)
        if res['deadlock'] or res['errors']:
            raise InfraError('scheduler run failed: deadlock=%s errors=%r' % (res['deadlock'], res['errors']))
        bad = None
        for (w1, _, _, t1), (w2, _, _, t2) in zip(order, order[1:]):
            if not t1 < t2:
                bad = ('%s changes: commit of %s got tid %s, written after the commit of %s with tid %s: tids do '
                       'not increase in commit order' % (ckind, w2, abs_tid(t2), w1, abs_tid(t1)))
                break
        if not bad and demo.lastTransaction() != order[-1][3]:
            bad = 'lastTransaction() is not the tid of the last commit'
        if not bad:
            H = [(2 * UNIT, {1: 1, 2: 2})] + [(abs_tid(t), {o: dv}) for _, o, dv, t in order]
            bad = judge_history(demo, H, [0, 1], ['mapping', ckind])
        demo.close()
    finally:
        time.time = realtime
        shutil.rmtree(d, ignore_errors=True)
    return bad, dict(sched_commit=dict(ckind=ckind, seed=seed, schedule=res['decisions']))


def run_sched_alloc_case(tmp, variant, seed, schedule=None):
    """two or three threads inside new_oid() of ONE demo storage (plain / file base / pushed) under
    harness/sched.py with line-granular preemption inside new_oid: the ids are pairwise distinct and none
    identifies an object of either layer"""
    import sched
    d = os.path.join(tmp, 'scheda')
    shutil.rmtree(d, ignore_errors=True)
    os.makedirs(d)

    def local(frame, event, arg):
        if event == 'line':
            sc = sched._current
            if sc is not None:
                sc.yield_point('line', 'new_oid:%d' % frame.f_lineno)
        return local

    def tracer(frame, event, arg):
        if event == 'call' and frame.f_code.co_name == 'new_oid' and '/ZODB/' in frame.f_code.co_filename:
            return local
        return None
    results = {}
    try:
        with sched.installed():
            base = MappingStorage('ab') if variant != 'filebase' else FileStorage(os.path.join(d, 'b.fs'), create=True)
            commit(base, u64(real_tid(UNIT)), [(1, 0, 1), (2, 0, 2), (3, 0, 3)])
            FAKE.queue = [1]
            demo = DemoStorage(base=base, changes=MappingStorage('ac'))
            commit(demo, u64(real_tid(2 * UNIT)), [(4, 0, 4)])
            if variant == 'pushed':
                FAKE.queue = [2]
                demo = demo.push()
            FAKE.fallback = 10 ** 6 * (1 + seed % 7)
            sc = sched.Scheduler(seed=seed, schedule=schedule)

            def alloc(name):
                sys.settrace(tracer)
                try:
                    results[name] = [u64(demo.new_oid()) for _ in range(3)]
                finally:
                    sys.settrace(None)
            for i in range(2 + seed % 2):
                sc.spawn('a%d' % i, alloc, 'a%d' % i)
            res = sc.run(timeout=60)
            demo.close()
    finally:
        shutil.rmtree(d, ignore_errors=True)
    if res['deadlock'] or res['errors']:
        raise InfraError('scheduler run failed: deadlock=%s errors=%r' % (res['deadlock'], res['errors']))
    ids = [o for v in results.values() for o in v]
    bad = None
    if len(set(ids)) != len(ids):
        bad = '%s demo storage: concurrent new_oid callers received the same id(s) %s' % (
            variant, sorted({o for o in ids if ids.count(o) > 1}))
    elif set(ids) & {1, 2, 3, 4}:
        bad = '%s demo storage: a concurrent new_oid caller received the id of an existing object: %s' % (
            variant, sorted(set(ids) & {1, 2, 3, 4}))
    return bad, dict(sched_alloc=dict(variant=variant, seed=seed, schedule=res['decisions']))


# ---------------------------------------------------------------- conflicts resolved across the layers
def run_resolve_case(rng, tmp):
    """A class with _p_resolveConflict (PCounter): a store with a stale serial -- from the base while the
    current revision is in the changes, or an older base revision while the current one is also in the base
    -- is resolved against the MERGED current revision, the merged state is what gets committed, and
    tpc_vote reports exactly the oids whose data were replaced by a resolution (the committer must
    invalidate them); an unresolvable class raises ConflictError."""
    from ZODB.tests.ConflictResolution import PCounter
    d = os.path.join(tmp, 'resolvecase')
    shutil.rmtree(d, ignore_errors=True)
    os.makedirs(d)
    FAKE.queue = []

    def pc(v):
        o = PCounter()
        o._value = v
        return zodb_pickle(o)

    def val(data):
        return zodb_unpickle(data)._value

    def mk(kind, name):
        return MappingStorage(name) if kind == 'mapping' else FileStorage(os.path.join(d, name + '.fs'), create=True)
    bk, ckind = rng.choice(['mapping', 'file']), rng.choice(['mapping', 'file', None])
    log = ['base %s changes %s' % (bk, ckind or 'implicit')]
    bad = None
    stack = []
    try:
        base = mk(bk, 'rb')
        stack.append(base)
        T = lambda k: real_tid(UNIT * k)  # noqa: E731
        t = TransactionMetaData()
        base.tpc_begin(t, T(1))
        base.store(p64(1), z64, pc(0), '', t)
        base.store(p64(2), z64, pc(10), '', t)
        base.store(p64(3), z64, pickle_of(1), '', t)
        base.tpc_vote(t)
        base.tpc_finish(t)
        t = TransactionMetaData()
        base.tpc_begin(t, T(2))
        base.store(p64(2), T(1), pc(12), '', t)
        base.tpc_vote(t)
        base.tpc_finish(t)
        snap = dump(base)
        demo = DemoStorage(base=base, changes=(mk(ckind, 'rc') if ckind else None))
        stack.append(demo)
        if rng.random() < 0.4:
            demo = demo.push()
            stack.append(demo)
            log.append('pushed')
        k = 2
        inc1 = rng.choice([1, 2, 5])
        first_writer = rng.random() < 0.7
        if first_writer:
            k += 1
            t = TransactionMetaData()
            demo.tpc_begin(t, T(k))
            demo.store(p64(1), T(1), pc(inc1), '', t)
            r = demo.tpc_vote(t)
            demo.tpc_finish(t)
            if set(r or ()):
                bad = 'tpc_vote reported resolved oids %r for a commit without conflict' % (sorted(r),)
            log.append('first writer: oid 1 -> %d' % inc1)
        cur1 = inc1 if first_writer else 0
        # second committer: stale serials
        k += 1
        t = TransactionMetaData()
        demo.tpc_begin(t, T(k))
        want_resolved = set()
        expect = {}
        new1 = rng.choice([3, 7])
        if first_writer:
            demo.store(p64(1), T(1), pc(new1), '', t)          # stale: base serial, current is in the changes
            want_resolved.add(p64(1))
            expect[1] = cur1 + new1 - 0
        else:
            demo.store(p64(1), T(1), pc(new1), '', t)          # current serial: no conflict
            expect[1] = new1
        if rng.random() < 0.7:
            demo.store(p64(2), T(1), pc(15), '', t)            # stale: older base revision, current in the base
            want_resolved.add(p64(2))
            expect[2] = 12 + 15 - 10
        if rng.random() < 0.5:
            demo.store(p64(7), z64, pc(1), '', t)              # new object: nothing to resolve
            expect[7] = 1
        if rng.random() < 0.4:
            try:
                demo.store(p64(3), z64, pickle_of(2), '', t)   # stale serial, class cannot resolve
                bad = bad or 'store of an unresolvable class with a stale serial was accepted'
            except POSException.ConflictError:
                log.append('unresolvable: ConflictError')
        r = demo.tpc_vote(t)
        tid = demo.tpc_finish(t)
        log.append('second committer resolved=%s' % sorted(u64(o) for o in want_resolved))
        got = set(r or ())
        if not bad and got != want_resolved:
            bad = ('tpc_vote returned %s; the stores of oids %s were resolved against the merged current '
                   'revision and their data replaced (the committer must be told)' % (
                       sorted(u64(o) for o in got), sorted(u64(o) for o in want_resolved)))
        if not bad:
            for o, v in sorted(expect.items()):
                data, ser = demo.load(p64(o))
                if val(data) != v or ser != tid:
                    bad = 'oid %d reads value %r serial %s after the resolved commit, expected %r at %s' % (
                        o, val(data), abs_tid(ser), v, abs_tid(tid))
                    break
        if not bad and dump(base) != snap:
            bad = 'the base changed'
    except Exception as e:
        import traceback
        bad = bad or 'resolve scenario raised %s: %s' % (type(e).__name__, traceback.format_exc()[-500:])
    finally:
        for st in reversed(stack):
            try:
                st.close()
            except Exception:
                pass
        shutil.rmtree(d, ignore_errors=True)
    return bad, log


def run_resolve_pair(rng, tmp):
    """Two DemoStorage instances alive in one process (a multi-database commit), their two-phase commits
    interleaved in a random order: each tpc_vote reports exactly the oids resolved by stores made through
    THAT storage -- nothing another storage resolved, nothing lost because another storage began."""
    from ZODB.tests.ConflictResolution import PCounter
    FAKE.queue = []

    def pc(v):
        o = PCounter()
        o._value = v
        return zodb_pickle(o)
    T = lambda k: real_tid(UNIT * k)  # noqa: E731
    demos, log = {}, []
    bad = None
    try:
        for name in 'AB':
            base = MappingStorage('pair-base-' + name)
            commit(base, u64(T(1)), [])
            t = TransactionMetaData()
            base.tpc_begin(t, T(2))
            base.store(p64(1), z64, pc(0), '', t)
            base.tpc_vote(t)
            base.tpc_finish(t)
            d = DemoStorage(base=base, changes=MappingStorage('pair-ch-' + name))
            t = TransactionMetaData()
            d.tpc_begin(t, T(3))
            d.store(p64(1), T(2), pc(1), '', t)                 # first writer: current revision in the changes
            d.tpc_vote(t)
            d.tpc_finish(t)
            demos[name] = d
        res = {'A': rng.random() < 0.8, 'B': rng.random() < 0.5}
        if not (res['A'] or res['B']):
            res['A'] = True
        seqs = {n: ['begin', 'store', 'vote', 'finish'] for n in 'AB'}
        order = []
        while seqs['A'] or seqs['B']:
            n = rng.choice([x for x in 'AB' if seqs[x]])
            order.append((n, seqs[n].pop(0)))
        txn = TransactionMetaData()             # one transaction object for both, as in a multi-database commit
        votes = {}
        for n, step in order:
            d = demos[n]
            log.append(n + ':' + step)
            if step == 'begin':
                d.tpc_begin(txn, T(4))
            elif step == 'store':
                if res[n]:
                    d.store(p64(1), T(2), pc(5), '', txn)       # stale base serial: resolved
                else:
                    d.store(p64(9), z64, pc(1), '', txn)
            elif step == 'vote':
                votes[n] = set(d.tpc_vote(txn) or ())
            else:
                d.tpc_finish(txn)
        for n in 'AB':
            want = {p64(1)} if res[n] else set()
            if votes[n] != want:
                bad = ('storage %s: tpc_vote returned %s, its stores resolved %s (order %s; the other storage '
                       'resolved %s)' % (n, sorted(u64(o) for o in votes[n]), sorted(u64(o) for o in want),
                                         ' '.join(log), 'oid 1' if res['AB'.replace(n, '')] else 'nothing'))
                break
    except Exception as e:
        import traceback
        bad = bad or 'resolve pair scenario raised %s: %s' % (type(e).__name__, traceback.format_exc()[-500:])
    finally:
        for d in demos.values():
            try:
                d.close()
            except Exception:
                pass
    return bad, log


# ---------------------------------------------------------------- two demo storages over ONE base
def run_shared_base_case(rng, tmp):
    """Two DemoStorage instances layered over the same base storage object, their two-phase commits
    interleaved step by step (explicit tids, clock tids with a stalled clock, empty transactions): each reads
    as base ++ its OWN changes, the shared base never changes, and closing one (close_base_on_close=False)
    leaves the other one and the base fully usable."""
    import time
    d = os.path.join(tmp, 'sharedbase')
    shutil.rmtree(d, ignore_errors=True)
    os.makedirs(d)
    FAKE.queue = []
    log = []
    bad = None
    opened = []
    realtime = time.time
    try:
        bk = rng.choice(['mapping', 'file'])
        base = MappingStorage('shared') if bk == 'mapping' else FileStorage(os.path.join(d, 'b.fs'), create=True)
        opened.append(base)
        commit(base, u64(real_tid(UNIT)), [(1, 0, 1), (2, 0, 2)])
        commit(base, u64(real_tid(2 * UNIT)), [(1, real_tid(UNIT), 3)])
        HB = [(UNIT, {1: 1, 2: 2}), (2 * UNIT, {1: 3})]
        snap = dump(base)
        demos, H, kinds = {}, {}, {}
        for n in 'AB':
            kinds[n] = rng.choice(['mapping', 'file', None])
            ch = None if kinds[n] is None else (MappingStorage('ch' + n) if kinds[n] == 'mapping' else FileStorage(
                os.path.join(d, 'c%s.fs' % n), create=True))
            demos[n] = DemoStorage(base=base, changes=ch, close_base_on_close=False)
            opened.append(demos[n])
            H[n] = list(HB)
        log.append('base %s, changes %s / %s' % (bk, kinds['A'], kinds['B']))
        k = 2
        dc = 700
        for rnd in range(rng.choice([1, 2, 3])):
            mode = rng.choice(['explicit', 'explicit', 'clock-stall'])
            seqs = {n: ['begin', 'store', 'vote', 'finish'] for n in 'AB'}
            order = []
            while seqs['A'] or seqs['B']:
                n = rng.choice([x for x in 'AB' if seqs[x]])
                order.append((n, seqs[n].pop(0)))
            txns = {n: TransactionMetaData() for n in 'AB'}
            writes = {}
            for n in 'AB':
                if rng.random() < 0.15:
                    writes[n] = {}                                   # an empty transaction
                else:
                    dc += 1
                    writes[n] = {rng.choice([1, 2, 7]): dc}
            tids = {}
            if mode == 'clock-stall':
                time.time = StepClock('stall', 1)
            try:
                for n, step in order:
                    dm = demos[n]
                    if step == 'begin':
                        if mode == 'explicit':
                            k += 1
                            dm.tpc_begin(txns[n], real_tid(UNIT * k))
                        else:
                            dm.tpc_begin(txns[n])
                    elif step == 'store':
                        for o, v in writes[n].items():
                            r = [x for x in H[n] if o in x[1]]
                            dm.store(p64(o), real_tid(r[-1][0]) if r else z64, pickle_of(v), '', txns[n])
                    elif step == 'vote':
                        dm.tpc_vote(txns[n])
                    else:
                        tids[n] = dm.tpc_finish(txns[n])
            finally:
                time.time = realtime
            for n in 'AB':
                t = abs_tid(tids[n])
                if H[n] and t <= H[n][-1][0]:
                    bad = 'storage %s: commit tid %s is not above its last transaction %s' % (n, t, H[n][-1][0])
                H[n].append((t, writes[n]))
            k = max([k] + [H[n][-1][0] // UNIT + 1 for n in 'AB'])
            log.append('round %s order %s' % (mode, ' '.join(a + ':' + b for a, b in order)))
            if bad:
                break
        for n in 'AB':
            if not bad:
                bad = judge_history(demos[n], H[n], [0, 2], [bk, kinds[n] or 'mapping'])
                if bad:
                    bad = 'storage %s of two over one base: %s' % (n, bad)
        if not bad and dump(base) != snap:
            bad = 'the shared base changed'
        if not bad:
            first = rng.choice('AB')
            other = 'AB'.replace(first, '')
            demos[first].close()
            log.append('closed ' + first)
            if not is_open(base):
                bad = 'closing one demo storage (close_base_on_close=False) closed the shared base'
            else:
                bad = judge_history(demos[other], H[other], [0, 2], [bk, kinds[other] or 'mapping'])
                if bad:
                    bad = 'after closing the other demo storage over the same base: ' + bad
    except Exception as e:
        import traceback
        bad = bad or 'shared-base scenario raised %s: %s' % (type(e).__name__, traceback.format_exc()[-600:])
    finally:
        time.time = realtime
        for st in reversed(opened):
            try:
                st.close()
            except Exception:
                pass
        shutil.rmtree(d, ignore_errors=True)
    return bad, log


# ---------------------------------------------------------------- close(): who owns what
def is_open(st, oid=1):
    try:
        st.load(p64(oid))
        st.lastTransaction()
        return True
    except POSException.POSKeyError:
        return True
    except Exception:
        return False


def run_close_case(rng, tmp):
    """Discarding a pushed layer by close() (directly or through DB.close()) must leave everything below it
    as it was -- same answers, still open, still able to commit; and close() closes the base / the changes
    exactly when the documented flags say so (None: iff the storage was given by the caller)."""
    import ZODB
    d = os.path.join(tmp, 'closecase')
    shutil.rmtree(d, ignore_errors=True)
    os.makedirs(d)
    FAKE.queue = []
    n = [0]
    log = []

    def mk(kind):
        n[0] += 1
        return MappingStorage('m%d' % n[0]) if kind == 'mapping' else FileStorage(
            os.path.join(d, 's%d.fs' % n[0]), create=True)
    bad = None
    opened = []
    try:
        # ---- stacking: push, write, close the pushed layer
        bk, ck1 = rng.choice(['mapping', 'file']), rng.choice(['mapping', 'file'])
        base = mk(bk)
        opened.append(base)
        commit(base, u64(real_tid(UNIT)), [(0, 0, 1), (1, 0, 2)])
        demo1 = DemoStorage(base=base, changes=mk(ck1))
        opened.append(demo1)
        commit(demo1, u64(real_tid(2 * UNIT)), [(1, real_tid(UNIT), 3), (2, 0, 4)])
        k = 2
        stack = [base, demo1]
        depth = rng.choice([1, 1, 2])
        for _ in range(depth):
            top = stack[-1].push(mk(rng.choice(['mapping', 'file'])) if rng.random() < 0.5 else None)
            stack.append(top)
            k += 1
            commit(top, u64(real_tid(k * UNIT)), [(1, top.load(p64(1))[1], 10 + k), (5 + k, 0, 1)])
        snaps = [dump(x) for x in stack[:-1]]
        how = rng.choice(['close', 'db-close'])
        log.append('stack %s/%s depth %d, top discarded by %s' % (bk, ck1, depth, how))
        top = stack.pop()
        if how == 'close':
            top.close()
        else:
            db = ZODB.DB(top)
            db.open().close()
            db.close()
        for i, lower in enumerate(stack):
            name = 'base' if i == 0 else 'demo storage at level %d' % i
            if not is_open(lower):
                bad = 'after closing the pushed layer the %s under it is closed / unreadable' % name
                break
            try:
                if dump(lower) != snaps[i]:
                    bad = 'after closing the pushed layer the %s under it answers differently' % name
                    break
            except Exception as e:
                bad = 'after closing the pushed layer reading the %s raises %s' % (name, type(e).__name__)
                break
        if not bad:
            lower = stack[-1]
            try:
                k += 1
                commit(lower, u64(real_tid(k * UNIT)), [(1, lower.load(p64(1))[1], 99)])
                if data_id(lower.load(p64(1))[0]) != 99:
                    bad = 'commit through the lower demo storage after the close is not read back'
            except Exception as e:
                bad = 'the demo storage under a closed pushed layer cannot commit: %s' % type(e).__name__
            if not bad and dump(base) != snaps[0]:
                bad = 'the base changed'
        # ---- the flags
        if not bad:
            cb = rng.choice([None, True, False])
            cc = rng.choice([None, True, False])
            give_b, give_c = rng.random() < 0.8, rng.random() < 0.7
            b2 = mk(rng.choice(['mapping', 'file'])) if give_b else None
            c2 = mk(rng.choice(['mapping', 'file'])) if give_c else None
            if b2 is not None:
                opened.append(b2)
                commit(b2, u64(real_tid(UNIT)), [(1, 0, 1)])
            if c2 is not None:
                opened.append(c2)
            kw = {}
            if cb is not None:
                kw['close_base_on_close'] = cb
            if cc is not None:
                kw['close_changes_on_close'] = cc
            d2 = DemoStorage(base=b2, changes=c2, **kw)
            commit(d2, u64(real_tid(2 * UNIT)), [(1, (real_tid(UNIT) if give_b else z64), 5)])
            inner_b, inner_c = d2.base, d2.changes
            d2.close()
            want_b = cb if cb is not None else give_b
            want_c = cc if cc is not None else give_c
            log.append('flags close_base_on_close=%r (base given: %s) close_changes_on_close=%r (changes given: %s)'
                       % (cb, give_b, cc, give_c))
            if is_open(inner_b) == want_b:
                bad = ('DemoStorage(base=%s, close_base_on_close=%r).close() left the base %s; documented: %s'
                       % ('<given>' if give_b else None, cb, 'open' if is_open(inner_b) else 'closed',
                          'closed' if want_b else 'open'))
            elif is_open(inner_c) == want_c:
                bad = ('DemoStorage(changes=%s, close_changes_on_close=%r).close() left the changes %s; '
                       'documented: %s' % ('<given>' if give_c else None, cc,
                                           'open' if is_open(inner_c) else 'closed',
                                           'closed' if want_c else 'open'))
    except Exception as e:
        import traceback
        bad = bad or 'close scenario raised %s: %s' % (type(e).__name__, traceback.format_exc()[-500:])
    finally:
        for st in reversed(opened):
            try:
                st.close()
            except Exception:
                pass
        shutil.rmtree(d, ignore_errors=True)
    return bad, log


# ---------------------------------------------------------------- main
def run_case(ck, ops, model_out, tag):
    real, present = run_real(ops, ck.tmp)
    i, bad, w = run_oracle(ops, real, present)
    for op in ops:
        ck.count('op:' + op.split()[0])
    for r in real:
        if r.startswith('err:'):
            ck.count(r)
    return real, present, i, bad, w


def blocks(ops):
    """two-phase-commit groups (begin .. finish/abort) stay together, so that shrinking never produces a
    finish without vote or a begin that would block"""
    out, cur = [], None
    for op in ops:
        c = op.split()[0]
        if cur is not None:
            cur.append(op)
            if c in ('finish', 'abort'):
                out.append(cur)
                cur = None
        elif c == 'begin':
            cur = [op]
        else:
            out.append([op])
    if cur:
        out.append(cur)
    return out


def shrink(ck, ops, sig):
    def flat(bs):
        return [op for b in bs for op in b]

    def fails(sub):
        sub = flat(sub)
        real, present = run_real(sub, ck.tmp)
        i, bad, _ = run_oracle(sub, real, present)
        return i is not None and signature(sub, i, real) == sig
    keep = flat(ddmin(blocks(ops), fails, max_tests=250))
    real, present = run_real(keep, ck.tmp)
    i, bad, _ = run_oracle(keep, real, present)
    if i is None:
        return None
    return keep[:i + 1], real[:i + 1], bad


def main(argv=None):
    ck = Check('C16', argv)
    ck.extra['modules'] = ['Props.C16', 'Drivers.Demo']
    ck.run_gate(ck.extra['modules'], ['Props.C16'])
    install_fake()
    ncases = 100 if not ck.thorough else 3000
    cases = []
    corpus_dir = os.path.join(os.path.dirname(os.path.dirname(os.path.abspath(__file__))), 'corpus', 'C16')
    probes = True
    if ck.replay_path:
        with open(ck.replay_path) as f:
            rep = json.load(f)
        case = rep.get('case') or {}
        if case.get('probe'):
            ncases = 0
            probes = case['probe']
        elif case.get('blob_seed') is not None or case.get('overlap') or case.get('sched_commit') \
                or case.get('close_seed') is not None or case.get('resolve_seed') is not None \
                or case.get('shared_seed') is not None or case.get('sched_alloc'):
            ncases = 0
            probes = False
        else:
            cases = [case['ops']]
            ncases = 0
            probes = False
    else:
        for fn in sorted(os.listdir(corpus_dir)) if os.path.isdir(corpus_dir) else []:
            if fn.endswith('.json'):
                with open(os.path.join(corpus_dir, fn)) as f:
                    cases.append(json.load(f)['ops'])
    for _ in range(ncases):
        cases.append(gen_case(ck.rng, ck.thorough))
    allops = []
    for ops in cases:
        allops += ops
    model_out = run_driver('Demo', allops) if allops else []
    pos = 0
    ordered = 0
    for ops in cases:
        mo = model_out[pos: pos + len(ops)]
        pos += len(ops)
        real, present, i, bad, w = run_case(ck, ops, mo, 'gen')
        nontriv = False
        ww = World()
        for op, r in zip(ops, real):
            if op == 'pop' and ww.nontrivial():
                nontriv = True
            ww.apply(op, r)
        nontriv = nontriv or ww.nontrivial()
        ordered += 1 if w.tid_ordered() else 0
        ck.case(ops, nontriv, sample=dict(ops=[o for o in ops if o.split()[0] not in
                                               ('lb', 'ls', 'hist', 'gt', 'load')][:14]) if nontriv else None)
        if i is not None:
            sig = signature(ops, i, real)
            sm = shrink(ck, ops[:i + 1], sig) if len(ck.violations) < 2 else None
            if sm is None:
                sm = (ops[:i + 1], real[:i + 1], bad)
            ck.violation(sig, sm[2], dict(ops=sm[0], real=sm[1]))
            if len(ck.violations) >= 6:
                break                      # enough evidence; keep the failing run short
        elif real != mo:
            j = [k for k in range(len(ops)) if real[k] != mo[k]][0]
            ck.mismatch('model/impl differ at op %d %r: impl %s model %s' % (j, ops[j], real[j], mo[j]),
                        dict(ops=ops[:j + 1], real=real[j], model=mo[j]))
    # ---- blob files through blob-capable layers
    blob_seeds = []
    if ck.replay_path:
        if (rep.get('case') or {}).get('blob_seed') is not None:
            blob_seeds = [rep['case']['blob_seed']]
    else:
        blob_seeds = [ck.rng.randrange(10 ** 12) for _ in range(30 if not ck.thorough else 600)]
    import random as _random
    for bs in blob_seeds:
        bad, blog = run_blob_case(_random.Random(bs), ck.tmp)
        ck.count('blob:cases')
        ck.case(['blob', blog], True, None)
        if bad:
            ck.violation('C16:blob', bad, dict(blob_seed=bs, log=blog[-12:]))
    # ---- overlapping commits: the gate (deterministic) and scheduler samples
    rcase = (rep.get('case') or {}) if ck.replay_path else {}
    overlap = []
    if rcase.get('overlap'):
        overlap = [rcase['overlap']]
    elif not ck.replay_path:
        overlap = [dict(ckind=c, mode=m, gate_at=g, b=b) for c in ('mapping', 'file') for m in ('step', 'stall')
                   for g in (0, 1, 2) for b in (1, 2)]
    for oc in overlap:
        bad, info = run_overlap_case(ck.rng, ck.tmp, oc['ckind'], oc['mode'], oc['gate_at'], oc.get('b', 1))
        ck.count('overlap:%s:%s' % (oc['ckind'], oc['mode']))
        ck.case(['overlap', info], True, None)
        if bad:
            ck.violation('C16:commit-tid-order', bad, info)
    schedc = []
    if rcase.get('sched_commit'):
        schedc = [rcase['sched_commit']]
    elif not ck.replay_path:
        schedc = [dict(ckind=('mapping', 'file')[i % 2], seed=ck.rng.randrange(10 ** 9), schedule=None)
                  for i in range(40 if not ck.thorough else 1500)]
    for sc in schedc:
        bad, info = run_sched_commit_case(ck.tmp, sc['ckind'], sc['seed'], sc.get('schedule'))
        ck.count('sched-commit:' + sc['ckind'])
        ck.case(['sched-commit', info], True, None)
        if bad:
            ck.violation('C16:commit-tid-order', bad, info)
    scheda = []
    if rcase.get('sched_alloc'):
        scheda = [rcase['sched_alloc']]
    elif not ck.replay_path:
        scheda = [dict(variant=('plain', 'filebase', 'pushed')[i % 3], seed=ck.rng.randrange(10 ** 9), schedule=None)
                  for i in range(30 if not ck.thorough else 900)]
    for sa in scheda:
        bad, info = run_sched_alloc_case(ck.tmp, sa['variant'], sa['seed'], sa.get('schedule'))
        ck.count('sched-alloc:' + sa['variant'])
        ck.case(['sched-alloc', info], True, None)
        if bad:
            ck.violation('C16:concurrent-new-oid', bad, info)
    # ---- conflicts resolved across the layers: merged state stored, tpc_vote reports the oids
    res_seeds = []
    if rcase.get('resolve_seed') is not None:
        res_seeds = [rcase['resolve_seed']]
    elif not ck.replay_path:
        res_seeds = [ck.rng.randrange(10 ** 12) for _ in range(40 if not ck.thorough else 800)]
    for rs in res_seeds:
        bad, rlog = run_resolve_pair(_random.Random(rs), ck.tmp)
        ck.count('resolve-pair:cases')
        ck.case(['resolve-pair', rlog], True, None)
        if bad:
            ck.violation('C16:resolved-conflict', bad, dict(resolve_seed=rs, log=rlog))
        bad, rlog = run_resolve_case(_random.Random(rs), ck.tmp)
        ck.count('resolve:cases')
        ck.case(['resolve', rlog], True, None)
        if bad:
            ck.violation('C16:resolved-conflict', bad, dict(resolve_seed=rs, log=rlog))
    # ---- two demo storages over one shared base
    sb_seeds = []
    if rcase.get('shared_seed') is not None:
        sb_seeds = [rcase['shared_seed']]
    elif not ck.replay_path:
        sb_seeds = [ck.rng.randrange(10 ** 12) for _ in range(30 if not ck.thorough else 600)]
    for ss in sb_seeds:
        bad, slog = run_shared_base_case(_random.Random(ss), ck.tmp)
        ck.count('shared-base:cases')
        ck.case(['shared-base', slog], True, None)
        if bad:
            ck.violation('C16:shared-base', bad, dict(shared_seed=ss, log=slog))
    # ---- close(): pushed layers and the ownership flags
    close_seeds = []
    if rcase.get('close_seed') is not None:
        close_seeds = [rcase['close_seed']]
    elif not ck.replay_path:
        close_seeds = [ck.rng.randrange(10 ** 12) for _ in range(60 if not ck.thorough else 1200)]
    for cs in close_seeds:
        bad, clog = run_close_case(_random.Random(cs), ck.tmp)
        ck.count('close:cases')
        ck.case(['close', clog], True, None)
        if bad:
            ck.violation('C16:close', bad, dict(close_seed=cs, log=clog))
    # ---- excluded points, each on the real code with its own signature
    excluded = {}
    if probes:
        def want(name):
            return probes is True or probes == name

        def guarded(name, fn, *a, **kw):
            """a probe scenario that no longer runs through is itself a behaviour change of the code"""
            try:
                return fn(*a, **kw)
            except InfraError:
                raise
            except Exception as e:
                import traceback
                ck.violation('C16:probe-scenario-failed:' + name,
                             'the scenario of probe %s raised %s: %s' % (name, type(e).__name__, e),
                             dict(probe=name, traceback=traceback.format_exc()[-1500:]))
                return None
        if want('tid-below-base'):
            bad, info = guarded('tid-below-base', probe_tid_below_base, ck.tmp, ck.rng) or (None, {})
            excluded['TidOrdered violated (base ahead of the clock)'] = bad or 'no wrong answer observed'
            ck.count('probe:tid-below-base')
            if bad:
                ck.violation('C16:demo-tid-below-base', bad, dict(probe='tid-below-base', **info))
        if want('tid-below-base-explicit-none'):
            bad, info = guarded('tid-below-base-explicit-none', probe_tid_below_base, ck.tmp, ck.rng,
                                explicit_none=True) or (None, {})
            excluded['TidOrdered violated (base ahead of the clock, tpc_begin(txn, None))'] = \
                bad or 'no wrong answer observed'
            ck.count('probe:tid-below-base-explicit-none')
            if bad:
                ck.violation('C16:demo-tid-below-base-explicit-none', 'tpc_begin(txn, None): ' + bad,
                             dict(probe='tid-below-base-explicit-none', **info))
        if want('undo-over-base'):
            a, b = guarded('undo-over-base', probe_undo_over_base, ck.tmp, ck.rng) or (None, None)
            excluded['un-creation written over a base object (undo of its first change)'] = [a, b]
            ck.count('probe:undo-over-base')
            if a:
                ck.violation('C16:undo-over-base-loadbefore', a, dict(probe='undo-over-base'))
            if b:
                ck.violation('C16:undo-over-base-unwritable', b, dict(probe='undo-over-base'))
        if want('pack-temp'):
            # not modelled (gc pack of the implicit MappingStorage changes knows nothing about the base): on
            # the repaired tree it raises KeyError on the first base-only oid and loses nothing; reads at
            # and after the pack time are compared, an exception alone is only noted
            bad, note = guarded('pack-temp', probe_pack_temp, ck.tmp, ck.rng) or (None, 'scenario failed')
            excluded['pack through a demo storage with implicit (temporary) changes over a non-empty base'] = \
                bad or ('reads unchanged (%s)' % note)
            ck.count('probe:pack-temp:' + ('lost' if bad else note.split('(')[0].strip().replace(' ', '-')))
            if bad:
                ck.violation('C16:pack-temporary-changes-loses-data', bad, dict(probe='pack-temp'))
        if want('uncreated-reissue'):
            bad = guarded('uncreated-reissue', probe_uncreated_reissue, ck.tmp, ck.rng)
            excluded['adversarial draw proposing an oid whose newest record is an un-creation'] = \
                bad or 'no wrong answer observed'
            ck.count('probe:uncreated-reissue')
            if bad:
                ck.violation('C16:new-oid-uncreated-reissued', bad, dict(probe='uncreated-reissue'))
    ck.extra['coverage'] = dict(
        tid_ordered_satisfaction='%d/%d generated cases' % (ordered, len(cases)),
        excluded_points=excluded)
    ck.finish(
        rule='seeded base histories x histories applied through DemoStorage stacks (base kinds mapping/file/'
             'blob, changes kinds mapping/file/blob/implicit, depth 1-3, pop and continue); non-trivial = an '
             'oid has revisions in two different layers of a stack at some point of the executed trace; '
             'distinct by hash of the op list',
        assumptions=[
            'TidOrdered (every changes tid above every tid below): satisfied by construction in the generated '
            'stream (explicit tids); the excluded point runs as probe tid-below-base',
            'an un-creation record is only written into the changes for an oid unknown below (excluded point: '
            'probe undo-over-base)',
            'pack through a demo storage only with explicitly given changes (gc=False path); excluded point: '
            'probe pack-temp',
            'new_oid draw streams never propose an oid whose newest record is an un-creation (probe '
            'uncreated-reissue)',
            'ORACLE-ONLY sections (real code vs a Python oracle, not in the Lean model): blob files through '
            'blob-capable layers incl. BlobStorage proxies; overlapping commits (gate + scheduler); close() ownership; '
            'resolved conflicts (PCounter) incl. two storages interleaved; two demo storages over one shared base; '
            'concurrent new_oid callers (scheduler, line-granular); undoLog/undoInfo membership and len()/'
            'tpc_transaction()/supportsUndo are compared with the model but have no oracle opinion beyond membership',
            'storage kinds: MappingStorage, FileStorage (plain / blob_dir), HexStorage-wrapped, built from ZODB.config '
            'sections (changes alone, or the whole <demostorage> over the closed and reopened base file)',
            'main-stream conflict stores use an unresolvable class (MinPO); pickles are MinPO without references',
            'history compared on tids only; loadBefore None and POSKeyError are both "no revision visible" '
            'for the oracle (the model distinguishes them exactly)'])


if __name__ == '__main__':
    try:
        main()
    except InfraError as e:
        print('INFRA-ERROR', e)
        sys.exit(2)
