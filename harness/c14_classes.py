"""Importable persistent classes for the C14 check (harness/c14.py).

Node      plain Persistent subclass                      -> referenced as (oid, class)
NodeNA    class with constructor arguments               -> referenced by bare oid, record meta (class, args)
c14_gone  a module that exists only in sys.modules; `hide_gone()` makes its classes unimportable, so
          records written with them load as ZODB.broken.PersistentBroken placeholders.
"""
import sys
import types
import weakref

from persistent import Persistent


class Node(Persistent):
    pass


NEW_ARGS = weakref.WeakKeyDictionary()      # object -> the arguments its __new__ was called with


class NodeNA(Persistent):
    def __new__(cls, *args):
        self = Persistent.__new__(cls)
        NEW_ARGS[self] = args
        return self

    def __getnewargs__(self):
        return self.__dict__.get('_v_na', ())


_gone = types.ModuleType('c14_gone')


class Gone(Persistent):
    pass


class GoneNA(Persistent):
    def __new__(cls, *args):
        self = Persistent.__new__(cls)
        NEW_ARGS[self] = args
        return self

    def __getnewargs__(self):
        return self.__dict__.get('_v_na', ())


for _c in (Gone, GoneNA):
    _c.__module__ = 'c14_gone'
    setattr(_gone, _c.__name__, _c)


def show_gone():
    sys.modules['c14_gone'] = _gone


def hide_gone():
    sys.modules.pop('c14_gone', None)


show_gone()
