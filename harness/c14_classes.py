"""Importable persistent classes for the C14 check (harness/c14.py).

Node      plain Persistent subclass                      -> referenced as (oid, class)
NodeNA    class with constructor arguments               -> referenced by bare oid, record meta (class, args)
c14_gone  a module (c14_gone_src/c14_gone.py, not on sys.path) imported once by path; `hide_gone()` makes
          its classes unimportable, so records written with them load as ZODB.broken.PersistentBroken
          placeholders; `importable_gone()` makes it importable again without importing it.
"""
import copyreg
import importlib
import os
import sys
import weakref

from persistent import Persistent


class Node(Persistent):
    pass


NEW_ARGS = weakref.WeakKeyDictionary()      # object -> the arguments its __new__ was called with


class NodeNA(Persistent):
    def __new__(cls, *args):
        self = Persistent.__new__(cls)
        NEW_ARGS[self] = args
        return self

    def __getnewargs__(self):
        return self.__dict__.get('_v_na', ())


INIT_CALLS = [0]


class NodeInit(Persistent):
    """__init__ needs an argument and has a side effect: loading must never run it"""

    def __init__(self, required):
        INIT_CALLS[0] += 1
        self.required = required


class NodeTupleState(Persistent):
    """__getstate__ does not return a dict"""

    def __getstate__(self):
        return (dict((k, v) for k, v in self.__dict__.items() if not k.startswith(('_p_', '_v_'))),)

    def __setstate__(self, state):
        self.__dict__.clear()
        self.__dict__.update(state[0])


class NodeSlots(Persistent):
    """no __dict__: the state is (None, {slot: value})"""
    __slots__ = ('s', 'f0', 'f1', 'f2', 'f3', 'g', 'v')


class NodeNAEx(Persistent):
    """__getnewargs_ex__ (ZODB looks at __getnewargs__ only)"""

    def __getnewargs_ex__(self):
        return ((), {})


class NodeRes(Persistent):
    """resolves write conflicts (the storage re-pickles the resolved state, references included)"""

    def _p_resolveConflict(self, old, saved, new):
        return new


class Plain:
    """non-persistent, pickled by value inside its holder's record"""


class PlainSlots:
    __slots__ = ('a', 'b')


class PlainReduce:
    def __init__(self, x, y):
        self.x, self.y = x, y

    def __reduce__(self):
        return (PlainReduce, (self.x, self.y))


class PlainCopyreg:
    def __init__(self, x, y):
        self.x, self.y = x, y


copyreg.pickle(PlainCopyreg, lambda o: (PlainCopyreg, (o.x, o.y)))


class NodeNASub(NodeNA):
    """inherits __getnewargs__ (hasattr(klass, '__getnewargs__'), not in klass.__dict__)"""


GONE_DIR = os.path.join(os.path.dirname(os.path.abspath(__file__)), 'c14_gone_src')
sys.path.insert(0, GONE_DIR)
try:
    import c14_gone as _gone        # noqa: E402  (needs NEW_ARGS above)
finally:
    sys.path.remove(GONE_DIR)
Gone, GoneNA, PlainGone, PlainGoneFalsy = _gone.Gone, _gone.GoneNA, _gone.PlainGone, _gone.PlainGoneFalsy


def show_gone():
    """the classes are imported (the module object all test objects were made from)"""
    if GONE_DIR in sys.path:
        sys.path.remove(GONE_DIR)
    sys.modules['c14_gone'] = _gone
    importlib.invalidate_caches()


def hide_gone():
    """the classes cannot be imported"""
    if GONE_DIR in sys.path:
        sys.path.remove(GONE_DIR)
    sys.modules.pop('c14_gone', None)
    importlib.invalidate_caches()


def importable_gone():
    """the module can be imported again, but nobody has imported it yet"""
    sys.modules.pop('c14_gone', None)
    if GONE_DIR not in sys.path:
        sys.path.insert(0, GONE_DIR)
    importlib.invalidate_caches()


show_gone()
