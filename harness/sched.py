"""Deterministic scheduler for real threads at lock-operation and file-I/O granularity.

`ZODB.utils.Lock/RLock/Condition` (and the `Lock` name imported by `ZODB.mvccadapter`) are replaced
by scheduler-aware classes; threads spawned through a `Scheduler` run ONE AT A TIME and hand control
back at every lock operation (and at every VFS operation when `vfs.Recorder.on_event` is wired to
`yield_point`).  A schedule is the list of choices (index into the sorted list of enabled threads)
taken at the yield points; it is drawn from a seeded PRNG or replayed from a list, so every run
replays exactly.  Deadlock = no enabled thread while some thread is unfinished.

Usage:
    import sched
    with sched.installed():                 # BEFORE creating storages / DBs
        db = ZODB.DB(MappingStorage())
        s = sched.Scheduler(seed=3)         # or Scheduler(schedule=[0,1,0,...])
        s.spawn('w', writer_fn); s.spawn('r', reader_fn)
        res = s.run()                       # {'events':[(thread,kind,label)], 'decisions':[...],
                                            #  'deadlock': bool, 'errors': {thread: exc}, 'steps': n}
Locks created while installed but used outside `run()` (set-up code in the main thread) behave as
ordinary uncontended locks.  Active only inside the harness process (guard ZODB_VERIF=1).
"""
import contextlib
import random
import sys
import threading

_current = None          # the Scheduler whose run() is in progress


class Deadlock(BaseException):
    """raised inside a blocked thread when the scheduler found a deadlock (unwinds the thread)"""


class _T:
    def __init__(self, name, fn, args):
        self.name, self.fn, self.args = name, fn, args
        self.sem = threading.Semaphore(0)
        self.done = False
        self.waiting_for = None      # lock object the thread wants
        self.cond_wait = None        # (cond, notified:list[bool], timed:bool)
        self.error = None
        self.result = None
        self.thread = None
        self.kill = False


def _site(depth=2):
    f = sys._getframe(depth)
    fn = f.f_code.co_filename
    for marker in ('/ZODB/', '/harness/'):
        if marker in fn:
            fn = fn.split(marker, 1)[1]
            break
    return '%s:%d' % (fn, f.f_lineno)


class SLock:
    reentrant = False

    def __init__(self):
        self.owner = None
        self.count = 0
        self.role = _site()

    # -- helpers
    def _me(self):
        s = _current
        if s is not None and not s.deadlock:
            t = s.by_ident.get(threading.get_ident())
            if t is not None:
                return s, t
        return None, None

    def _free_for(self, who):
        return self.owner is None or (self.reentrant and self.owner is who)

    def acquire(self, blocking=True, timeout=-1):
        s, t = self._me()
        who = t if t is not None else 'main'
        if s is None or t is None:
            if not self._free_for(who):
                if not blocking:
                    return False
                raise RuntimeError('lock %s would block outside the scheduler' % self.role)
            self.owner, self.count = who, self.count + 1
            return True
        s.yield_point('acquire', self.role)
        if not self._free_for(t):
            if not blocking:
                s.log(t, 'acquire-fail', self.role)
                return False
            t.waiting_for = self
            s.log(t, 'block', self.role)
            s.switch(t)                      # returns when we are chosen and the lock is free
            t.waiting_for = None
        self.owner, self.count = t, self.count + 1
        s.log(t, 'acquired', self.role)
        return True

    def release(self):
        s, t = self._me()
        who = t if t is not None else 'main'
        if self.owner is None or (self.reentrant and self.owner is not who):
            raise RuntimeError('release of un-acquired lock %s' % self.role)
        self.count -= 1
        if self.count == 0 or not self.reentrant:
            self.owner, self.count = None, 0
        if s is not None and t is not None:
            s.log(t, 'release', self.role)
            s.yield_point('released', self.role)

    def locked(self):
        return self.owner is not None

    def __enter__(self):
        self.acquire()
        return self

    def __exit__(self, *a):
        self.release()


class SRLock(SLock):
    reentrant = True

    def __init__(self):
        SLock.__init__(self)
        self.role = _site()

    # threading.Condition protocol helpers
    def _release_save(self):
        st = (self.owner, self.count)
        self.owner, self.count = None, 0
        return st

    def _acquire_restore(self, st):
        self.owner, self.count = st


class SCondition:
    def __init__(self, lock=None):
        self._lock = lock if lock is not None else SRLock()
        self.role = _site()
        self._lock.role = self.role
        self.waiters = []

    def acquire(self, *a, **kw):
        return self._lock.acquire(*a, **kw)

    def release(self):
        return self._lock.release()

    def __enter__(self):
        self._lock.acquire()
        return self

    def __exit__(self, *a):
        self._lock.release()

    def wait(self, timeout=None):
        s, t = self._lock._me()
        if s is None or t is None:
            raise RuntimeError('Condition.wait outside the scheduler at %s' % self.role)
        flag = [False]
        self.waiters.append(flag)
        st = self._lock._release_save()
        t.cond_wait = (self, flag, timeout is not None)
        s.log(t, 'wait', self.role)
        s.switch(t)                          # returns when notified (or timed out on deadlock) …
        t.cond_wait = None
        if flag in self.waiters:
            self.waiters.remove(flag)
        if not self._lock._free_for(t):      # … then re-acquire the lock
            t.waiting_for = self._lock
            s.switch(t)
            t.waiting_for = None
        self._lock._acquire_restore((t, st[1]))
        s.log(t, 'woke', self.role)
        return flag[0]

    def wait_for(self, predicate, timeout=None):
        r = predicate()
        while not r:
            self.wait(timeout)
            r = predicate()
        return r

    def notify(self, n=1):
        s, t = self._lock._me()
        for flag in self.waiters[:n]:
            flag[0] = True
        del self.waiters[:n]
        if s is not None and t is not None:
            s.log(t, 'notify', self.role)

    def notify_all(self):
        self.notify(len(self.waiters))

    notifyAll = notify_all


class Scheduler:
    def __init__(self, seed=0, schedule=None, mode='random', stickiness=0.0, max_steps=200000):
        self.rng = random.Random(seed)
        self.schedule = list(schedule) if schedule is not None else None
        self.mode, self.stickiness, self.max_steps = mode, stickiness, max_steps
        self.threads = []
        self.by_ident = {}
        self.events = []
        self.decisions = []
        self.deadlock = False
        self.steps = 0
        self.main_sem = threading.Semaphore(0)
        self.hooks = []           # callables (thread_name, kind, label) invoked at each logged event

    # ---- public
    def spawn(self, name, fn, *args):
        self.threads.append(_T(name, fn, args))

    def log(self, t, kind, label):
        self.events.append((t.name, kind, label))
        for h in self.hooks:
            h(t.name, kind, label)

    def run(self, timeout=120):
        global _current
        if _current is not None:
            raise RuntimeError('nested scheduler run')
        _current = self
        try:
            for t in self.threads:
                th = threading.Thread(target=self._body, args=(t,), daemon=True, name='sched-' + t.name)
                t.thread = th
                th.start()
            # every thread first parks on its semaphore; start the first one
            self._dispatch(None)
            if not self.main_sem.acquire(timeout=timeout):
                self.deadlock = True
                self.timed_out = True
                for t in self.threads:      # unwind whatever is parked
                    t.kill = True
                    t.sem.release()
            for t in self.threads:
                t.thread.join(5)
        finally:
            _current = None
        return dict(events=self.events, decisions=self.decisions, deadlock=self.deadlock,
                    errors={t.name: t.error for t in self.threads if t.error is not None},
                    results={t.name: t.result for t in self.threads}, steps=self.steps)

    def yield_point(self, kind, label=''):
        """hand control to the scheduler; returns when this thread is chosen again"""
        t = self.by_ident.get(threading.get_ident())
        if t is None or _current is not self or self.deadlock:
            return
        self.log(t, kind, label)
        self.switch(t)

    # ---- internals
    def _body(self, t):
        self.by_ident[threading.get_ident()] = t
        t.sem.acquire()
        try:
            if t.kill:
                raise Deadlock()
            t.result = t.fn(*t.args)
        except Deadlock:
            t.error = 'Deadlock'
        except BaseException as e:      # noqa: B902
            t.error = e
        finally:
            t.done = True
            self.by_ident.pop(threading.get_ident(), None)
            self._dispatch(t)

    def _enabled(self, t):
        if t.done:
            return False
        if t.cond_wait is not None:
            return t.cond_wait[1][0]
        if t.waiting_for is not None:
            return t.waiting_for._free_for(t)
        return True

    def _choose(self, cur):
        en = [t for t in self.threads if self._enabled(t)]
        if not en:
            # let one timed Condition.wait expire before declaring a deadlock
            timed = [t for t in self.threads if not t.done and t.cond_wait is not None and t.cond_wait[2]]
            if timed:
                return timed[0]
            return None
        self.steps += 1
        if self.steps > self.max_steps:
            return None
        if self.schedule is not None:
            if self.schedule:
                i = self.schedule.pop(0) % len(en)
            else:
                i = en.index(cur) if cur in en else 0
        elif cur in en and self.stickiness and self.rng.random() < self.stickiness:
            i = en.index(cur)
        else:
            i = self.rng.randrange(len(en))
        self.decisions.append(i)
        return en[i]

    def _dispatch(self, cur):
        """pick the next thread and wake it (cur is finishing or None)"""
        nxt = self._choose(cur)
        if nxt is None:
            if any(not t.done for t in self.threads):
                self.deadlock = True
                for t in self.threads:
                    if not t.done:
                        t.kill = True
                        t.sem.release()
                return
            self.main_sem.release()
            return
        nxt.sem.release()

    def switch(self, t):
        """called by running thread t at a yield/block point"""
        nxt = self._choose(t)
        if nxt is t:
            return
        if nxt is None:
            self.deadlock = True
            for o in self.threads:
                if not o.done and o is not t:
                    o.kill = True
                    o.sem.release()
            raise Deadlock()
        nxt.sem.release()
        t.sem.acquire()
        if t.kill:
            raise Deadlock()


@contextlib.contextmanager
def installed():
    """Rebind ZODB's lock classes to the scheduler-aware ones (restore on exit)."""
    import ZODB.utils
    import ZODB.mvccadapter
    saved = (ZODB.utils.Lock, ZODB.utils.RLock, ZODB.utils.Condition, ZODB.mvccadapter.Lock)
    ZODB.utils.Lock, ZODB.utils.RLock, ZODB.utils.Condition = SLock, SRLock, SCondition
    ZODB.mvccadapter.Lock = SLock
    try:
        yield
    finally:
        (ZODB.utils.Lock, ZODB.utils.RLock, ZODB.utils.Condition, ZODB.mvccadapter.Lock) = saved


def vfs_hook(recorder):
    """make every recorded VFS operation of a scheduled thread a yield point"""
    def on_event(ev):
        s = _current
        if s is not None:
            s.yield_point('io', '%s %s' % (ev[0], ev[1] if len(ev) > 1 else ''))
    recorder.on_event = on_event
