"""Translator for constants: parses /repo's source with `ast` on every run and writes
lean/ZodbModel/Generated.lean.  Props/Tie.lean proves that each extracted constant equals the one
the hand-written model uses, so a changed constant breaks a proof obligation.
A constant whose source pattern is not found any more (refactoring) is emitted as `none`; the tie
for it is then vacuous and the correspondence check alone carries the link (recorded in evidence).
"""
import ast
import os
import struct


def _parse(repo, rel):
    with open(os.path.join(repo, 'src', 'ZODB', rel)) as f:
        return ast.parse(f.read())


def _module_assigns(tree):
    out = {}
    for node in tree.body:
        if isinstance(node, ast.Assign) and len(node.targets) == 1 and \
                isinstance(node.targets[0], ast.Name):
            try:
                out[node.targets[0].id] = ast.literal_eval(node.value)
            except Exception:
                pass
    return out


def _func(tree, name, cls=None):
    for node in ast.walk(tree):
        if cls and isinstance(node, ast.ClassDef) and node.name == cls:
            for n in node.body:
                if isinstance(n, ast.FunctionDef) and n.name == name:
                    return n
        if not cls and isinstance(node, ast.FunctionDef) and node.name == name:
            return node
    return None


def _first_slice_bound(fn, which):
    """first constant slice bound of kind 'lower'/'upper' found in the function"""
    if fn is None:
        return None
    for node in ast.walk(fn):
        if isinstance(node, ast.Subscript) and isinstance(node.slice, ast.Slice):
            b = getattr(node.slice, which)
            if isinstance(b, ast.Constant) and isinstance(b.value, int):
                return b.value
    return None


def _struct_size(fmt):
    try:
        return struct.calcsize(fmt)
    except Exception:
        return None


def extract(repo):
    c = {}
    # ---- fsIndex -------------------------------------------------------------------------
    try:
        t = _parse(repo, 'fsIndex.py')
        lo = _first_slice_bound(_func(t, 'num2str'), 'lower')
        c['fsIndexValueBytes'] = None if lo is None else 8 - lo
        c['fsIndexPrefixBytes'] = _first_slice_bound(_func(t, '__getitem__', 'fsIndex'), 'upper')
    except Exception:
        c['fsIndexValueBytes'] = c['fsIndexPrefixBytes'] = None
    # ---- FileStorage format --------------------------------------------------------------
    try:
        t = _parse(repo, os.path.join('FileStorage', 'format.py'))
        a = _module_assigns(t)
        c['transHdrLen'] = a.get('TRANS_HDR_LEN')
        c['dataHdrLen'] = a.get('DATA_HDR_LEN')
        c['transHdrStructLen'] = _struct_size(a['TRANS_HDR']) if 'TRANS_HDR' in a else None
        c['dataHdrStructLen'] = _struct_size(a['DATA_HDR']) if 'DATA_HDR' in a else None
        ms = None
        for node in ast.walk(t):
            if isinstance(node, ast.ClassDef) and node.name == 'FileStorageFormatter':
                for n in node.body:
                    if isinstance(n, ast.Assign) and getattr(n.targets[0], 'id', '') == '_metadata_size':
                        ms = ast.literal_eval(n.value)
        c['metadataSize'] = ms
    except Exception:
        for k in ('transHdrLen', 'dataHdrLen', 'transHdrStructLen', 'dataHdrStructLen', 'metadataSize'):
            c.setdefault(k, None)
    # ---- more constants the models rely on (magic, sanity thresholds, fsrecover window) ------
    try:
        t = _parse(repo, '_compat.py')
        a = _module_assigns(t)
        m = a.get('FILESTORAGE_MAGIC')
        c['magicAsNat'] = int.from_bytes(m, 'big') if isinstance(m, bytes) and len(m) == 4 else None
    except Exception:
        c['magicAsNat'] = None
    try:
        t = _parse(repo, os.path.join('FileStorage', 'FileStorage.py'))
        fn = _func(t, '_check_sanity', 'FileStorage')
        mc = minpos = None
        for node in ast.walk(fn) if fn else []:
            if isinstance(node, ast.Assign) and getattr(node.targets[0], 'id', '') == 'max_checked':
                mc = ast.literal_eval(node.value)
            if (minpos is None and isinstance(node, ast.Compare) and isinstance(node.left, ast.Name)
                    and node.left.id == 'pos' and isinstance(node.ops[0], ast.Lt)
                    and isinstance(node.comparators[0], ast.Constant)):
                minpos = node.comparators[0].value       # first `pos < N` test: the `pos < 100` guard
        c['sanityMaxChecked'] = mc
        c['sanityMinPos'] = minpos
    except Exception:
        c['sanityMaxChecked'] = c['sanityMinPos'] = None
    try:
        t = _parse(repo, 'fsrecover.py')
        fn = _func(t, 'scan')
        w = None
        for node in ast.walk(fn) if fn else []:
            if (isinstance(node, ast.Call) and isinstance(node.func, ast.Attribute) and node.func.attr == 'read'
                    and node.args and isinstance(node.args[0], ast.Constant)):
                w = node.args[0].value
        c['recoverScanWindow'] = w
    except Exception:
        c['recoverScanWindow'] = None
    return c


def generate(repo):
    c = extract(repo)
    lines = ['/- GENERATED by harness/extract.py from /repo on every run — do not edit. -/',
             'namespace ZodbModel.Generated', '']
    for k in sorted(c):
        v = c[k]
        if isinstance(v, int) and not isinstance(v, bool):
            lines.append('def %s : Option Nat := some %d' % (k, v))
        else:
            lines.append('def %s : Option Nat := none' % k)
    lines += ['', 'end ZodbModel.Generated', '']
    return '\n'.join(lines), c


if __name__ == '__main__':
    import sys
    print(generate(sys.argv[1] if len(sys.argv) > 1 else '/repo')[0])
