"""C05 — A transaction that does not finish leaves no trace and blocks no one.

Correspondence + direct oracle.  For every generated history the REAL storage (FileStorage with and
without blob_dir under the recording/fault-injecting VFS, MappingStorage, BlobStorage(MappingStorage),
BlobStorage(FileStorage) — the wrapper over an undo-capable storage, with undo victims —,
DemoStorage(base, changes in {MappingStorage, FileStorage})) is driven through committed
transactions and *victim* transactions.  A victim is first run once to count its raw file
operations, then re-run once per fault index k (and with partial writes), and once per logical
failure kind (abort after begin / after each store / after vote = a foreign participant's failing
vote, over-long user / description / extension, conflict, quota, calls with a foreign transaction
at every phase, a failing second resource manager through transaction.commit() on a Connection).

Generalisation pass: 15 storage stacks (FileStorage with / without blob_dir, built directly with default
and non-default options or by ZODB.config; the BlobStorage wrapper with bushy / lawn layout over FileStorage,
MappingStorage, HexStorage(FileStorage) and DemoStorage; HexStorage over File / File+blobs / Mapping;
DemoStorage over Mapping / File, pushed, and the default DemoStorage() with on-demand blobs; an instance of
the natively multi-version MVCCMappingStorage with a sibling instance alive) — those the Lean model does
not follow are under the real-code oracle only; victims use every entry point (store, storeBlob, restore /
restoreBlob with and without back-pointer hint, deleteObject, undo incl. partly failing,
checkCurrentSerialInTransaction, new_oid), may be empty or larger than 64 KiB right after a larger one;
calls that come too early (abort / store / vote / finish before begin) and a repeated abort; a second
storage of the same kind runs whole transactions between the victim's steps; at the end the storage is
closed and reopened with the saved index and by scan.

A further fault family hits the ABORT ITSELF (the truncate of an abort after a vote, the truncate of the
vote's except path after a failed write, the removal of a blob file): nothing can be restored then, the
oracle is "blocks no one" — the call raises, every commit lock is free, the next transaction begins,
commits and is readable through a newly opened reader handle.

Direct oracle (independent of the Lean model): everything observable BEFORE the victim began equals
everything observable AFTER the mandated tpc_abort — directory bytes, every query answer, the
in-memory position/last-tid/index, staging empty, lock free — and then the next transaction, run
in a worker thread with a timeout, begins, commits and is readable.
Model side: the same calls go to Drivers/TwoPC.lean; its outputs (error kind per call, class of the
call's raw data-file operations, canonical observation at every idle point) are diffed with the
real run."""
import json
import logging
import os
import shutil
import struct
import sys
import threading

sys.path.insert(0, os.path.dirname(os.path.abspath(__file__)))
from common import Check, InfraError, run_driver, ddmin  # noqa: E402
import vfs  # noqa: E402

logging.disable(logging.CRITICAL)
import warnings  # noqa: E402
warnings.filterwarnings('ignore', category=UserWarning, module='ZODB.Connection')

T0 = 0x03D0000000000000          # tids of the storage under test start here
BASE_T0 = 0x03A0000000000000     # tids of a demo storage's base
NEXT_OID = 900                   # oid written by the "next transaction" probe
FOREIGN = 999999                 # model id of the foreign transaction
TIMEOUT = 8.0
STEP_TIMEOUT = 15.0              # a whole scenario / commit step that does not return within this bound is blocked
KINDS = ['file', 'fileblob', 'mapping', 'blobmapping', 'demofile', 'demomapping', 'blobfile',
         'hexfile', 'demopushed', 'mvccmapping', 'blobhexfile', 'hexfileblob', 'blobdemofile', 'hexmapping',
         'demodefault']
# kinds the Lean model does not follow (record transform, instances, wrapper stacks): real-code oracle only
ORACLE_ONLY_KINDS = ('hexfile', 'hexfileblob', 'blobhexfile', 'hexmapping', 'mvccmapping', 'blobdemofile',
                     'demodefault')
FILE_KINDS = ('file', 'fileblob', 'blobfile', 'hexfile', 'hexfileblob', 'blobhexfile')        # st is file based
FS_KINDS = FILE_KINDS + ('demofile', 'demopushed', 'blobdemofile')                             # a FileStorage below
BLOB_KINDS = ('fileblob', 'blobmapping', 'blobfile', 'hexfileblob', 'blobhexfile', 'blobdemofile', 'demodefault')
BUDDY_KINDS = ('file', 'fileblob', 'mapping', 'blobmapping', 'demofile', 'blobfile', 'hexfile', 'demomapping')
STAGING_UNMODELLED = ('undo', 'restore', 'restoreblob')      # ops that stage records the model does not know


def p64(n):
    return struct.pack('>Q', n)


def u64(b):
    return struct.unpack('>Q', b)[0]


def payload(dlen, tag):
    return bytes([tag]) * dlen


_safe = []


def safe_tags():
    """payload bytes that ConflictError's constructor (get_pickle_metadata) digests without raising —
    `b'c…'` (a truncated GLOBAL opcode) makes it raise ValueError, which is about garbage pickles,
    not about this property"""
    if not _safe:
        from ZODB.utils import get_pickle_metadata
        for tag in range(1, 200):
            try:
                for n in (1, 2, 5, 100):
                    get_pickle_metadata(bytes([tag]) * n)
                _safe.append(tag)
            except Exception:
                pass
    return _safe


def tag_of(data):
    return data[0] if data else 0


# ---------------------------------------------------------------------------- real environment
class Env:
    """one real storage under test + bookkeeping shared by the real run and the model lines"""

    def __init__(self, kind, quota, base, root, opts=None, parent=None):
        from ZODB.Connection import TransactionMetaData
        self.TMD = TransactionMetaData
        self.kind, self.quota, self.root = kind, quota, root
        self.opts = opts or {}
        self.parent = parent
        if parent is None:
            self.rec = vfs.Recorder(root)
            self.cm = vfs.install(self.rec)
            self.cm.__enter__()
            # ZODB.blob binds `remove_committed = os.remove` at import time, out of the VFS's reach: route
            # it through os.remove as it is NOW (the recording one), for the lifetime of this environment
            self.blobmod = sys.modules.get('ZODB.blob') or __import__('ZODB.blob').blob
            self.saved_remove = self.blobmod.remove_committed
            self.blobmod.remove_committed = lambda path: os.remove(path)
        else:
            self.rec = parent.rec       # a second storage of the same kind alive in the same process
        self.base = (base or []) if kind != 'demodefault' else []
        self.basest = None
        self.build(first=True)
        self.txn_objs = {}
        self.next_t = 1 if parent is None else 500001
        self.next_tid = (T0 if parent is None else T0 + 2 ** 40) + 16
        self.cur = {}              # oid -> committed tid in the storage under test (harness bookkeeping)
        for oid, tid in self.base:
            self.cur[oid] = tid
        self.alltids = []
        self.oids = set(o for o, _ in self.base)
        self.dead = False
        self.last_user_tid = None  # newest committed transaction that is not a lock probe (undo target)
        self.user_tids = []        # all of them, oldest first
        self.deleted = set()       # oids whose current committed record is a deletion (not loadable)
        self.buddy = None
        if self.opts.get('buddy') and parent is None and kind in BUDDY_KINDS:
            broot = os.path.join(root, 'buddy')
            os.makedirs(broot)
            self.buddy = Env(kind, None, base, broot, dict(self.opts, buddy=False), parent=self)

    def build(self, first):
        """(re)construct the storage stack of this kind over the files in self.root"""
        from ZODB.FileStorage import FileStorage
        from ZODB.MappingStorage import MappingStorage
        from ZODB.DemoStorage import DemoStorage
        from ZODB.blob import BlobStorage
        from ZODB.tests.hexstorage import HexStorage
        kind, root, quota, opts = self.kind, self.root, self.quota, self.opts
        fsname = os.path.join(root, 'Data.fs')
        blobdir = os.path.join(root, 'blobs')
        self.fs = None            # the FileStorage whose files live in root (if any)
        self.blobdir = None
        self.demo = None
        self.wrapper = None       # a BlobStorage wrapper (it has dirty_oids of its own)
        self.changes = None
        layout = opts.get('layout', 'automatic')

        def filestorage(blob=False):
            kw = dict(quota=quota)
            if blob:
                kw['blob_dir'] = blobdir
            if opts.get('via') == 'config':
                import ZODB.config
                cfg = '<filestorage>\n path %s\n pack-gc %s\n pack-keep-old %s\n' % (
                    fsname, opts.get('pack_gc', 'false'), opts.get('pack_keep_old', 'true'))
                if quota is not None:
                    cfg += ' quota %d\n' % quota
                if blob:
                    cfg += ' blob-dir %s\n' % blobdir
                return ZODB.config.storageFromString(cfg + '</filestorage>\n')
            if opts.get('fileopts'):
                kw.update(pack_gc=False, pack_keep_old=False, create=first)
            return FileStorage(fsname, **kw)

        def mapping(name='MappingStorage'):
            if opts.get('via') == 'config':
                import ZODB.config
                return ZODB.config.storageFromString('<mappingstorage>\n name %s\n</mappingstorage>\n' % name)
            return MappingStorage(name)

        def basestorage():
            if self.basest is None:
                b = MappingStorage('base')
                for i, (oid, tid) in enumerate(self.base):
                    t = self.TMD()
                    b.tpc_begin(t, p64(tid))
                    b.store(p64(oid), b'\0' * 8, payload(11, 200 + i % 40), '', t)
                    b.tpc_vote(t)
                    b.tpc_finish(t)
                self.basest = b
            return self.basest

        if kind in ('file', 'fileblob'):
            self.fs = filestorage(kind == 'fileblob')
            self.st = self.fs
            self.blobdir = blobdir if kind == 'fileblob' else None
        elif kind == 'blobfile':
            # the BlobStorage WRAPPER over an undo-capable storage without blob support of its own
            self.fs = filestorage()
            self.st = self.wrapper = BlobStorage(blobdir, self.fs, layout=layout)
            self.blobdir = blobdir
        elif kind in ('hexfile', 'hexfileblob'):
            self.fs = filestorage(kind == 'hexfileblob')
            self.st = HexStorage(self.fs)
            self.blobdir = blobdir if kind == 'hexfileblob' else None
        elif kind == 'blobhexfile':
            self.fs = filestorage()
            self.st = self.wrapper = BlobStorage(blobdir, HexStorage(self.fs), layout=layout)
            self.blobdir = blobdir
        elif kind == 'mapping':
            self.st = mapping()
        elif kind == 'hexmapping':
            self.changes = mapping()
            self.st = HexStorage(self.changes)
        elif kind == 'mvccmapping':
            # one instance of a natively multi-version storage commits, a sibling instance stays alive
            from ZODB.tests.MVCCMappingStorage import MVCCMappingStorage
            self.mvcc_main = MVCCMappingStorage()
            self.mvcc_sibling = self.mvcc_main.new_instance()
            self.st = self.mvcc_main.new_instance()
        elif kind == 'blobmapping':
            self.changes = mapping()
            self.st = self.wrapper = BlobStorage(blobdir, self.changes, layout=layout)
            self.blobdir = blobdir
        elif kind in ('demofile', 'demomapping', 'demopushed', 'blobdemofile'):
            if kind == 'demomapping':
                changes = mapping('changes')
            else:
                self.fs = filestorage()
                changes = self.fs
            if kind == 'demopushed':
                # base <- demo layer (mapping changes) <- pushed layer whose changes are the FileStorage
                lower = DemoStorage(base=basestorage(), changes=MappingStorage('lower'))
                self.st = self.demo = lower.push(changes)
            elif opts.get('via') == 'config' and kind == 'demofile':
                import ZODB.config
                self.fs.close()
                cfg = ('<demostorage>\n <mappingstorage base>\n </mappingstorage>\n <filestorage changes>\n'
                       '  path %s\n%s </filestorage>\n</demostorage>\n' % (
                           fsname, ('  quota %d\n' % quota) if quota is not None else ''))
                self.st = self.demo = ZODB.config.storageFromString(cfg)
                self.fs = changes = self.st.changes
                for i, (oid, tid) in enumerate(self.base if first else []):
                    t = self.TMD()
                    b = self.st.base
                    b.tpc_begin(t, p64(tid))
                    b.store(p64(oid), b'\0' * 8, payload(11, 200 + i % 40), '', t)
                    b.tpc_vote(t)
                    b.tpc_finish(t)
                if first:
                    self.basest = self.st.base
                else:
                    self.st.base = self.basest
            else:
                self.st = self.demo = DemoStorage(base=basestorage(), changes=changes)
            self.changes = changes
            if kind == 'blobdemofile':
                self.st = self.wrapper = BlobStorage(blobdir, self.demo, layout=layout)
                self.blobdir = blobdir
        elif kind == 'demodefault':
            # DemoStorage() as most tests use it: temporary changes, blob support appears on demand
            self.st = self.demo = DemoStorage()
            self.st.temporaryDirectory()    # the blob directory is created lazily, once: do it up front
            self.changes = self.st.changes
        else:
            raise InfraError('unknown kind %r' % kind)
        self.oracle_only = kind in ORACLE_ONLY_KINDS

    @property
    def inner(self):
        """the object that owns `_transaction` and the commit lock the two-phase commit runs on"""
        if self.fs is not None:
            return self.fs
        if self.kind == 'demodefault':
            c = self.st.changes
            return getattr(c, '_BlobStorage__storage', c)
        if self.changes is not None:
            return self.changes
        return self.st

    def current_blobdir(self):
        if self.kind == 'demodefault':
            h = getattr(self.st.changes, 'fshelper', None)
            d = getattr(h, 'base_dir', None)
            return d.rstrip(os.sep) if d and os.path.isdir(d) else None
        return self.blobdir

    def model_reset(self):
        q = 'none' if self.quota is None else str(self.quota)
        b = ','.join('%d:%d' % (o, t) for o, t in self.base) or '-'
        return {'file': 'reset file ' + q, 'fileblob': 'reset file ' + q, 'blobfile': 'reset file ' + q,
                'mapping': 'reset mapping',
                'blobmapping': 'reset mapping', 'demofile': 'reset demo-file %s %s' % (q, b),
                'demopushed': 'reset demo-file %s %s' % (q, b),
                'demomapping': 'reset demo-mapping ' + b}.get(self.kind, 'reset mapping')

    def close(self):
        try:
            if not self.dead:
                self.st.close()
        except Exception:
            pass
        if self.buddy is not None:
            self.buddy.close()
        if self.parent is None:
            self.blobmod.remove_committed = self.saved_remove
            self.cm.__exit__(None, None, None)

    # ---- observations -------------------------------------------------------------------
    def blob_files(self):
        out = []
        bd = self.current_blobdir()
        if bd and os.path.isdir(bd):
            for dp, dns, fns in os.walk(bd):
                if os.path.relpath(dp, bd).split(os.sep)[0] == 'tmp':
                    continue
                for f in fns:
                    if f.endswith('.blob'):
                        out.append(os.path.relpath(os.path.join(dp, f), bd))
        return sorted(out)

    def blob_pairs(self):
        helper = getattr(self.st, 'fshelper', None)
        if self.kind == 'demodefault':
            helper = getattr(self.st.changes, 'fshelper', None)
        out = []
        for relp in self.blob_files():
            full = os.path.join(self.current_blobdir(), relp)
            oid = helper.getOIDForPath(os.path.dirname(full))
            tid = bytes.fromhex(os.path.basename(full)[2:-5])
            out.append((u64(oid), u64(tid)))
        return sorted(out)

    def dir_image(self):
        """bytes of every file below the root; the lock file's pid, the temp file's scratch bytes,
        empty directories and the blob temp directory are outside the property"""
        img = {}
        for k, v in vfs.snapshot(self.root).items():
            if k.endswith('/'):
                continue
            if k.endswith('.lock') or k.endswith('.tmp'):
                v = b'<excluded>'
            if k.startswith('blobs' + os.sep + 'tmp' + os.sep) or k.startswith('buddy' + os.sep):
                continue
            img[k] = v
        return img

    def queries(self):
        from ZODB.POSException import POSKeyError
        st = self.st
        q = {}
        its = []
        for t in st.iterator():
            recs = []
            for r in t:
                recs.append((u64(r.oid), u64(r.tid), None if r.data is None else (len(r.data), tag_of(r.data))))
            its.append((u64(t.tid), t.status if isinstance(t.status, str) else t.status.decode(),
                        len(t.user), len(t.description), sorted(recs, key=repr)))
        q['iterator'] = its
        q['last'] = u64(st.lastTransaction())
        q['len'] = len(st)
        bounds = sorted(set(self.alltids[-5:] + [x + 1 for x in self.alltids[-5:]]))
        for oid in sorted(self.oids | {NEXT_OID}):
            o = p64(oid)
            try:
                d, s = st.load(o, '')
                q['load', oid] = (len(d), tag_of(d), u64(s))
            except POSKeyError:
                q['load', oid] = 'KeyError'
            for b in bounds + [2 ** 64 - 1]:
                try:
                    r = st.loadBefore(o, p64(b))
                    q['lb', oid, b] = None if r is None else (len(r[0]), tag_of(r[0]), u64(r[1]),
                                                               None if r[2] is None else u64(r[2]))
                except POSKeyError:
                    q['lb', oid, b] = 'KeyError'
            for s in self.alltids[-4:] + ([self.cur[oid]] if oid in self.cur else []):
                try:
                    d = st.loadSerial(o, p64(s))
                    q['ls', oid, s] = (len(d), tag_of(d))
                except POSKeyError:
                    q['ls', oid, s] = 'KeyError'
            try:
                h = st.history(o, size=4)
                q['hist', oid] = [(u64(e['tid']), e['size']) for e in h]
            except POSKeyError:
                q['hist', oid] = 'KeyError'
        if self.current_blobdir():
            for oid, tid in self.blob_pairs():
                try:
                    with open(st.loadBlob(p64(oid), p64(tid)), 'rb') as f:
                        q['blob', oid, tid] = f.read()
                except Exception as e:
                    q['blob', oid, tid] = 'err:' + type(e).__name__
        return q

    def memory(self):
        m = {}
        i = self.inner
        m['txn_none'] = i._transaction is None
        m['lock_free'] = not i._commit_lock.locked()
        if self.fs is not None:
            f = self.fs
            m['pos'], m['ltid'], m['nindex'] = f._pos, u64(f._ltid), len(f._index)
            m['ntindex'] = len(f._tindex)
            m['size'] = f.getSize()
            m['dirty'] = list(f.dirty_oids)
            m['tfile_pos'] = f._tfile.tell()                       # the staging file is rewound
            m['resolved'] = len(f._resolved)
            pool = f._files                                         # the readers' pool is idle
            m['pool'] = (bool(getattr(pool, 'writing', False)), getattr(pool, 'writers', 0),
                         len(getattr(pool, '_out', ())))
        else:
            m['ltid'] = u64(i._ltid)
            m['ndata'] = len(i._data)
        if self.wrapper is not None:
            m['wrapper_dirty'] = list(self.wrapper.dirty_oids)
        if self.kind == 'demodefault':
            m['wrapper_dirty'] = list(getattr(self.st.changes, 'dirty_oids', []))
        if self.demo is not None:
            m['demo_txn_none'] = self.demo._transaction is None
            m['demo_lock_free'] = not self.demo._commit_lock.locked()
        return m

    def observe(self):
        """never raises: a query that blows up is itself an observation"""
        out = {}
        for name, fn in (('dir', self.dir_image), ('q', self.queries), ('mem', self.memory)):
            try:
                out[name] = fn()
            except Exception as e:
                out[name] = {'<exception>': '%s: %s' % (type(e).__name__, str(e)[:100])}
        return out

    # ---- canonical observation comparable with the model's `obs` line -----------------------
    def obs_string(self):
        try:
            return self._obs_string()
        except Exception as e:
            return 'obs-failed:%s' % type(e).__name__

    def _obs_string(self):
        if self.fs is not None:
            s = self._file_obs(self.fs)
        else:
            s = self._mapping_obs()
        if self.demo is not None:
            s += ' dtxn=%d dlock=%d' % (self.demo._transaction is None, not self.demo._commit_lock.locked())
        return s

    def _file_obs(self, f):
        with vfs._real_open(f._file_name, 'rb') as fh:
            raw = fh.read()
        txns = []
        for t in f.iterator():
            recs = []
            for r in t:
                prev = u64(raw[r.pos + 16:r.pos + 24])
                if r.data is None:
                    recs.append('%d.%d.%d.1.0.0' % (u64(r.oid), u64(r.tid), prev))
                else:
                    recs.append('%d.%d.%d.0.%d.%d' % (u64(r.oid), u64(r.tid), prev, len(r.data), tag_of(r.data)))
            st = t.status if isinstance(t.status, str) else t.status.decode()
            txns.append('%d:%d:%d:%d:%d:[%s]' % (u64(t.tid), ord(st), len(t.user), len(t.description),
                                                  len(t.extension_bytes), ','.join(recs)))
        idx = []
        for oid, pos in sorted(f._index.items()):
            idx.append('%d:%d:%d' % (u64(oid), u64(raw[pos + 8:pos + 16]), pos))
        blobs = ','.join('%d:%d' % p for p in self.blob_pairs()) if self.blobdir else ''
        return ('txns=[%s] pos=%d len=%d index=[%s] ltid=%d blobs=[%s] staging=%d lock=%d txn=%d closed=%d' % (
            ';'.join(txns), f._pos, len(raw), ','.join(idx), u64(f._ltid), blobs,
            len(f._tindex) == 0 and f._tfile.tell() == 0, not f._commit_lock.locked(),
            f._transaction is None, f._file.closed))

    def _mapping_obs(self):
        i = self.inner
        txns = []
        for t in i.iterator():
            recs = sorted((u64(r.oid), len(r.data), tag_of(r.data)) for r in t)
            txns.append('%d:[%s]' % (u64(t.tid), ','.join('%d.%d.%d' % r for r in recs)))
        cur = ','.join('%d:%d' % (u64(o), u64(d.maxKey())) for o, d in sorted(i._data.items()) if d)
        blobs = ','.join('%d:%d' % p for p in self.blob_pairs()) if self.blobdir else ''
        staging = i._transaction is None or not getattr(i, '_tdata', None)
        return 'txns=[%s] cur=[%s] ltid=%d blobs=[%s] staging=%d lock=%d txn=%d' % (
            ';'.join(txns), cur, u64(i._ltid), blobs, staging, not i._commit_lock.locked(),
            i._transaction is None)

    # ---- calls --------------------------------------------------------------------------
    def new_txn(self, u=0, d=0, e=0):
        t = self.next_t
        self.next_t += 1
        ext = {'k': 'x' * e} if e else None
        obj = self.TMD(user='u' * u, description='d' * d, extension=ext)
        self.txn_objs[t] = obj
        tid = self.next_tid
        self.next_tid += 16
        return t, tid, obj

    def serial(self, oid, skind):
        c = self.cur.get(oid, 0)
        if skind == 'cur':
            return c
        if skind == 'stale':
            return c - 1 if c > 1 else c
        return 0

    def data_pos(self):
        return self.fs._pos if self.fs is not None else 0


def errname(e, fault_fired):
    from ZODB.POSException import StorageTransactionError, ConflictError, POSKeyError
    from ZODB.FileStorage.FileStorage import FileStorageQuotaError, FileStorageError
    if isinstance(e, StorageTransactionError):
        return 'err:StorageTransaction'
    if isinstance(e, ConflictError):
        return 'err:Conflict'
    if isinstance(e, FileStorageQuotaError):
        return 'err:Quota'
    if isinstance(e, POSKeyError):
        return 'err:KeyError'
    if isinstance(e, FileStorageError):
        m = str(e)
        for i, w in enumerate(('user name too long', 'description too long', 'too much extension data')):
            if w in m:
                return 'err:Meta%d' % i
    if isinstance(e, CallbackError):
        return 'err:Callback'
    if fault_fired:
        return 'err:IO'
    return 'err:Other(%s)' % type(e).__name__


class CallbackError(RuntimeError):
    """raised by the callback handed to tpc_finish (failure kind `finishcb`)"""


KNOWN_OPEN = []      # signature patterns of open known findings (filled in main from known_findings.json)


class Runner:
    """executes the steps of one case on the real storage, builds the parallel model lines with the
    outputs the real run produced, applies the direct oracle"""

    def __init__(self, ck, case, root, stop_at_first=True):
        self.ck, self.case, self.root = ck, case, root
        self.lines = []          # (model line, expected real output or None, label)
        self.violations = []     # (signature, what, index into self.executed)
        self.executed = []       # atomic steps actually run (commit / scenario), replayable
        self.stats = {}
        self.nontrivial = False
        self.stop_at_first = stop_at_first
        self.env = None
        self.scen = []           # (canonical scenario, non-trivial?) for the evidence counters
        self.mute = False
        self.known_hits = []
        self.current_call = 'setup'
        self.blocked = False

    def count(self, k, n=1):
        self.stats[k] = self.stats.get(k, 0) + n

    def emit(self, line, expected=None, label=''):
        if self.mute:
            return          # the model does not follow the storage here (real-code oracle only)
        self.lines.append((line, expected, '%s#%d' % (label, len(self.executed) - 1)))

    # one API call on the real storage; returns (out, data-class, fault fired)
    def call(self, env, name, fn, model_line, fault_k=None, label=''):
        rec = env.rec
        n0 = len(rec.events)
        pos = env.data_pos()
        self.current_call = name
        try:
            fn()
            out = 'ok'
        except BaseException as e:          # noqa: B902 — errors are observations here
            if isinstance(e, (KeyboardInterrupt, SystemExit)):
                raise
            fired = any(ev[0] == 'fault' for ev in rec.events[n0:])
            out = errname(e, fired)
        evs = rec.events[n0:]
        fired = [ev for ev in evs if ev[0] == 'fault']
        cls = ''
        if env.fs is not None:
            dm = [ev for ev in evs if ev[0] in ('write', 'trunc') and ev[1] == 'Data.fs']
            if any(ev[0] == 'trunc' for ev in dm):
                c = 'T'
            elif dm:
                c = 'W'
            else:
                c = '-'
            beyond = all((ev[2] >= pos) for ev in dm)
            last_ok = True
            if c == 'T':
                last_ok = dm[-1][0] == 'trunc' and dm[-1][2] == pos
            cls = ' d=%s b=%d' % (c, beyond and last_ok)
            if self.env.kind in ('demofile', 'demopushed', 'blobdemofile'):
                cls = ''                     # the demo machines print the outcome only
        self.count('call:' + name)
        if out != 'ok':
            self.count(out)
        self.current_call = 'reads after ' + name
        info = dict(out=out, evs=evs, fired=fired)
        if model_line is not None:
            if fired and out != 'ok' and fault_k is not None:
                k = fault_k(info)
                if k == 0:
                    # the call failed before touching the data file at a raw operation the model does not
                    # have; without the call the model is in the same state (nothing voted)
                    self.count('model-skip:' + name)
                    return info
                self.emit('fault %d' % k, 'ok' + (' d=- b=1' if cls else ''), label)
            elif fired:
                self.count('fault-absorbed:' + name)
            self.emit(model_line, out + cls, label)
        return info

    # ---- a committed transaction ------------------------------------------------------------
    def lock_held(self, env, where):
        """a commit lock that is held although no call is in progress can only be a leak; calling
        tpc_begin now would hang the check, so report and end the history"""
        locks = [env.inner._commit_lock]
        if env.demo is not None:
            locks.append(env.demo._commit_lock)
        if any(l.locked() for l in locks):
            env.dead = True
            self.violation('C05:lock-leak:%s:%s' % (env.kind, where),
                           'a commit lock is still held between transactions (%s): the next tpc_begin '
                           'would block forever' % where)
            return True
        return False

    def commit(self, env, txn, label='commit'):
        if label != 'next' and self.lock_held(env, 'before-' + label):
            return False
        t, tid, obj = env.new_txn(txn.get('u', 0), txn.get('d', 0), txn.get('e', 0))
        st = env.st
        el = len(obj.extension_bytes)
        r = self.call(env, 'begin', lambda: st.tpc_begin(obj, p64(tid)),
                      'begin %d %d 32 %d %d %d' % (t, tid, len(obj.user), len(obj.description), el), label=label)
        if r['out'] != 'ok':
            self.call(env, 'abort', lambda: st.tpc_abort(obj), 'abort %d' % t, label=label)
            return False
        stored = {}
        ok = True
        for op in txn['ops']:
            res = self.do_op(env, op, t, tid, obj, label)
            if res['out'] != 'ok':
                ok = False
                break
            if op[0] != 'delete':
                stored[op[1]] = (op[3], op[4])
            else:
                stored[op[1]] = None
        if ok:
            ok = self.call(env, 'vote', lambda: st.tpc_vote(obj), 'vote %d' % t, label=label)['out'] == 'ok'
        if ok:
            ok = self.call(env, 'finish', lambda: st.tpc_finish(obj), 'finish %d' % t, label=label)['out'] == 'ok'
        if not ok:
            self.call(env, 'abort', lambda: st.tpc_abort(obj), 'abort %d' % t, label=label)
            self.cleanup_blob_tmp(env)
            return False
        for oid in stored:
            env.cur[oid] = tid
            env.oids.add(oid)
            (env.deleted.add if stored[oid] is None else env.deleted.discard)(oid)
        env.alltids.append(tid)
        self.last_commit = (tid, stored)
        if label != 'next':
            env.last_user_tid = tid
            env.user_tids.append(tid)
        return True

    def cleanup_blob_tmp(self, env):
        if env.current_blobdir():
            td = os.path.join(env.current_blobdir(), 'tmp')
            if os.path.isdir(td):
                for f in os.listdir(td):
                    try:
                        vfs._real_os['remove'](os.path.join(td, f))
                    except OSError:
                        pass

    def do_op(self, env, op, t, tid, obj, label, model_t=None, fault_k=None):
        st = env.st
        mt = t if model_t is None else model_t
        if op[0] == 'store':
            _, oid, skind, dlen, tag = op
            ser = env.serial(oid, skind)
            return self.call(env, 'store', lambda: st.store(p64(oid), p64(ser), payload(dlen, tag), '', obj),
                             'store %d %d %d %d %d' % (mt, oid, ser, dlen, tag), fault_k=fault_k, label=label)
        if op[0] == 'storeblob':
            _, oid, skind, dlen, tag = op
            ser = env.serial(oid, skind)
            tmpname = os.path.join(env.st.temporaryDirectory(), 'b%d-%d.tmp' % (mt, oid))
            with vfs._real_open(tmpname, 'wb') as f:
                f.write(b'B' + bytes([tag]) * 17)
            return self.call(env, 'storeBlob',
                             lambda: st.storeBlob(p64(oid), p64(ser), payload(dlen, tag), tmpname, '', obj),
                             'storeblob %d %d %d %d %d' % (mt, oid, ser, dlen, tag), fault_k=fault_k, label=label)
        if op[0] == 'delete':
            _, oid, skind = op
            ser = env.serial(oid, skind)
            return self.call(env, 'delete', lambda: st.deleteObject(p64(oid), p64(ser), obj),
                             'delete %d %d %d' % (mt, oid, ser), fault_k=fault_k, label=label)
        if op[0] in ('restore', 'restoreblob'):
            # restore (copy / recovery entry point): the record carries its own serial and an optional
            # back-pointer hint; no model line (the model sees the begin / vote / abort envelope)
            _, oid, dlen, tag, prevkind = op
            if not hasattr(st, 'restore') or (op[0] == 'restoreblob' and not hasattr(st, 'restoreBlob')):
                return dict(out='ok', evs=[], fired=[])
            prev = p64(env.cur[oid]) if (prevkind == 'cur' and env.cur.get(oid)) else None
            data = payload(dlen, tag)
            if op[0] == 'restore':
                return self.call(env, 'restore', lambda: st.restore(p64(oid), p64(tid), data, '', prev, obj),
                                 None, label=label)
            tmpname = os.path.join(env.st.temporaryDirectory(), 'r%d-%d.tmp' % (mt, oid))
            with vfs._real_open(tmpname, 'wb') as f:
                f.write(b'R' + bytes([tag]) * 9)
            return self.call(env, 'restoreBlob',
                             lambda: st.restoreBlob(p64(oid), p64(tid), data, tmpname, prev, obj), None, label=label)
        if op[0] == 'checkcurrent':
            _, oid, skind = op
            ser = env.serial(oid, skind)
            if not env.cur.get(oid):
                return dict(out='ok', evs=[], fired=[])
            return self.call(env, 'checkCurrent',
                             lambda: st.checkCurrentSerialInTransaction(p64(oid), p64(ser), obj), None, label=label)
        if op[0] == 'newoid':
            return self.call(env, 'new_oid', lambda: st.new_oid(), None, label=label)
        if op[0] == 'undo':
            # undo of the newest committed user transaction (C06 owns undo itself; here only its place in
            # a two-phase commit that does not finish) — no model line: the model sees begin/vote/abort
            from base64 import encodebytes
            target = env.last_user_tid
            if len(op) > 1 and op[1] == 'prev':
                # the user transaction BEFORE the newest: typically only partly undoable (some of its
                # objects were rewritten since) — FileStorage stages the undoable records first and then
                # raises MultipleUndoErrors
                target = env.user_tids[-2] if len(env.user_tids) >= 2 else None
            if target is None:
                return dict(out='ok', evs=[], fired=[])
            tidb = encodebytes(p64(target)).rstrip()
            return self.call(env, 'undo', lambda: st.undo(tidb, obj), None, label=label)
        raise InfraError('bad op %r' % (op,))

    # ---- idle-point checks --------------------------------------------------------------
    def obs_point(self, env, label):
        self.emit('obs', env.obs_string(), label)

    def violation(self, sig, what):
        import re
        if any(re.fullmatch(k, sig) for k in KNOWN_OPEN):
            # a listed open finding: reported (KNOWN-FINDING) but the history goes on, so that it does not
            # shadow anything else
            self.known_hits.append((sig, what, len(self.executed) - 1))
            self.mute = True     # what the finding left behind is not in the model: real-code oracle only from here
            return
        self.violations.append((sig, what, len(self.executed) - 1))

    @staticmethod
    def load1(env, oid, held=False):
        """load(oid); with held=True a second pooled reader handle of the FileStorage is kept out
        meanwhile, so the load is served by ANOTHER handle of the pool (what a concurrent reader gets)"""
        import contextlib
        cm = env.fs._files.get() if (held and env.fs is not None) else contextlib.nullcontext()
        try:
            with cm:
                d, s = env.st.load(p64(oid), '')
            return (len(d), tag_of(d), u64(s))
        except Exception as e:
            return type(e).__name__

    def loads(self, env):
        return {oid: self.load1(env, oid) for oid in sorted(env.oids)}

    def load_each_handle(self, env, oid, depth=4):
        """load(oid) served in turn by each of the pool's reader handles (a stale read-ahead buffer in
        ANY of them is a trace of the failed transaction)"""
        import contextlib
        out = []
        if env.fs is not None:
            depth = max(depth, min(64, self.pool_size(env) + 1))
        with contextlib.ExitStack() as stack:
            for _ in range(depth if env.fs is not None else 1):
                out.append(self.load1(env, oid))
                if env.fs is not None:
                    stack.enter_context(env.fs._files.get())
        return out

    def reader_probe(self, env):
        """a concurrent reader: loads the objects stored last (near the end of the file) through a
        handle other than the pool's first one, so that its read-ahead buffer covers whatever lies
        behind `_pos` at this moment (bytes of a transaction that is being voted)"""
        if env.fs is None:
            return
        import contextlib
        self.count('reader-probe')
        with contextlib.ExitStack() as stack:
            # every pooled handle is "in use by other readers": the load below opens a fresh handle,
            # whose first buffer fill starts at the record and runs on into the bytes behind `_pos`
            for _ in range(min(64, self.pool_size(env))):
                stack.enter_context(env.fs._files.get())
            for oid in self.last_oids(env):
                self.load1(env, oid)

    @staticmethod
    def pool_size(env):
        try:
            return len(env.fs._files._files)
        except Exception:
            return 3

    def last_oids(self, env):
        if not env.cur:
            return []
        last = max(env.cur.values())
        return [o for o, t in env.cur.items() if t == last][:2]

    def load_fresh(self, env, oid):
        """load(oid) through a reader handle opened just now (all pooled ones are held out)"""
        import contextlib
        if env.fs is None:
            return self.load1(env, oid)
        with contextlib.ExitStack() as stack:
            for _ in range(min(64, self.pool_size(env))):
                stack.enter_context(env.fs._files.get())
            return self.load1(env, oid)

    def next_txn(self, env, scen_label, fresh_only=False):
        """the next transaction begins (lock not leaked), commits and is readable.
        fresh_only: after a failure INSIDE tpc_abort the code never reached the point where it drops the
        readers' buffers, so only a newly opened reader handle is required to see the new transaction
        (a stale pooled handle is counted as an observation, not a violation)"""
        res = {}
        mark = len(self.lines)
        q0 = self.stats.get('err:Quota', 0)
        loads0 = {o: self.load_fresh(env, o) for o in sorted(env.oids)} if fresh_only else self.loads(env)

        def work():
            try:
                ser = 'cur'
                res['ok'] = self.commit(env, dict(ops=[['store', NEXT_OID, ser, 7, safe_tags()[len(env.alltids) % 150]]]),
                                        label='next')
            except BaseException as e:          # noqa: B902
                res['exc'] = repr(e)
        th = threading.Thread(target=work, daemon=True)
        th.start()
        th.join(TIMEOUT)
        if th.is_alive():
            env.dead = True
            del self.lines[mark:]
            sig = 'C05:lock-leak:%s:%s' % (env.kind, scen_label)
            if env.kind.startswith('demo') and scen_label.startswith('meta'):
                sig = 'C05:demo-begin-failure-leaks-locks'
            self.violation(sig, 'after the mandated tpc_abort the next tpc_begin did not return within %.0fs '
                                '(commit lock leaked)' % TIMEOUT)
            return False
        if not res.get('ok') and self.stats.get('err:Quota', 0) > q0:
            # the probe itself ran into the configured quota: a legitimate refusal, the history ends here
            self.count('next-txn-hit-quota')
            env.dead = True
            return False
        if not res.get('ok'):
            self.violation('C05:next-txn-failed:%s:%s' % (env.kind, scen_label),
                           'the transaction following the aborted one did not commit normally: %r' % (res,))
            return False
        tid, stored = self.last_commit
        want = (stored[NEXT_OID][0], stored[NEXT_OID][1], tid)
        if fresh_only:
            pooled = self.load_each_handle(env, NEXT_OID)
            if any(g != want for g in pooled):
                self.count('observation:abort-fault-stale-pooled-reader')
            got = [self.load_fresh(env, NEXT_OID)]
        else:
            got = self.load_each_handle(env, NEXT_OID)  # first of all: before any other read refills a buffer
        if any(g != want for g in got):
            self.violation('C05:next-txn-unreadable:%s:%s' % (env.kind, scen_label),
                           'the transaction following the aborted one committed, but load of its object '
                           '(through the pooled reader handles) answers %r instead of %r' % (
                               [g for g in got if g != want][0], want))
            return False
        # ... and it committed NORMALLY: nothing but its own record changed
        loads1 = {o: self.load_fresh(env, o) for o in sorted(env.oids)} if fresh_only else self.loads(env)
        bad = [o for o in loads0 if o != NEXT_OID and loads0[o] != loads1.get(o)]
        if bad:
            self.violation('C05:next-txn-damaged-others:%s:%s' % (env.kind, scen_label),
                           'the transaction following the aborted one stored oid %d only, but afterwards '
                           'load(%d) answers %r instead of %r' % (NEXT_OID, bad[0], loads1.get(bad[0]), loads0[bad[0]]))
            return False
        # ... and on disk it consists of exactly its own record (nothing staged by the aborted transaction
        # was carried into it)
        try:
            recs = 'transaction not found'
            for txn in env.st.iterator(p64(tid)):
                if u64(txn.tid) == tid:     # (records must be read while the iterator's file is open)
                    recs = [(u64(r.oid), u64(r.tid), None if r.data is None else (len(r.data), tag_of(r.data)))
                            for r in txn]
                    break                   # (after a failed truncate inside tpc_abort old bytes may follow)
        except Exception as e:
            recs = 'iterator raised %s' % type(e).__name__
        wantrecs = [(NEXT_OID, tid, (stored[NEXT_OID][0], stored[NEXT_OID][1]))]
        if recs != wantrecs and fresh_only and isinstance(recs, str):
            self.count('observation:abort-fault-iterator-' + recs.replace(' ', '-'))
        elif recs != wantrecs:
            self.violation('C05:next-txn-carries-aborted-records:%s:%s' % (env.kind, scen_label),
                           'the transaction following the aborted one stored one record (oid %d); the storage\'s '
                           'iterator shows it as %r' % (NEXT_OID, recs))
            return False
        self.obs_point(env, 'after-next')
        return True

    def compare(self, env, before, scen_label, what_failed):
        after = env.observe()
        if after == before:
            return True
        parts = []
        for sect in ('dir', 'q', 'mem'):
            a, b = before[sect], after[sect]
            for k in sorted(set(a) | set(b), key=repr):
                if a.get(k, '<absent>') != b.get(k, '<absent>'):
                    va, vb = a.get(k, '<absent>'), b.get(k, '<absent>')
                    if isinstance(va, bytes) or isinstance(vb, bytes):
                        va = 'bytes[%s]' % (len(va) if isinstance(va, bytes) else va)
                        vb = 'bytes[%s]' % (len(vb) if isinstance(vb, bytes) else vb)
                    parts.append('%s[%r]: before %s after %s' % (sect, k, str(va)[:80], str(vb)[:80]))
        if any('lock_free' in p for p in parts):
            env.dead = True
            sig = 'C05:lock-leak:%s:%s' % (env.kind, scen_label)
            if env.kind.startswith('demo') and scen_label.startswith('meta'):
                sig = 'C05:demo-begin-failure-leaks-locks'
            self.violation(sig, '%s; after the mandated tpc_abort a commit lock is still held (%s): the next '
                                'tpc_begin would block forever' % (what_failed, '; '.join(parts)))
            return False
        tag = 'mem' if all(p.startswith('mem') for p in parts) else (
            'disk' if any(p.startswith('dir') for p in parts) else 'query')
        if any('.blob' in p for p in parts):
            tag = 'blob'
            if what_failed.startswith('victim undo') and 'err:IO' in what_failed:
                self.violation('C05:undo-copy-fault-leaves-blob',
                               '%s (I/O failure while BlobStorage.undo copied a blob file); after the mandated '
                               'tpc_abort the never-committed copy is still in the blob directory: %s' % (
                                   what_failed, '; '.join(parts[:3])))
                return False
        self.violation('C05:trace-left:%s:%s:%s' % (tag, env.kind, scen_label),
                       '%s; after the mandated tpc_abort the storage differs from its state before '
                       'the transaction began: %s' % (what_failed, '; '.join(parts[:4])))
        return False

    # ---- one victim scenario ------------------------------------------------------------
    def buddy_roundtrip(self, env, phase, commit):
        """a second storage of the same class, alive in the same process, runs a whole transaction while the
        victim is at `phase`: state shared between instances by accident (class attributes, module
        globals) shows as an effect on one of them"""
        b = env.buddy
        if b is None or b.dead:
            return
        self.count('buddy:' + ('commit' if commit else 'abort'))
        before = b.observe()
        t, tid, obj = b.new_txn(0, 3, 0)
        oid, dlen, tag = 31 + (tid // 16) % 3, 6 + (tid // 16) % 5, 41
        try:
            b.st.tpc_begin(obj, p64(tid))
            b.st.store(p64(oid), p64(b.cur.get(oid, 0)), payload(dlen, tag), '', obj)
            b.st.tpc_vote(obj)
            if commit:
                b.st.tpc_finish(obj)
                b.cur[oid] = tid
                b.oids.add(oid)
                b.alltids.append(tid)
                got = self.load1(b, oid)
                if got != (dlen, tag, tid):
                    self.violation('C05:two-instances:%s:buddy-commit' % env.kind,
                                   'a second storage committed while the victim was %s; its load answers %r '
                                   'instead of %r' % (phase, got, (dlen, tag, tid)))
            else:
                b.st.tpc_abort(obj)
                after = b.observe()
                if after != before:
                    diffs = ['%s[%r]' % (sect, k) for sect in ('dir', 'q', 'mem')
                             for k in sorted(set(before[sect]) | set(after[sect]), key=repr)
                             if before[sect].get(k, '<absent>') != after[sect].get(k, '<absent>')]
                    self.violation('C05:two-instances:%s:buddy-abort' % env.kind,
                                   'a second storage of the same kind began, stored, voted and aborted while the '
                                   'victim was %s; it differs from its state before in %s' % (phase, ', '.join(diffs[:5])))
        except Exception as e:
            self.violation('C05:two-instances:%s:buddy-error' % env.kind,
                           'a transaction on a second storage of the same kind, run while the victim was %s, '
                           'raised %s: %s' % (phase, type(e).__name__, str(e)[:120]))

    def guarded(self, env, label, fn):
        """run one step (a whole scenario or history commit) in a thread: a step that does not return —
        some call or read of it blocks on a lock / condition a rejected or aborted call left behind — is
        a violation with the history so far as failing input, not a hung check"""
        box = {}

        def work():
            try:
                box['r'] = fn()
            except BaseException as e:      # noqa: B902 — re-raised in the caller's thread
                box['e'] = e
        th = threading.Thread(target=work, daemon=True)
        th.start()
        th.join(STEP_TIMEOUT)
        if th.is_alive():
            env.dead = True                 # the stuck thread is abandoned, the storage is not touched again
            self.blocked = True
            self.violation('C05:step-blocked:%s:%s' % (env.kind, label),
                           'a step did not return within %.0f s: blocked in %s (scenario %s) — a call that was '
                           'rejected, failed or aborted left a lock or wait condition behind that blocks '
                           'later calls' % (STEP_TIMEOUT, self.current_call, label))
            return None
        if 'e' in box:
            raise box['e']
        return box.get('r')

    def scenario(self, env, victim, failure):
        fk = failure['kind']
        label = fk + (':%s' % failure.get('variant', failure.get('which', failure.get('phase', '')))
                      if fk in ('abortfault', 'meta', 'foreign') else '')
        r = self.guarded(env, label, lambda: self._scenario(env, victim, failure))
        return r if r is not None else []

    def _scenario(self, env, victim, failure):
        """returns per-call raw-operation info when failure kind is 'count'"""
        fk = failure['kind']
        label = fk if fk != 'raw' else 'raw'
        if fk == 'meta':
            label = 'meta%d' % failure['which']
        if fk == 'abortfault':
            label = 'abortfault:' + failure.get('variant', 'abort-trunc')
        self.executed.append(dict(type='scenario', victim=victim, failure=failure))
        if self.lock_held(env, 'before-' + label):
            return []
        self.count('scenario:' + label)
        srec = [dict(kind=env.kind, quota=env.quota, ncommitted=len(env.alltids), victim=victim,
                     failure=failure), False]
        self.scen.append(srec)
        rec = env.rec
        before = env.observe()
        self.obs_point(env, 'before:' + label)
        u, d, e = victim.get('u', 0), victim.get('d', 0), victim.get('e', 0)
        if fk == 'meta':
            u, d, e = [(65536 + failure.get('extra', 0)) if i == failure['which'] else x
                       for i, x in enumerate((u, d, e))]
        t, tid, obj = env.new_txn(u, d, e)
        st = env.st
        ops = [list(o) for o in victim['ops']]
        if fk == 'conflict':
            i = failure['at'] % max(1, len(ops))
            cands = [j for j, o in enumerate(ops) if o[0] in ('store', 'storeblob', 'delete')
                     and o[1] in env.cur and env.cur[o[1]] > 1]
            if cands:
                i = cands[failure['at'] % len(cands)]
                ops[i][2] = 'stale'
            elif env.cur:
                oid = sorted(k for k in env.cur if env.cur[k] > 1)[0] if any(
                    v > 1 for v in env.cur.values()) else None
                if oid is not None:
                    ops.insert(i, ['store', oid, 'stale', 5, 9])
        if fk == 'quota' and env.fs is not None and env.quota is not None:
            room = max(1, env.quota - env.fs.getSize() + 60)
            ops = [['store', 700, 'cur', room, 33]] + ops + [['store', 701, 'cur', 3, 34]]
        rec.nmut = 0
        rec.fail_at = failure.get('k') if fk in ('raw', 'finishfault') else None
        # partial > 0: the k-th raw write is a SHORT write of that many bytes and the next raw
        # operation fails (what a full disk does)
        rec.fail_partial = failure.get('partial', 0) if fk == 'raw' else 0
        percall = []
        what = label
        nd_vote = failure.get('nd_vote', 1)
        nrec_ok = [0]

        def fault_k_stage(info):
            ev = info['fired'][-1]          # the operation that raised (a short write may precede it)
            if ev[2] in ('mkdir', 'rename', 'create', 'remove', 'link') or (len(ev) > 3 and 'blobs' in str(ev[3])):
                return 3
            return 1 if failure.get('k', 1) % 2 else 2

        def fault_k_vote(info):
            ev = info['fired'][-1]          # the operation that raised (a short write may precede it)
            tmp_ops = 1 if nrec_ok[0] > 0 else 0
            if ev[3].endswith('.tmp'):
                # the temp-file flush of the vote; the model has one only if IT staged records (an undo
                # stages records the model does not know): 0 = leave this call out of the model
                return 1 if tmp_ops else 0
            j = 1 + sum(1 for x in info['evs'][:info['evs'].index(ev)]
                        if x[0] == 'write' and x[1] == 'Data.fs')
            m = 2 + nrec_ok[0]
            p = 1 + ((j - 1) * m) // max(nd_vote, j)
            return tmp_ops + min(p, m)

        state = dict(begun=False, failed=None, voted=False, finished=False)

        def mut_count():
            return len(rec.mutations())

        def foreign_calls(phase):
            other = env.TMD()
            env.txn_objs[FOREIGN] = other
            blobs0, mut0 = env.blob_files(), mut_count()
            held0 = (env.inner._transaction is obj, env.inner._commit_lock.locked())
            fops = [['store', 1, 'cur', 4, 44]]
            if env.kind in FILE_KINDS:
                fops.append(['delete', 1, 'cur'])
            if env.kind in BLOB_KINDS:
                fops.append(['storeblob', 2, 'cur', 4, 45])
            for fo in fops:
                r = self.do_op(env, fo, FOREIGN, 0, other, 'foreign')
                if r['out'] != 'err:StorageTransaction':
                    self.violation('C05:foreign-call-not-rejected:%s:%s' % (env.kind, fo[0]),
                                   '%s with a transaction other than the one being committed answered %s '
                                   '(phase %s)' % (fo[0], r['out'], phase))
            self.cleanup_blob_tmp(env)
            for nm, fn, exp in (('vote', lambda: st.tpc_vote(other), 'err:StorageTransaction'),
                                ('finish', lambda: st.tpc_finish(other), 'err:StorageTransaction'),
                                ('abort', lambda: st.tpc_abort(other), 'ok')):
                r = self.call(env, nm, fn, '%s %d' % (nm, FOREIGN), label='foreign')
                if r['out'] != exp:
                    self.violation('C05:foreign-call-not-rejected:%s:%s' % (env.kind, nm),
                                   'tpc_%s with a foreign transaction answered %s (phase %s)' % (nm, r['out'], phase))
                eff = []
                if env.blob_files() != blobs0:
                    eff.append('blob files %s -> %s' % (blobs0, env.blob_files()))
                if mut_count() != mut0:
                    eff.append('%d raw file operations' % (mut_count() - mut0))
                if (env.inner._transaction is obj, env.inner._commit_lock.locked()) != held0:
                    eff.append('transaction/lock state changed')
                if eff:
                    sig = 'C05:foreign-call-effect:%s:%s' % (env.kind, nm)
                    if nm == 'abort' and 'blob files' in eff[0]:
                        sig = 'C05:foreign-abort-removes-blob'
                    self.violation(sig, 'tpc_%s with a transaction other than the one being committed had an '
                                        'effect (phase %s): %s' % (nm, phase, '; '.join(eff)))
                    blobs0, mut0 = env.blob_files(), mut_count()
            r = self.call(env, 'begin', lambda: st.tpc_begin(obj, p64(tid)), 'begin %d %d 32 %d %d %d' % (
                t, tid, len(obj.user), len(obj.description), len(obj.extension_bytes)), label='foreign')
            if r['out'] != 'err:StorageTransaction':
                self.violation('C05:foreign-call-not-rejected:%s:begin' % env.kind,
                               'duplicate tpc_begin answered ' + r['out'])

        # ---- calls that come too early: tpc_abort for a transaction that never began is ignored; store /
        # vote / finish without a transaction in progress are rejected; nothing may change
        if fk in ('abort', 'count', 'meta', 'conflict'):
            pre = [('abort', lambda: st.tpc_abort(obj), 'ok')]
            if fk == 'abort' and failure.get('at') == 0:
                pre += [('store', lambda: st.store(p64(1), p64(0), b'zz', '', obj), 'err:StorageTransaction'),
                        ('vote', lambda: st.tpc_vote(obj), 'err:StorageTransaction'),
                        ('finish', lambda: st.tpc_finish(obj), 'err:StorageTransaction')]
            for nm, fn, exp in pre:
                ml = ('store %d 1 0 2 122' % t) if nm == 'store' else '%s %d' % (nm, t)
                rr = self.call(env, nm, fn, ml, label='early')
                if rr['out'] != exp:
                    self.violation('C05:foreign-call-not-rejected:%s:early-%s' % (env.kind, nm),
                                   'tpc_%s / %s for a transaction that has not begun answered %s' % (nm, nm, rr['out']))
        # ---- begin
        n_before = mut_count()
        r = self.call(env, 'begin', lambda: st.tpc_begin(obj, p64(tid)),
                      'begin %d %d 32 %d %d %d' % (t, tid, len(obj.user), len(obj.description),
                                                   len(obj.extension_bytes)), label=label)
        percall.append(('begin', mut_count() - n_before))
        state['begun'] = True
        if r['out'] != 'ok':
            state['failed'] = 'begin: ' + r['out']
        abort_at = failure.get('at') if fk == 'abort' else None
        fphase = failure.get('phase') if fk == 'foreign' else None
        quiet = fk in ('abort', 'count', 'foreign', 'meta', 'conflict', 'quota')     # no fault armed
        if quiet:
            self.buddy_roundtrip(env, 'after its tpc_begin', commit=False)
        if not state['failed'] and fphase == 0:
            foreign_calls('after begin')
        if not state['failed'] and abort_at != 0:
            for i, op in enumerate(ops):
                n0 = mut_count()
                r = self.do_op(env, op, t, tid, obj, label, fault_k=fault_k_stage)
                percall.append((op[0], mut_count() - n0))
                if r['out'] != 'ok':
                    state['failed'] = '%s #%d: %s' % (op[0], i + 1, r['out'])
                    break
                if op[0] in ('store', 'storeblob', 'delete'):
                    nrec_ok[0] += 1          # records the MODEL has staged
                if abort_at == i + 1:
                    break
            if not state['failed'] and fphase == 1:
                foreign_calls('after the stores')
            if not state['failed'] and (abort_at is None or abort_at == 'vote'):
                n0 = mut_count()
                probing = [False]

                def reader_hook(ev):
                    # just before the except path truncates: everything the failed vote wrote is in the file
                    if ev[0] == 'trunc' and ev[1] == 'Data.fs' and not probing[0]:
                        probing[0] = True
                        try:
                            self.reader_probe(env)
                        finally:
                            probing[0] = False
                rec.on_event = reader_hook if env.fs is not None else None
                if fk == 'abortfault' and failure.get('variant') == 'vote-trunc':
                    hits = []

                    def double_fault(ev):
                        # first data-file write of the vote fails, then the except path's truncate too
                        if ev[1] == 'Data.fs' and ((ev[0] == 'write' and not hits) or ev[0] == 'trunc'):
                            hits.append(ev[0])
                            rec.fail_at = rec.nmut + 1
                    rec.on_event = double_fault
                    self.mute = True         # the model has no doubly failing vote
                try:
                    r = self.call(env, 'vote', lambda: st.tpc_vote(obj), 'vote %d' % t, fault_k=fault_k_vote,
                                  label=label)
                finally:
                    rec.on_event = None
                    rec.fail_at = None if fk == 'abortfault' else rec.fail_at
                if r['out'] == 'ok' and not (fk == 'foreign' and failure.get('commit')) and fk != 'finishfault':
                    self.reader_probe(env)       # a reader while the voted transaction waits for its finish
                nd = sum(1 for ev in r['evs'] if ev[0] == 'write' and ev[1] == 'Data.fs')
                percall.append(('vote', mut_count() - n0, nd))
                if r['out'] != 'ok':
                    state['failed'] = 'vote: ' + r['out']
                    if any(ev[0] == 'write' and ev[1] == 'Data.fs' for ev in r['evs']):
                        self.nontrivial = True
                else:
                    state['voted'] = True
                if state['voted'] and quiet:
                    self.buddy_roundtrip(env, 'voted', commit=True)
                if state['voted'] and fphase == 2:
                    foreign_calls('after vote')
        # non-trivial (DESIGN 4.21): the fault hit after >= 1 raw write of the vote, or a failure / abort
        # happened at a begin / store / vote boundary
        if fk in ('abort', 'count', 'foreign', 'finishfault') or state['failed']:
            srec[1] = True
            self.nontrivial = True
        rec.fail_partial = 0
        # ---- a raw operation of the ABORT ITSELF fails (or of the vote's except path): nothing can be
        # restored then, but "blocks no one" still holds: the call raises, every commit lock is free, the
        # next transaction begins, commits and is readable
        if fk == 'abortfault':
            return self.abort_fault(env, failure, state, obj, t, label, percall)
        # ---- finish-fault: the failure hits the status flip
        if fk == 'finishfault':
            if not state['voted']:
                rec.fail_at = None
                self.call(env, 'abort', lambda: st.tpc_abort(obj), 'abort %d' % t, label=label)
                return percall
            rec.fail_at = rec.nmut + 1
            r = self.call(env, 'finish', lambda: st.tpc_finish(obj), 'finish %d' % t,
                          fault_k=lambda info: 1, label=label)
            rec.fail_at = None
            self.finish_failure_checks(env, r, tid, label)
            return percall
        rec.fail_at = None
        # ---- finish-callback: tpc_finish(t, f) with f raising — before the status flip, so the
        # transaction has NOT finished; the mandated abort follows
        if fk == 'finishcb' and state['voted']:
            def boom(tid):
                raise CallbackError('tpc_finish callback failed')
            r = self.call(env, 'finish', lambda: st.tpc_finish(obj, boom), 'finishcb %d' % t, label=label)
            if r['out'] != 'err:Callback':
                self.count('observation:finish-callback-failure:%s:answered-%s' % (env.kind, r['out']))
                env.dead = True
                return percall
            self.call(env, 'abort', lambda: st.tpc_abort(obj), 'abort %d' % t, label=label)
            self.cleanup_blob_tmp(env)
            env.dead = True          # the model does not follow the storage beyond this point
            self.nontrivial = srec[1] = True
            after = env.observe()
            if after != before:
                diffs = ['%s[%r]' % (sect, k) for sect in ('dir', 'q', 'mem')
                         for k in sorted(set(before[sect]) | set(after[sect]), key=repr)
                         if before[sect].get(k, '<absent>') != after[sect].get(k, '<absent>')]
                leak = any('lock_free' in x for x in diffs)
                group = 'demo' if env.demo is not None else ('file' if env.fs is not None else env.kind)
                # OUTSIDE C05 (coordinator's ruling: a failing finish callback is none of the property's
                # error kinds): an informational probe only, never a violation.  See
                # corpus/C05/observation_finish_callback_*.py and Props.C05.finish_callback_*.
                self.count('observation:finish-callback-failure:%s:%s' % (
                    group, 'lock-leak' if leak else 'voted-data-left'))
            else:
                self.count('observation:finish-callback-failure:%s:restored' % (
                    'demo' if env.demo is not None else ('file' if env.fs is not None else env.kind)))
            self.obs_point(env, 'after:finishcb')
            return percall
        # ---- foreign calls, then the victim commits normally
        if fk == 'foreign' and failure.get('commit') and not state['failed']:
            if not state['voted']:
                r = self.call(env, 'vote', lambda: st.tpc_vote(obj), 'vote %d' % t, label=label)
                state['voted'] = r['out'] == 'ok'
            r = self.call(env, 'finish', lambda: st.tpc_finish(obj), 'finish %d' % t, label=label)
            if r['out'] != 'ok':
                self.violation('C05:foreign-call-effect:%s:commit' % env.kind,
                               'after rejected foreign calls the transaction could not finish: ' + r['out'])
                return percall
            stored = {}
            for op in ops:
                if op[0] == 'delete':
                    stored[op[1]] = None
                elif op[0] in ('store', 'storeblob'):
                    stored[op[1]] = (op[3], op[4], b'B' + bytes([op[4]]) * 17 if op[0] == 'storeblob' else None)
                elif op[0] in ('restore', 'restoreblob') and hasattr(st, 'restore'):
                    stored[op[1]] = (op[2], op[3], b'R' + bytes([op[3]]) * 9 if op[0] == 'restoreblob' else None)
                    if op[4] == 'cur' and op[1] in env.deleted:
                        # restore with a back-pointer hint to the transaction that DELETED the object: the
                        # hint is trusted (FileStorage._data_find: "also a backpointer, gotta trust it"), the
                        # restored record points at the deletion and the object legitimately stays unloadable
                        stored[op[1]] = None
            for oid, v in stored.items():
                env.cur[oid] = tid
                env.oids.add(oid)
                (env.deleted.add if v is None else env.deleted.discard)(oid)
            env.alltids.append(tid)
            bad = []
            for oid, v in stored.items():
                if v is None:
                    continue
                try:
                    dd, ss = st.load(p64(oid), '')
                    if (len(dd), tag_of(dd), u64(ss)) != (v[0], v[1], tid):
                        bad.append('load(%d) wrong' % oid)
                    if v[2]:
                        with open(st.loadBlob(p64(oid), p64(tid)), 'rb') as f:
                            if f.read() != v[2]:
                                bad.append('blob(%d) wrong' % oid)
                except Exception as ex:
                    bad.append('%s for oid %d' % (type(ex).__name__, oid))
            if bad:
                sig = 'C05:foreign-call-effect:%s:committed-unreadable' % env.kind
                if any('blob' in b or 'POSKeyError' in b for b in bad) and env.kind in BLOB_KINDS:
                    sig = 'C05:foreign-abort-removes-blob'
                self.violation(sig, 'calls with a foreign transaction were made during the commit; the '
                                    'transaction then committed but: ' + '; '.join(bad))
            self.nontrivial = True
            self.obs_point(env, 'after-commit:' + label)
            return percall
        # ---- the mandated abort (with a concurrent reader at its truncate: loads take no storage lock, so a
        # reader can come between the steps of _abort; whatever it buffers must not survive the abort)
        aprobing = [False]

        def abort_reader_hook(ev):
            if ev[0] == 'trunc' and ev[1] == 'Data.fs' and not aprobing[0]:
                aprobing[0] = True
                try:
                    self.reader_probe(env)
                finally:
                    aprobing[0] = False
        env.rec.on_event = abort_reader_hook if (env.fs is not None and state['voted']) else None
        try:
            r = self.call(env, 'abort', lambda: st.tpc_abort(obj), 'abort %d' % t, label=label)
        finally:
            env.rec.on_event = None
        percall.append(('abort', 0))
        self.cleanup_blob_tmp(env)
        if r['out'] == 'ok':
            # tpc_abort called a second time for the same (now ended) transaction: ignored, in particular
            # the commit lock is not released twice
            r2 = self.call(env, 'abort', lambda: st.tpc_abort(obj), 'abort %d' % t, label='abort-twice')
            if r2['out'] != 'ok':
                self.violation('C05:abort-twice:%s:%s' % (env.kind, label),
                               'a second tpc_abort for the already aborted transaction answered ' + r2['out'])
        if r['out'] != 'ok':
            self.violation('C05:abort-raised:%s:%s' % (env.kind, label), 'the mandated tpc_abort raised ' + r['out'])
            return percall
        ok = self.compare(env, before, label, 'victim %s' % (state['failed'] or 'aborted (%s)' % label))
        self.obs_point(env, 'after:' + label)
        if ok or not self.stop_at_first:
            self.next_txn(env, label)
        return percall

    def abort_fault(self, env, failure, state, obj, t, label, percall):
        st, rec = env.st, env.rec
        variant = failure.get('variant', 'abort-trunc')
        label = 'abortfault:' + variant
        fired = []
        if variant == 'vote-trunc':
            # the vote already ran with both faults armed (scenario); now the ordinary mandated abort
            self.mute = True
            r = self.call(env, 'abort', lambda: st.tpc_abort(obj), None, label=label)
            raised = state['failed'] is not None and 'vote' in state['failed']
            if r['out'] != 'ok':
                self.violation('C05:abort-raised:%s:%s' % (env.kind, label),
                               'the mandated tpc_abort after a failed vote raised ' + r['out'])
        else:
            want = ('trunc', 'Data.fs') if variant == 'abort-trunc' else ('remove', 'blobs')

            def arm(ev):
                if ev[0] == want[0] and str(ev[1]).startswith(want[1]) and not fired:
                    fired.append(ev)
                    rec.fail_at = rec.nmut + 1
            rec.on_event = arm
            filekind = env.kind in ('file', 'fileblob', 'blobfile') and variant == 'abort-trunc' and not env.oracle_only
            try:
                if not filekind:
                    self.mute = True
                r = self.call(env, 'abort', lambda: st.tpc_abort(obj),
                              'abortfault %d' % t if (filekind and state['voted']) else 'abort %d' % t, label=label)
            finally:
                rec.on_event = None
                rec.fail_at = None
            self.mute = True
            raised = r['out'] != 'ok'
        self.cleanup_blob_tmp(env)
        env_dead_after = True
        if not raised:
            self.count('abortfault-not-fired:' + variant)        # nothing to fail (e.g. no vote, no blob)
        else:
            self.count('abortfault-fired:' + variant)
            self.nontrivial = True
            if self.scen:
                self.scen[-1][1] = True
        locks = [('storage', env.inner._commit_lock)]
        if env.demo is not None:
            locks.append(('DemoStorage', env.demo._commit_lock))
        held = [n for n, l in locks if l.locked()]
        if held:
            env.dead = True
            self.violation('C05:abort-fault-lock-leak:%s' % env.kind,
                           'a raw operation of the abort itself failed (%s): tpc_abort raised %s and the %s '
                           'commit lock is still held — the next tpc_begin blocks forever' % (
                               variant, r['out'], ' and '.join(held)))
            return percall
        # blocks no one: the next transaction begins, commits, is readable and damages nothing
        self.next_txn(env, label, fresh_only=True)
        env.dead = env.dead or env_dead_after
        return percall

    def finish_failure_checks(self, env, r, tid, label):
        f = env.fs
        env.dead = True
        exp = 'err:IO'
        if r['out'] != exp:
            self.violation('C05:finish-failure:%s:not-raised' % env.kind,
                           'a failing status flip made tpc_finish answer %s' % r['out'])
            return
        probs = []
        if f._commit_lock.locked():
            probs.append('commit lock still held')
        if f._transaction is not None:
            probs.append('_transaction not cleared')
        if not f._file.closed:
            probs.append('storage not closed')
        if probs:
            self.violation('C05:finish-failure:%s:%s' % (env.kind, 'lock' if 'lock' in probs[0] else 'open'),
                           'failure at the status flip: ' + '; '.join(probs))
        self.emit('obs', None, 'after-finish-failure')
        self.nontrivial = True
        # reopen: the victim is there completely or not at all, and the file opens
        from ZODB.FileStorage import FileStorage
        try:
            env.cm.__exit__(None, None, None)
            env.cm = vfs.install(env.rec)
            env.cm.__enter__()
            kw = dict(blob_dir=env.blobdir) if env.kind in ('fileblob', 'hexfileblob') else {}
            g = FileStorage(f._file_name, **kw)
            tids = [u64(t.tid) for t in g.iterator()]
            self.count('finish-failure-reopen:' + ('present' if tid in tids else 'absent'))
            if tids[:len(env.alltids)] != env.alltids or tids[len(env.alltids):] not in ([], [tid]):
                self.violation('C05:finish-failure:%s:reopen' % env.kind,
                               'after a failure at the status flip the reopened file holds %r, expected %r '
                               'optionally followed by %d' % (tids, env.alltids, tid))
            g.close()
        except Exception as ex:
            self.violation('C05:finish-failure:%s:reopen' % env.kind,
                           'after a failure at the status flip the file cannot be reopened: %r' % (ex,))

    # ---- a sweep: count run, every raw fault index, every logical failure kind --------------
    def sweep(self, env, victim, rng, thorough):
        per = self.scenario(env, victim, dict(kind='count'))
        if self.violations and self.stop_at_first:
            return
        n = sum(p[1] for p in per if p[0] != 'abort')
        nd_vote = max([p[2] for p in per if p[0] == 'vote'] or [1])
        nops = len(victim['ops'])
        scen = []
        ks = list(range(1, n + 1))
        for k in ks:
            scen.append(dict(kind='raw', k=k, partial=0, nd_vote=nd_vote))
        pk = ks if thorough else rng.sample(ks, min(2, len(ks)))
        for k in pk:
            scen.append(dict(kind='raw', k=k, partial=rng.choice([1, 7, 40]), nd_vote=nd_vote))
        scen.append(dict(kind='abort', at=0))
        for i in (range(1, nops + 1) if thorough else sorted(set([1, nops]) - {0})):
            scen.append(dict(kind='abort', at=i))
        scen.append(dict(kind='abort', at='vote'))
        for w in range(3):
            if env.kind in FS_KINDS or w == 1:
                scen.append(dict(kind='meta', which=w, extra=rng.choice([0, 0, 1, 4000])))
        scen.append(dict(kind='conflict', at=rng.randrange(4)))
        if env.quota is not None:
            scen.append(dict(kind='quota'))
        for ph in (0, 1, 2):
            scen.append(dict(kind='foreign', phase=ph, commit=False))
        if not any(o[0] in (('undo',) if env.oracle_only else STAGING_UNMODELLED) for o in victim['ops']):
            # (the model cannot commit records staged by undo / restore)
            scen.append(dict(kind='foreign', phase=rng.choice([1, 2]), commit=True))
        for f in scen:
            if env.dead:
                break
            self.scenario(env, victim, f)
            if self.violations and self.stop_at_first:
                return

    def run(self, rng=None, thorough=False):
        case = self.case
        env = self.env = Env(case['kind'], case.get('quota'), case.get('base'), self.root, case.get('opts'))
        if env.oracle_only:
            self.mute = True            # no Lean model of this storage stack: real-code oracle only
        try:
            self.emit(env.model_reset(), 'ok')
            for step in case['steps']:
                if env.dead or (self.violations and self.stop_at_first):
                    break
                if step['type'] == 'commit':
                    self.executed.append(step)

                    def commit_step(step=step):
                        before = env.observe()
                        if not self.commit(env, step['txn']) and not env.dead:
                            # a history transaction that failed (e.g. deleteObject of an absent oid) and
                            # was aborted is one more victim
                            self.count('scenario:failed-commit')
                            if self.compare(env, before, 'failed-commit', 'a transaction failed and was aborted'):
                                self.next_txn(env, 'failed-commit')
                        if not env.dead:
                            self.obs_point(env, 'after-commit')
                    self.guarded(env, 'commit', commit_step)
                elif step['type'] == 'scenario':
                    self.scenario(env, step['victim'], step['failure'])
                elif step['type'] == 'sweep':
                    self.sweep(env, step['victim'], rng, thorough)
                else:
                    raise InfraError('bad step %r' % (step,))
            if not env.dead and not self.violations and not self.blocked:
                self.guarded(env, 'reopen', lambda: self.reopen_check(env))
        finally:
            env.close()
        return self

    def reopen_check(self, env):
        """no trace that only shows after a restart: close, reopen with the saved index, reopen by scan
        (index file removed) — every query answers as before the close"""
        if env.fs is None or env.kind not in FS_KINDS:
            return
        q0 = env.queries()
        pos0 = env.fs._pos
        for how in ('saved-index', 'scan'):
            try:
                if env.demo is not None:
                    env.fs.close()          # (closing a DemoStorage would also close its in-memory base)
                else:
                    env.st.close()
                if how == 'scan':
                    ix = os.path.join(env.root, 'Data.fs.index')
                    if os.path.exists(ix):
                        vfs._real_os['remove'](ix)
                env.build(first=False)
                q1 = env.queries()
                pos1 = env.fs._pos
            except Exception as e:
                self.violation('C05:reopen:%s:%s' % (env.kind, how),
                               'after the history of aborted / failed transactions the storage cannot be '
                               'closed and reopened (%s): %s: %s' % (how, type(e).__name__, str(e)[:150]))
                env.dead = True
                return
            self.count('reopen:' + how)
            if q1 != q0 or pos1 != pos0:
                bad = [k for k in sorted(set(q0) | set(q1), key=repr) if q0.get(k) != q1.get(k)][:3]
                self.violation('C05:trace-after-reopen:%s:%s' % (env.kind, how),
                               'closing and reopening the storage (%s) changes what it answers: _pos %d -> %d; '
                               '%s' % (how, pos0, pos1, '; '.join('%r: %s -> %s' % (
                                   k, str(q0.get(k))[:60], str(q1.get(k))[:60]) for k in bad)))
                return


# ---------------------------------------------------------------------------- generator
def gen_txn(rng, kind, oids, big=False, victim=False):
    """a transaction body; victims (never committed by the model) also use the entry points the model does
    not know: restore / restoreBlob with and without a back-pointer hint, checkCurrentSerialInTransaction
    (current and stale), new_oid; and may be empty"""
    nops = rng.choice([1, 1, 2, 2, 3, 4])
    if rng.random() < (0.12 if victim else 0.04):
        nops = 0                                  # an empty transaction
    ops = []
    for _ in range(nops):
        oid = rng.choice(oids)
        r = rng.random()
        if big and r < 0.5:
            dlen = rng.choice([8150, 8192, 9000, 20000, 70000, 140000])
        else:
            dlen = rng.choice([1, 2, 30, 100, 500, 4000])
        tag = rng.choice(safe_tags())
        r = rng.random()
        if victim and r < 0.10 and kind in FS_KINDS:
            ops.append(['restore', oid, dlen, tag, rng.choice(['none', 'cur'])])
        elif victim and r < 0.14 and kind in BLOB_KINDS and kind in FS_KINDS:
            ops.append(['restoreblob', oid, dlen, tag, rng.choice(['none', 'cur'])])
        elif victim and r < 0.22:
            ops.append(['checkcurrent', oid, rng.choice(['cur', 'cur', 'stale'])])
        elif victim and r < 0.26:
            ops.append(['newoid'])
        elif kind in BLOB_KINDS and r < 0.50:
            ops.append(['storeblob', oid, 'cur', dlen, tag])
        elif kind in FILE_KINDS and r < 0.58:
            ops.append(['delete', oid, 'cur'])
        else:
            ops.append(['store', oid, 'cur', dlen, tag])
    return dict(u=rng.choice([0, 0, 3, 40]), d=rng.choice([0, 5, 5, 300, 300, 2000, 65535]) if rng.random() < 0.9 else 0,
                e=rng.choice([0, 0, 0, 20]), ops=ops)


def partial_undo_steps(rng):
    """T(A, B); T'(B again); victim: undo T — A's undo record is staged, B cannot be undone, the call
    raises MultipleUndoErrors; abort (before or after more stores); the next commit must be clean"""
    a, b = 11, 12
    sz = rng.choice([5, 300, 9000])
    steps = [dict(type='commit', txn=dict(u=0, d=3, e=0, ops=[['store', a, 'cur', sz, 21], ['store', b, 'cur', 7, 22]])),
             dict(type='commit', txn=dict(u=0, d=0, e=0, ops=[['store', b, 'cur', 9, 23]]))]
    for ops in ([['undo', 'prev']], [['store', 13, 'cur', 4, 24], ['undo', 'prev']]):
        steps.append(dict(type='scenario', victim=dict(u=0, d=5, e=0, ops=ops), failure=dict(kind='abort', at=len(ops))))
    return steps


def gen_case(rng, kind, thorough):
    oids = [1, 2, 3, 5, 8, 2 ** 16 + 1, 255, 2 ** 63 + 5, 0]     # incl. 0xff bytes, the high bit, the root oid
    ncommit = rng.choice([2, 3, 4, 6])
    steps = []
    nv = 0
    maxv = 3 if not thorough else ncommit + 1
    base = []
    if kind.startswith('demo'):
        base = [(oid, BASE_T0 + 16 * (i + 1)) for i, oid in enumerate(rng.sample(oids, 2))]
    vpos = set(rng.sample(range(ncommit + 1), min(maxv, ncommit + 1)))
    size = 4
    for i in range(ncommit + 1):
        if i in vpos and nv < maxv:
            v = gen_txn(rng, kind, oids, big=(rng.random() < 0.35 and kind in FS_KINDS), victim=True)
            v['d'] = min(v['d'], 300)
            if kind in ('blobfile', 'blobhexfile') and i > 0:
                # undo of the transaction committed just before (it created or rewrote a blob), inside a
                # two-phase commit that does not finish
                others = [o for o in v['ops'] if o[0] == 'store' and o[1] not in (1, 2)][:1]
                v['ops'] = rng.choice([[['undo', 'last']], [['undo', 'last']] + others, others + [['undo', 'last']]])
            steps.append(dict(type='sweep', victim=v))
            nv += 1
        if i < ncommit:
            txn = gen_txn(rng, kind, oids)
            if kind in ('blobfile', 'blobhexfile') and (i + 1) in vpos:
                txn['ops'] = [['storeblob', rng.choice([1, 2]), 'cur', rng.choice([5, 300]), rng.choice(safe_tags())]] \
                    + [o for o in txn['ops'] if o[0] == 'store' and o[1] not in (1, 2)][:1]
            steps.append(dict(type='commit', txn=txn))
    if kind in FILE_KINDS and rng.random() < 0.6:
        steps[0:0] = partial_undo_steps(rng)
    if kind in FS_KINDS and rng.random() < 0.3:
        # a transaction larger than 64 KiB (utils.cp chunks) right after a still larger one: the staging
        # file keeps the longer one's bytes behind the shorter one's end
        bigger = dict(u=0, d=5, e=0, ops=[['store', 21, 'cur', 200000, 31], ['store', 22, 'cur', 10, 32]])
        smaller = dict(u=0, d=5, e=0, ops=[['store', 21, 'cur', 70000, 33]])
        steps[1:1] = [dict(type='scenario', victim=bigger, failure=dict(kind='abort', at='vote')),
                      dict(type='scenario', victim=smaller, failure=dict(kind='abort', at='vote')),
                      dict(type='commit', txn=bigger), dict(type='commit', txn=smaller)]
    quota = None
    if kind in ('file', 'fileblob', 'demofile', 'hexfile', 'demopushed') and rng.random() < 0.5:
        quota = rng.choice([600000, 1000000, 2000000])
    opts = {}
    if kind in ('file', 'fileblob', 'mapping', 'demofile', 'demomapping', 'hexfile') and rng.random() < 0.4:
        opts['via'] = 'config'                    # built by ZODB.config.storageFromString
        opts['pack_gc'], opts['pack_keep_old'] = rng.choice(['true', 'false']), rng.choice(['true', 'false'])
    elif kind in FS_KINDS and rng.random() < 0.3:
        opts['fileopts'] = True                   # create=True, pack_gc=False, pack_keep_old=False
    if kind in ('blobfile', 'blobmapping', 'blobhexfile', 'blobdemofile') and rng.random() < 0.5:
        opts['layout'] = rng.choice(['lawn', 'bushy'])
    if kind in BUDDY_KINDS and rng.random() < 0.4:
        opts['buddy'] = True                      # a second storage of the same kind, interleaved
    r = rng.random()
    if kind in FILE_KINDS and r < 0.35:
        v = gen_txn(rng, kind, oids)
        v['d'] = min(v['d'], 300)
        steps.append(dict(type='scenario', victim=v, failure=dict(kind='finishfault')))
    elif (kind in FS_KINDS or kind == 'blobmapping') and r < 0.75:
        v = gen_txn(rng, kind, oids)
        v['d'] = min(v['d'], 300)
        variants = ['abort-trunc', 'vote-trunc'] if kind != 'blobmapping' else []
        if kind in BLOB_KINDS:
            variants.append('abort-remove')
            v['ops'] = [['storeblob', 3, 'cur', 20, 77]] + [o for o in v['ops'] if o[0] != 'delete']
        else:
            v['ops'] = [o for o in v['ops'] if o[0] != 'delete'] or [['store', 1, 'cur', 5, 5]]
        steps.append(dict(type='scenario', victim=v, failure=dict(kind='abortfault', variant=rng.choice(variants))))
    elif r > 0.85:
        v = gen_txn(rng, kind, oids)
        v['d'] = min(v['d'], 300)
        v['ops'] = [o for o in v['ops'] if o[0] != 'delete'] or [['store', 1, 'cur', 5, 5]]
        steps.append(dict(type='scenario', victim=v, failure=dict(kind='finishcb')))
    return dict(kind=kind, quota=quota, base=base, steps=steps, opts=opts)


# ---------------------------------------------------------------------------- Connection level
CONN_STORAGES = ['file', 'fileblob', 'mapping', 'demofile', 'hexfile', 'mvccmapping', 'blobfile', 'file-config']


def gen_conn_spec(rng, storage=None):
    """rounds of failing commits driven through transaction.commit() on a Connection"""
    storage = storage or rng.choice(CONN_STORAGES)
    undoable = storage in ('file', 'fileblob', 'blobfile', 'hexfile', 'file-config')
    rounds = []
    for when in ('vote', 'commit', 'begin'):
        rounds.append(dict(kind='foreign', when=when, first=rng.random() < 0.4,
                           savepoint=rng.choice([False, False, True, 'optimistic']),
                           size=rng.choice([1, 5000, 30000, 70000])))
    for sp in (True, False, 'optimistic'):
        rounds.append(dict(kind='conflict', savepoint=sp, on=rng.randrange(2), size=rng.choice([1, 300, 9000])))
    if storage != 'mapping' and storage != 'mvccmapping':
        rounds.append(dict(kind='meta', savepoint=rng.random() < 0.5, size=rng.choice([1, 300])))
    rounds.append(dict(kind='savepoint-fail', size=rng.choice([1, 300])))
    # a transaction that only declares readCurrent and is aborted (it never joined), or that also wrote
    # and failed: the declaration must not outlive it
    # a change made through a HISTORICAL connection (db.open(before=… / at=…)): its commit is refused with
    # ReadOnlyHistoryError only after the storage transaction has begun
    rounds.append(dict(kind='historical', how=rng.choice(['before', 'at']), size=1))
    rounds.append(dict(kind='readcurrent', how='readonly', size=1))
    rounds.append(dict(kind='readcurrent', how='joined', when='vote', size=1))
    rounds.append(dict(kind='import', savepoint=rng.random() < 0.5, cut=rng.choice([0.3, 0.6, 0.95]), size=1))
    rounds.append(dict(kind='multidb', how=rng.choice(['conflict', 'foreign']), when=rng.choice(['vote', 'commit']),
                       size=rng.choice([1, 300])))
    if undoable:
        # db.undo() / undoMultiple() joined to a transaction that does not finish: the undo is impossible
        # (UndoError in the commit phase), another participant fails before / after the undo manager
        # voted, or plain abort
        rounds.append(dict(kind='undo', how='impossible', size=1))
        rounds.append(dict(kind='undo', how='multiple', size=1))
        for when in ('begin', 'commit', 'vote'):
            rounds.append(dict(kind='undo', how='foreign', when=when, first=rng.random() < 0.5, size=1))
        rounds.append(dict(kind='undo', how='foreign', when='vote', first=False, size=1))
        rounds.append(dict(kind='undo', how='early', size=1))
    rng.shuffle(rounds)
    return dict(kind='conn', storage=storage, explicit=rng.random() < 0.3, nobj=rng.choice([2, 3]), rounds=rounds,
                dbopts=rng.choice([{}, dict(pool_size=2, cache_size=3, historical_pool_size=1,
                                            large_record_size=1 << 14)]))


class ForeignFailure(RuntimeError):
    pass


class FailingRM:
    """a second resource manager of the transaction that fails at the given phase"""

    def __init__(self, when, first=False):
        self.when = when
        self.first = first

    def sortKey(self):
        # '~…' sorts (and so begins / votes) after the connection or the undo manager, ' …' before it
        return ' !!first' if self.first else '~~~~zzzz'

    def abort(self, t):
        pass

    def tpc_begin(self, t):
        if self.when == 'begin':
            raise ForeignFailure('foreign participant fails tpc_begin')

    def commit(self, t):
        if self.when == 'commit':
            raise ForeignFailure('foreign participant fails commit')

    def tpc_vote(self, t):
        if self.when == 'vote':
            raise ForeignFailure('foreign participant votes no')

    def tpc_finish(self, t):
        pass

    def tpc_abort(self, t):
        pass


class NoSavepointRM:
    """a participant that cannot do savepoints: transaction.savepoint() fails while it is joined"""

    def sortKey(self):
        return '~nosavepoint'

    def abort(self, t):
        pass

    tpc_begin = commit = tpc_vote = tpc_finish = tpc_abort = abort


def conn_storage(kind, root, name='Data.fs'):
    """-> (storage handed to DB, the FileStorage below it or None, object owning the commit lock)"""
    from ZODB.FileStorage import FileStorage
    from ZODB.MappingStorage import MappingStorage
    from ZODB.DemoStorage import DemoStorage
    from ZODB.blob import BlobStorage
    from ZODB.tests.hexstorage import HexStorage
    path = os.path.join(root, name)
    blobs = os.path.join(root, 'blobs-' + name)
    if kind in ('file', 'file-config'):
        f = FileStorage(path)
        return f, f, f
    if kind == 'fileblob':
        f = FileStorage(path, blob_dir=blobs)
        return f, f, f
    if kind == 'blobfile':
        f = FileStorage(path)
        return BlobStorage(blobs, f), f, f
    if kind == 'hexfile':
        f = FileStorage(path)
        return HexStorage(f), f, f
    if kind == 'demofile':
        f = FileStorage(path)
        return DemoStorage(base=MappingStorage('base'), changes=f), f, f
    if kind == 'mapping':
        m = MappingStorage()
        return m, None, m
    if kind == 'mvccmapping':
        from ZODB.tests.MVCCMappingStorage import MVCCMappingStorage
        m = MVCCMappingStorage()
        return m, None, m
    raise InfraError('unknown connection-level storage %r' % kind)


def conn_case(ck, root, spec):
    """Connection level (anchors Connection.py, DB.py): a transaction on a Connection — over FileStorage
    (with / without blobs, hex-wrapped, under BlobStorage, as DemoStorage changes, built by ZODB.config),
    MappingStorage or the natively multi-version MVCCMappingStorage, with implicit or explicit
    transaction managers, alone or in a multi-database group — fails during transaction.commit(): a second
    resource manager failing its tpc_begin / commit / vote ordered before or after the connection, a
    ConflictError (also while savepoint data is copied, also after optimistic savepoints), over-long
    description, a failing savepoint, a truncated importFile, DB.undo / undoMultiple victims, one database
    of a group failing — and is aborted.  Oracle only: the storages (bytes, iterator, memory) are as
    before, the committing connection shows exactly what a brand-new connection reads, the next
    transaction on it commits (worker thread + timeout) storing nothing but its own change, and after
    close + reopen the database reads the same."""
    import io
    import transaction
    import ZODB
    from ZODB.blob import Blob
    from persistent.mapping import PersistentMapping
    import clock
    rec = vfs.Recorder(root)
    skind = spec.get('storage', 'file')

    def stop(sig, what, case):
        """report; an open known finding does not end the case (it must not shadow later rounds)"""
        import re as _re
        ck.violation(sig, what, case)
        return not any(k.get('status', 'open') == 'open' and _re.fullmatch(k['signature'], sig) for k in ck.known)

    def restart(tm):
        try:
            tm.abort()
        except Exception:
            pass
        tm.begin()

    keys = ['k%d' % i for i in range(spec['nobj'])]
    explicit = bool(spec.get('explicit'))
    with vfs.install(rec), clock.scripted():
        storage, fs, owner = conn_storage(skind, root)
        dbs = {}
        if skind == 'file-config':
            import ZODB.config
            fs.close()
            db = ZODB.config.databaseFromString(
                '<zodb main>\n <filestorage>\n  path %s\n </filestorage>\n cache-size 7\n pool-size 3\n'
                ' historical-pool-size 2\n database-name main\n</zodb>\n' % os.path.join(root, 'Data.fs'))
            dbs = db.databases
            storage = fs = owner = db.storage
        else:
            db = ZODB.DB(storage, databases=dbs, database_name='main', **spec.get('dbopts', {}))
        storage2, fs2, owner2 = conn_storage('file', root, 'Other.fs')
        db2 = ZODB.DB(storage2, databases=dbs, database_name='other')
        has_blobs = skind in ('fileblob', 'blobfile')
        tm1 = transaction.TransactionManager(explicit=explicit)
        tm1.begin()
        c1 = db.open(tm1)
        r1 = c1.root()
        for k in keys:
            r1[k] = PersistentMapping({'v': 0})
        if has_blobs:
            r1['blob'] = Blob(b'blob-0')
        r1['rc'] = PersistentMapping({'v': 0})          # only ever read (readCurrent) by connection 1
        c1.get_connection('other').root()['o'] = PersistentMapping({'v': 0})
        tm1.commit()
        tm2 = transaction.TransactionManager()
        c2 = db.open(tm2)

        def flags(o, f):
            d = dict(lock=not o._commit_lock.locked())
            if hasattr(o, '_transaction') and skind != 'mvccmapping':
                d['txn'] = o._transaction is None
            if f is not None:
                d.update(pos=f._pos, ltid=f._ltid, nidx=len(f._index), ntidx=len(f._tindex),
                         tfile=f._tfile.tell(), pool=(f._files.writing, f._files.writers, len(f._files._out)))
            return d

        def image():
            img = {k: v for k, v in vfs.snapshot(root).items()
                   if not k.endswith('/') and not k.endswith('.lock') and not k.endswith('.tmp')
                   and (os.sep + 'tmp' + os.sep) not in k}
            its = [(t.tid, [(x.oid, x.tid, x.data) for x in t]) for t in db.storage.iterator()]
            its2 = [(t.tid, [(x.oid, x.tid, x.data) for x in t]) for t in db2.storage.iterator()]
            d = dict(img=img, its=its, its2=its2)
            d.update(('main.' + k, v) for k, v in flags(owner, fs).items())
            d.update(('other.' + k, v) for k, v in flags(owner2, fs2).items())
            return d

        def view(conn):
            v = {k: dict(conn.root()[k].data) for k in keys}
            v['o'] = dict(conn.get_connection('other').root()['o'].data)
            v['rc'] = dict(conn.root()['rc'].data)
            for k in sorted(conn.root().keys()):
                if k.startswith('relinked'):
                    o = conn.root()[k]
                    v[k] = (type(o).__name__, len(o))    # loading it fails if its record is missing
            if has_blobs:
                with conn.root()['blob'].open('r') as f:
                    v['blob'] = f.read()
            return v

        def fresh_view(dbx=None):
            tm = transaction.TransactionManager()
            c = (dbx or db).open(tm)
            try:
                return view(c)
            finally:
                tm.abort()
                c.close()

        for n, rd in enumerate(spec['rounds']):
            case = dict(spec, rounds=spec['rounds'][:n + 1])
            label = rd['kind'] + ('-' + rd['when'] + ('-first' if rd.get('first') else '-last')
                                  if rd['kind'] == 'foreign' else '') + (
                '-savepoint' if rd.get('savepoint') else '')
            if rd['kind'] == 'undo':
                label = 'undo-' + rd['how'] + ('-' + rd['when'] + ('-first' if rd.get('first') else '-last')
                                               if rd['how'] == 'foreign' else '')
            if rd['kind'] == 'multidb':
                label = 'multidb-' + rd['how']
            if rd['kind'] == 'readcurrent':
                label = 'readcurrent-' + rd['how']
            if rd['kind'] == 'historical':
                label = 'historical-' + rd['how']
            ck.count('conn:' + label)
            ck.count('conn-storage:' + skind + (':explicit' if explicit else ''))
            try:
                restart(tm1)
                tmc = tm1                    # the transaction manager whose commit fails
                pre_raised = None
                objs = [r1[k] for k in keys] if rd['kind'] not in ('undo', 'historical') else []
                newobjs = []
                ch = None
                if rd['kind'] == 'historical':
                    tmc = transaction.TransactionManager()
                    r1[keys[0]]._p_activate()
                    ser = r1[keys[0]]._p_serial           # a point in the past at which the object exists
                    try:
                        ch = db.open(tmc, **({'before': p64(u64(ser) + 1)} if rd['how'] == 'before' else {'at': ser}))
                    except ValueError:
                        # (MVCCMappingStorage's main object never learns the last tid: "in the future")
                        ck.count('conn:historical-not-supported:' + skind)
                        continue
                    ch.root()[keys[0]]['v'] = 'changed-in-the-past-%d' % n
                if rd['kind'] == 'readcurrent':
                    c1.readCurrent(r1['rc'])
                    objs = objs[:1] if rd['how'] == 'joined' else []
                if objs and rd['kind'] in ('foreign', 'conflict', 'meta', 'multidb', 'readcurrent'):
                    # new objects of the failing transaction, some of them EMPTY (falsy) containers: a failed
                    # commit must disown every one of them (no oid, no jar) although their records were
                    # already handed to the storage or the savepoint store
                    from persistent.list import PersistentList
                    from BTrees.OOBTree import OOBTree
                    newobjs = [PersistentMapping(), PersistentMapping({'x': n}), PersistentList(), OOBTree()]
                    newinfo = [(type(o).__name__, len(o)) for o in newobjs]
                    for j, o in enumerate(newobjs):
                        r1['new-%d-%d' % (n, j)] = o
                if rd['kind'] == 'undo':
                    # no connection takes part (it would compete with the undo manager for the same
                    # commit lock): the undo manager, alone or with a failing second participant
                    tmc = transaction.TransactionManager()
                    log = db.undoLog(0, 6)
                    if (rd['how'] == 'impossible' and len(log) < 2) or (rd['how'] == 'multiple' and len(log) < 3):
                        continue
                    # every later transaction rewrote all objects, so only the newest one can be undone
                    if rd['how'] == 'multiple':
                        # the newest (undoable) together with an older one whose objects were rewritten since
                        db.undoMultiple([log[0]['id'], log[2]['id']], tmc.get())
                    else:
                        db.undo(log[1]['id'] if rd['how'] == 'impossible' else log[0]['id'], tmc.get())
                    if rd['how'] == 'foreign':
                        tmc.get().join(FailingRM(rd['when'], rd.get('first', False)))
                sp = rd.get('savepoint')
                for i, o in enumerate(objs):
                    o['v'] = 'r%d-%d-' % (n, i) + 'y' * rd['size']
                    if sp and i == 0:
                        tm1.savepoint(optimistic=(sp == 'optimistic'))
                if objs and has_blobs and rd['kind'] in ('foreign', 'conflict'):
                    with r1['blob'].open('w') as f:
                        f.write(b'blob-r%d' % n)
                if sp and objs:
                    tm1.savepoint(optimistic=(sp == 'optimistic'))
                if rd['kind'] == 'conflict':
                    tm2.begin()
                    c2.root()[keys[rd['on'] % len(keys)]]['v'] = 'other-%d' % n
                    tm2.commit()
                elif rd['kind'] == 'foreign' or (rd['kind'] == 'readcurrent' and rd['how'] == 'joined'):
                    tm1.get().join(FailingRM(rd['when'], rd.get('first', False)))
                elif rd['kind'] == 'meta':
                    tm1.get().note('d' * 70000)
                elif rd['kind'] == 'multidb':
                    # both databases of the group take part; the OTHER one fails
                    c1.get_connection('other').root()['o']['v'] = 'r%d' % n
                    if rd['how'] == 'conflict':
                        tmo = transaction.TransactionManager()
                        co = db2.open(tmo)
                        co.root()['o']['v'] = 'rival-%d' % n
                        tmo.commit()
                        co.close()
                    else:
                        tm1.get().join(FailingRM(rd['when'], False))
                # a savepoint may already have evicted a new object from a tiny cache (cacheGC; its state then
                # lives in the savepoint store only and cannot survive the transaction): not judged
                evicted = [o._p_changed is None for o in newobjs]
                before = image()
                n0 = len(rec.events)
                if rd['kind'] == 'savepoint-fail':
                    tm1.get().join(NoSavepointRM())
                    try:
                        tm1.savepoint()
                    except Exception as e:
                        pre_raised = e
                elif rd['kind'] == 'import':
                    buf = io.BytesIO()
                    c1.exportFile(r1[keys[0]]._p_oid, buf)
                    data = buf.getvalue()
                    try:
                        c1.importFile(io.BytesIO(data[:max(5, int(len(data) * rd['cut']))]))
                    except Exception as e:
                        pre_raised = e
                try:
                    if rd.get('how') in ('early', 'readonly'):
                        raise ForeignFailure('aborted before the commit began')
                    if pre_raised is not None:
                        raise pre_raised
                    tmc.commit()
                    raised = None
                except Exception as e:          # the failure under test
                    raised = e
                tmc.abort()
                if ch is not None:
                    ch.close()
                evs = [e for e in rec.events[n0:] if e[0] in ('write', 'trunc') and e[1] == 'Data.fs']
                kinds = ''.join('w' if e[0] == 'write' else 't' for e in evs)
                ck.count('conn:data-trace:' + ('write+trunc' if 't' in kinds else (kinds and 'write' or 'none')))
                ck.case(['conn', skind, explicit, rd, kinds], True)
                if raised is None:
                    if rd['kind'] in ('import', 'savepoint-fail') or rd.get('how') in ('multiple', 'impossible'):
                        ck.count('conn:%s-did-not-fail' % label)      # (an export cut at a record boundary)
                        continue
                    if stop('C05:conn:%s-not-raised' % label, 'transaction.commit() did not raise', case):
                        return
                    restart(tm1)
                    continue
                # the savepoint store of the failed transaction (a TmpStore with an open temporary file) must
                # be closed once the transaction has ended (`raised` keeps the failing frames alive, so a
                # store that was merely dropped is still found here)
                import gc
                open_tmp = [o for o in gc.get_objects() if type(o).__name__ == 'TmpStore'
                            and getattr(getattr(o, '_file', None), 'closed', True) is False]
                if open_tmp:
                    if stop('C05:trace-left:tmpstore-open:%s' % label,
                                 'transaction.commit() failed (%s: %s) and was aborted; %d savepoint store(s) '
                                 '(TmpStore) of the ended transaction still hold an open temporary file' % (
                                     label, type(raised).__name__, len(open_tmp)), case):
                        return
                    restart(tm1)
                    continue
                after = image()
                if before != after:
                    diff = [k for k in before if before[k] != after[k]]
                    sig = 'C05:lock-leak:conn:%s' % label if any('lock' in k for k in diff) \
                        else 'C05:trace-left:conn:%s' % label
                    if stop(sig, 'transaction.commit() failed (%s: %s) and was aborted; afterwards the '
                                      'storage (%s) differs in %s' % (label, type(raised).__name__, skind, diff), case):
                        return
                    restart(tm1)
                    continue
                kept = [type(o).__name__ + ('(empty)' if not len(o) else '') for o in newobjs
                        if o._p_oid is not None or o._p_jar is not None]
                if kept:
                    if stop('C05:trace-left:conn-new-object:%s' % label,
                            'transaction.commit() failed (%s: %s) and was aborted, the storage rolled the records '
                            'back, but new objects of that transaction still carry an oid / a connection: %s' % (
                                label, type(raised).__name__, ', '.join(kept)), case):
                        return
                    restart(tm1)
                    continue
                lost = [type(o).__name__ for o, ev in zip(newobjs, evicted)
                        if o._p_oid is None and o._p_changed is None and not ev]
                if any(evicted):
                    ck.count('conn:new-object-evicted-by-savepoint')
                    keep = [j for j, ev in enumerate(evicted) if not ev]
                    newobjs = [newobjs[j] for j in keep]
                    newinfo = [newinfo[j] for j in keep]
                if lost:
                    # (disowned AND turned into a ghost: its state existed only in this transaction)
                    newobjs = []
                    if stop('C05:trace-left:conn-new-object-state-lost:%s' % label,
                            'transaction.commit() failed (%s: %s) and was aborted; new objects of that '
                            'transaction were disowned but also invalidated: their in-memory state is gone '
                            '(ghosts without a connection): %s — linking the same instance again cannot be '
                            'committed' % (label, type(raised).__name__, ', '.join(lost)), case):
                        return
                if rd['kind'] == 'readcurrent':
                    # meanwhile another connection changes the object that was only declared readCurrent
                    tm2.begin()
                    c2.root()['rc']['v'] = 'changed-%d' % n
                    tm2.commit()
                # the committing connection shows what a brand-new connection reads
                restart(tm1)
                v1, v3 = view(c1), fresh_view()
                if v1 != v3:
                    bad = [k for k in v1 if v1[k] != v3[k]]
                    if stop('C05:trace-left:conn-view:%s' % label,
                                 'after the failed and aborted commit (%s) the committing connection shows %s = '
                                 '%r, a new connection reads %r' % (label, bad[0], str(v1[bad[0]])[:80],
                                                                    str(v3[bad[0]])[:80]), case):
                        return
                    restart(tm1)
                    continue
                # the next transaction: an unrelated change to every object, in both databases
                done = []

                def nxt():
                    try:
                        for k in keys:
                            r1[k]['w'] = n
                        c1.get_connection('other').root()['o']['w'] = n
                        for j, o in enumerate(newobjs):
                            r1['relinked-%d' % j] = o          # the retry links the very same instances
                        tm1.commit()
                        done.append(1)
                    except Exception as e:
                        done.append(e)
                th = threading.Thread(target=nxt, daemon=True)
                th.start()
                th.join(TIMEOUT)
                if not done:
                    if stop('C05:lock-leak:conn:%s' % label, 'the next transaction.commit() did not return', case):
                        return
                    restart(tm1)
                    continue
                if done[0] != 1:
                    if stop('C05:next-txn-failed:conn:%s' % label,
                                 'the next transaction.commit() raised %r' % (done[0],), case):
                        return
                    restart(tm1)
                    continue
                exp = {k: (dict(v3[k], w=n) if k in keys or k == 'o' else v3[k]) for k in v3}
                for j, o in enumerate(newobjs):
                    exp['relinked-%d' % j] = newinfo[j]
                got = fresh_view()
                if got != exp:
                    bad = [k for k in exp if got[k] != exp[k]]
                    if stop('C05:next-txn-damaged-others:conn:%s' % label,
                                 'the transaction after the failed one changed only "w", but a new connection '
                                 'now reads %s = %r instead of %r' % (bad[0], str(got[bad[0]])[:80],
                                                                      str(exp[bad[0]])[:80]), case):
                        return
                    restart(tm1)
                    continue
            except Exception as e:
                if stop('C05:conn:unexpected-error:%s' % label,
                             'driving a Connection through a failing commit raised %s: %s' % (
                                 type(e).__name__, str(e)[:200]), case):
                    return
                restart(tm1)
                continue
        # close + reopen: nothing of the failed transactions shows after a restart
        try:
            final = fresh_view()
            try:
                tm1.abort()
            except Exception:               # explicit mode: no transaction to abort
                pass
            c1.close()
            c2.close()
            db.close()
            db2.close()
            if fs is not None and skind != 'demofile':
                storage, fs, owner = conn_storage('file' if skind == 'file-config' else skind, root)
                storage2, fs2, owner2 = conn_storage('file', root, 'Other.fs')
                dbs = {}
                db = ZODB.DB(storage, databases=dbs, database_name='main')
                db2 = ZODB.DB(storage2, databases=dbs, database_name='other')
                again = fresh_view(db)
                ck.count('conn:reopen')
                if again != final:
                    bad = [k for k in final if again.get(k) != final[k]]
                    ck.violation('C05:trace-after-reopen:conn:%s' % skind,
                                 'after close and reopen a new connection reads %s = %r instead of %r' % (
                                     bad[0], str(again.get(bad[0]))[:80], str(final[bad[0]])[:80]), dict(spec))
                db.close()
                db2.close()
        except Exception as e:
            ck.violation('C05:conn:unexpected-error:reopen', 'closing / reopening the databases raised %s: %s' % (
                type(e).__name__, str(e)[:200]), dict(spec))


# ---------------------------------------------------------------------------- driver / verdict
CORPUS_DIR = os.path.join(os.path.dirname(os.path.dirname(os.path.abspath(__file__))), 'corpus', 'C05')


def load_corpus():
    """minimised past failures / reproduced defects, always run first (the first two are the repaired
    DemoStorage begin-failure lock leak and the BlobStorage foreign-abort defect)"""
    cases = []
    if os.path.isdir(CORPUS_DIR):
        for f in sorted(os.listdir(CORPUS_DIR)):
            if f.endswith('.json'):
                with open(os.path.join(CORPUS_DIR, f)) as fh:
                    c = json.load(fh)
                cases.append(c.get('case', c))
    if not cases:
        raise InfraError('corpus/C05 is missing')
    return cases


def run_case(ck, case, idx, rng=None, thorough=False, stop_at_first=True, tmp=None):
    root = os.path.join(tmp or ck.tmp, 'case%d' % idx)
    if os.path.exists(root):
        shutil.rmtree(root)
    os.makedirs(root)
    import tempfile
    saved_tmp = tempfile.tempdir
    tempfile.tempdir = root           # DemoStorage's on-demand blob directory etc. stay below the case directory
    try:
        r = Runner(None, case, root, stop_at_first=stop_at_first)
        r.run(rng, thorough)
    finally:
        tempfile.tempdir = saved_tmp
    shutil.rmtree(root, ignore_errors=True)
    return r


def _work(args):
    """one case in a worker process; returns plain data only"""
    import random
    tmp, seed, idx, case, thorough = args
    sub = random.Random('%s-%d-%d' % (seed, idx, len(case['steps'])))
    try:
        r = run_case(None, case, idx, sub, thorough, tmp=tmp)
    except InfraError as e:
        return dict(idx=idx, infra=str(e))
    except Exception as e:          # a harness bug must surface as an infrastructure error
        import traceback
        return dict(idx=idx, infra='%r\n%s' % (e, traceback.format_exc()[-1500:]))
    return dict(idx=idx, stats=r.stats, scen=r.scen, violations=r.violations, executed=r.executed,
                lines=r.lines, nontrivial=r.nontrivial, known_hits=r.known_hits)


_ctr = [0]
CUR_OPTS = [None]         # construction options of the case being shrunk


def replay_fails(ck, kind, quota, base, steps, sig, opts=None):
    _ctr[0] += 1
    try:
        r = run_case(ck, dict(kind=kind, quota=quota, base=base, steps=steps, opts=opts or CUR_OPTS[0]), 100000 + _ctr[0])
    except Exception:
        return False
    return any(v[0] == sig for v in r.violations)


def main(argv=None):
    ck = Check('C05', argv)
    ck.extra['modules'] = ['Props.C05', 'Drivers.TwoPC']
    ck.run_gate(ck.extra['modules'], ['Props.C05'])
    import random
    cases = []
    if ck.replay_path:
        with open(ck.replay_path) as f:
            c = json.load(f)['case']
        if c.get('kind') == 'conn':
            conn_root = os.path.join(ck.tmp, 'conn')
            os.makedirs(conn_root)
            conn_case(ck, conn_root, c)
            return finish(ck)
        cases = [c]
    else:
        cases += load_corpus()
        n = 24 if not ck.thorough else 300
        for i in range(n):
            # every storage kind at least once, then weighted towards the file based ones
            kind = KINDS[i] if i < len(KINDS) else ck.rng.choice(KINDS + ['file', 'fileblob', 'blobfile', 'demofile'])
            cases.append(gen_case(ck.rng, kind, ck.thorough))
    all_lines = []
    spans = []
    KNOWN_OPEN[:] = [k['signature'] for k in ck.known if k.get('status', 'open') == 'open']
    jobs = [(ck.tmp, ck.seed, idx, case, ck.thorough) for idx, case in enumerate(cases)]
    if ck.thorough and len(jobs) > 8:
        import multiprocessing
        with multiprocessing.get_context('fork').Pool(min(14, os.cpu_count() or 2)) as pool:
            results = pool.map(_work, jobs, chunksize=1)
    else:
        results, nblocked = [], 0
        for j in jobs:
            if nblocked >= 2:
                ck.count('case-skipped-after-blocked-steps')     # keep the run short: the verdict is clear
                continue
            res = _work(j)
            results.append(res)
            if any(v[0].startswith('C05:step-blocked') for v in res.get('violations', [])):
                nblocked += 1

    class R:
        pass
    for res in results:
        if 'infra' in res:
            raise InfraError('case %d: %s' % (res['idx'], res['infra']))
        idx, case = res['idx'], cases[res['idx']]
        r = R()
        r.__dict__.update(res)
        for k, v in r.stats.items():
            ck.count(k, v)
        ck.count('kind:' + case['kind'])
        canon = dict(kind=case['kind'], quota=case.get('quota'), steps=case['steps'])
        for j, (canon_s, nt) in enumerate(r.scen):
            ck.case(canon_s, nt, sample=dict(kind=case['kind'], scenario=canon_s,
                                            model_lines=[l[0] for l in r.lines[-12:]]) if nt and j == 3 else None)
        if not r.scen:
            ck.case(canon, False)
        for sig, what, at in r.known_hits[:3]:
            ck.violation(sig, what, dict(kind=case['kind'], quota=case.get('quota'), base=case.get('base'),
                                         steps=r.executed[:at + 1]))
        if r.violations:
            sig, what, at = r.violations[0]
            steps = r.executed[:at + 1]
            kind, quota, base = case['kind'], case.get('quota'), case.get('base')
            CUR_OPTS[0] = case.get('opts')
            if ck.violations:
                small = steps               # only the first violation is shrunk (it is the one reported)
            elif sig.startswith('C05:step-blocked'):
                # every failing replay costs the full step timeout: try the two obvious reductions only
                small = steps
                for cand in (steps[-1:], [x for x in steps[:-1] if x['type'] == 'commit'] + steps[-1:]):
                    if len(cand) < len(small) and replay_fails(ck, kind, quota, base, cand, sig):
                        small = cand
                        break
            elif replay_fails(ck, kind, quota, base, steps, sig):
                small = ddmin(steps, lambda s: replay_fails(ck, kind, quota, base, s, sig), max_tests=60)
            else:
                small = steps
            ck.violation(sig, what, dict(kind=kind, quota=quota, base=base, steps=small, opts=case.get('opts')))
        else:
            spans.append((len(all_lines), r, case))
            all_lines += r.lines
    # model: one driver process for all cases
    if all_lines:
        out = run_driver('TwoPC', [l[0] for l in all_lines], timeout=900)
        for start, r, case in spans:
            for j, (line, exp, label) in enumerate(r.lines):
                got = out[start + j]
                if exp is not None and got != exp:
                    ctx = [l[0] for l in r.lines[max(0, j - 12):j + 1]]
                    i = next((k for k in range(min(len(exp), len(got))) if exp[k] != got[k]),
                             min(len(exp), len(got)))
                    lo = max(0, i - 70)
                    ck.mismatch('model/impl differ (%s, %s) at %r: impl ...%s | model ...%s' % (
                        case['kind'], label, line, exp[lo:i + 130], got[lo:i + 130]),
                        dict(kind=case['kind'], quota=case.get('quota'), base=case.get('base'),
                             steps=r.executed, model_lines=ctx))
                    break
    if not ck.replay_path:
        import tempfile
        nconn = len(CONN_STORAGES) if not ck.thorough else 80
        for i in range(nconn):
            conn_root = os.path.join(ck.tmp, 'conn%d' % i)
            os.makedirs(conn_root)
            saved_tmp = tempfile.tempdir
            tempfile.tempdir = conn_root
            try:
                conn_case(ck, conn_root, gen_conn_spec(ck.rng, CONN_STORAGES[i % len(CONN_STORAGES)]))
            finally:
                tempfile.tempdir = saved_tmp
            shutil.rmtree(conn_root, ignore_errors=True)
    finish(ck)


def finish(ck):
    ck.finish(rule='histories of committed transactions with victim transactions on FileStorage (with/without '
                   'blobs, with/without quota), MappingStorage, BlobStorage(MappingStorage), DemoStorage over '
                   'Mapping/File; every victim: count run, every raw-operation fault index (plus partial '
                   'writes), abort after begin / each store / vote, over-long user/description/extension, '
                   'conflict, quota, foreign-transaction calls at every phase (then abort, or then commit), '
                   'finish fault, a fault inside the abort itself (lock-free oracle), undo victims on '
                   'BlobStorage(FileStorage), failing commits through a Connection. A case counts as '
                   'non-trivial when a fault hit after at least one raw write of the vote, or a failure / '
                   'abort at a begin / store / vote boundary was executed; distinct by hash of the case',
              assumptions=['single injected fault per transaction (one-shot); faults inside tpc_abort itself (and the '
                           'double fault write + except-path truncate) are checked against the weaker oracle '
                           '"raises, locks free, next transaction commits and is readable by a new reader handle" '
                           '— after them the readers\' pooled buffers are not dropped by the code (counted as '
                           'observation:abort-fault-stale-pooled-reader)',
                           'undo itself is C06\'s model: undo victims are compared with the model at the level '
                           'of their begin / vote / abort envelope only; the same holds for restore / restoreBlob '
                           '/ checkCurrentSerialInTransaction / new_oid inside victims',
                           'ORACLE ONLY (no Lean model; real-code before/after oracle, lock / next-transaction / '
                           'reopen checks): storage kinds hexfile, hexfileblob, blobhexfile, hexmapping, '
                           'mvccmapping, blobdemofile, demodefault; the second (buddy) storage instance; the '
                           'close + reopen check; the whole Connection level (8 storage kinds, explicit '
                           'transaction managers, multi-database groups, optimistic / failing savepoints, '
                           'truncated importFile, DB.undo / undoMultiple, DB options and ZODB.config construction)',
                           'the oid high-water mark (_oid) stays outside the property (DESIGN 6.1; C20 needs it '
                           'monotone), also when a victim calls new_oid',
                           'oid high-water mark, temp-file bytes, lock-file content and empty blob '
                           'directories are outside the property',
                           'conflict resolution is C10 (every serial mismatch here is unresolvable)',
                           'Python buffered I/O chunking is abstracted: the model cuts the vote into header / '
                           'records / trailer, the real fault index is mapped proportionally'])


if __name__ == '__main__':
    try:
        main()
    except InfraError as e:
        print('INFRA-ERROR', e)
        sys.exit(2)
