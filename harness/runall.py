"""Coordinator helper: run every claimed check (from MANIFEST.json) for the given tier and seeds,
a few at a time, and print one line per run.  usage: runall.py [--tier quick] [--seeds 0,1,2] [--jobs 4] [ids…]"""
import argparse
import json
import os
import subprocess
import sys
import time
from concurrent.futures import ThreadPoolExecutor

VERIF = os.path.dirname(os.path.dirname(os.path.abspath(__file__)))


def run(pid, tier, seed):
    t0 = time.time()
    env = dict(os.environ, VERIF_SEED=str(seed), VERIF_TIER=tier)
    p = subprocess.run(['./check', pid, '--tier', tier], cwd=VERIF, env=env, capture_output=True, text=True)
    lines = [l for l in p.stdout.splitlines() if l.startswith(('VIOLATION', 'KNOWN-FINDING', 'INFRA', pid))]
    return pid, seed, p.returncode, round(time.time() - t0, 1), lines, p.stderr[-800:] if p.returncode not in (0, 1) else ''


def main():
    ap = argparse.ArgumentParser()
    ap.add_argument('--tier', default='quick')
    ap.add_argument('--seeds', default='0')
    ap.add_argument('--jobs', type=int, default=4)
    ap.add_argument('ids', nargs='*')
    a = ap.parse_args()
    m = json.load(open(os.path.join(VERIF, 'MANIFEST.json')))
    ids = a.ids or [c['property_id'] for c in m['checks']]
    jobs = [(pid, a.tier, int(s)) for s in a.seeds.split(',') for pid in ids]
    bad = 0
    with ThreadPoolExecutor(a.jobs) as ex:
        for pid, seed, rc, wall, lines, err in ex.map(lambda j: run(*j), jobs):
            print('%s seed=%d exit=%d %.1fs' % (pid, seed, rc, wall))
            for l in lines:
                print('    ' + l[:300])
            if err:
                print('    STDERR ' + err.replace('\n', '\n    '))
            bad += rc != 0
    print('runs with non-zero exit:', bad)
    sys.exit(1 if bad else 0)


if __name__ == '__main__':
    main()
