"""C06 - Undo restores the pre-transaction state or changes nothing.

Correspondence: seeded histories on the REAL FileStorage, at storage level (explicit tids, 2PC calls)
and through DB/Connection (db.undo / db.undoMultiple, transaction managers, a second connection),
with plain objects and a resolvable class; then undo of one or several transactions (last, not last,
creation, undo of undo, redo, multi-undo in both orders, with equal / mergeable / conflicting later
changes, before and after pack and close/reopen).  Every observation of the real storage is compared
with the Lean model (Drivers/Undo.lean).  Independent direct oracle: a Python list of transactions
with "state before T" lookup that implements the property statement (class Oracle) and judges the
observations of the real code only."""
import base64
import io
import json
import logging
import os
import re
import shutil
import struct
import sys

sys.path.insert(0, os.path.dirname(os.path.abspath(__file__)))
from common import Check, InfraError, run_driver, ddmin  # noqa: E402

logging.disable(logging.CRITICAL)

import transaction  # noqa: E402
import ZODB  # noqa: E402
from ZODB import POSException  # noqa: E402
from ZODB.ConflictResolution import persistent_id as cr_persistent_id  # noqa: E402
from ZODB.Connection import TransactionMetaData  # noqa: E402
from ZODB.FileStorage import FileStorage  # noqa: E402
from ZODB._compat import PersistentPickler, _protocol  # noqa: E402
from ZODB.TimeStamp import TimeStamp  # noqa: E402
from ZODB.utils import p64, u64, z64  # noqa: E402

import c06_classes  # noqa: E402
import clock  # noqa: E402
from c06_classes import PL, RC, rc_resolve  # noqa: E402
from c06_pkg.sub import RC2  # noqa: E402

# Interpretation fixed with the coordinator: refusing to undo an un-creation while the object is un-created
# through ANOTHER record ("absent == absent", decided on data records only by the code) is a safe refusal
# that no sentence of C06 forbids.  The oracle accepts either outcome in exactly that case (a refusal must
# leave everything unchanged, a success must restore the state before the undone transaction) and counts it.
STRICT_ABSENT = False

# storage-level oids, with boundary values: >= 2^16 (second index bucket), 0x00/0xff bytes, high bit, 2^64-1
ST_OIDS = {'p0': 1, 'p1': 2, 'p2': 0x10000, 'p3': 0xffffffffffffffff, 'r0': 0x11, 'r1': 0x80000000ff0000ff,
           'r2': 0x13, 'q0': 0x21, 'g0': 0x31}
PAD = 'x' * 66000            # objects named g*: records larger than 64 KiB (utils.cp copies in 64 KiB chunks)


def cls_of(name):
    return {'r': RC, 'q': RC2}.get(name[0], PL)


def state_of(name, v):
    return {'v': v, 'pad': PAD} if name[0] == 'g' else {'v': v}


def new_obj(name, v):
    o = cls_of(name)(v)
    if name[0] == 'g':
        o.pad = PAD
    return o

DESC = b'c06 transaction'


def desc_for(label, salt):
    """some transactions carry no metadata at all (an empty first transaction then ends below file
    offset 39, the former finding #12 of _txn_find, repaired in /repo)"""
    return '' if (sum(map(ord, label)) + salt) % 3 == 0 else DESC.decode()


def hx(n):
    return '%016x' % n


def st_tid(k):
    """k-th storage-level tid: one minute apart, so that pack times fall strictly between tids"""
    return TimeStamp(2024, 1, 1 + k // 1440, (k // 60) % 24, k % 60, 0.0).raw()


def pack_time(tid_bytes, mode):
    return TimeStamp(tid_bytes).timeTime() + (0.5 if mode == 'st' else 0.001)


def mk_pickle(cls, state):
    """record data exactly as tryToResolveConflict (and ObjectWriter, for classes without
    __getnewargs__) lay it out: class global, then state"""
    f = io.BytesIO()
    p = PersistentPickler(cr_persistent_id, f, _protocol)
    p.dump(cls)
    p.dump(state)
    return f.getvalue()


def untransform(data):
    """records of a HexStorage-wrapped file are b'.h' + hex"""
    if data is not None and data[:2] == b'.h':
        from binascii import unhexlify
        return unhexlify(data[2:])
    return data


class Tokens:
    """real record bytes <-> canonical 3-byte tokens (hex): 01hhll = RC state hh*256+ll,
    00hhll = interned opaque state of an unresolvable class"""

    def __init__(self):
        self.ids = {}
        self.rev = {}

    def of(self, data):
        if data is None:
            return None
        data = untransform(data)
        v = self.rc_value(data)
        if v is not None:
            return '%02x%04x' % v
        i = self.ids.get(data)
        if i is None:
            i = len(self.ids) + 1
            if i > 0xffff:
                raise InfraError('too many distinct states in one case')
            self.ids[data] = i
            self.rev['00%04x' % i] = data
        return '00%04x' % i

    _rc_cache = {}

    @classmethod
    def rc_pickle(cls, tag, v):
        r = cls._rc_cache.get((tag, v))
        if r is None:
            r = cls._rc_cache[(tag, v)] = mk_pickle(RC if tag == 1 else RC2, {'v': v})
        return r

    @classmethod
    def rc_value(cls, data):
        """(class tag, value) of a record of one of the resolvable classes, else None"""
        for tag, head in ((1, b'cc06_classes\nRC\n'), (2, b'cc06_pkg.sub\nRC2\n')):
            if data[2:2 + len(head)] == head:
                break
        else:
            return None
        try:
            import pickle
            u = pickle.Unpickler(io.BytesIO(data))
            u.load()
            st = u.load()
        except Exception:
            return None
        if isinstance(st, dict) and set(st) == {'v'} and isinstance(st['v'], int) \
                and 0 <= st['v'] < 65536 and data == cls.rc_pickle(tag, st['v']):
            return tag, st['v']
        return None


def tok_val(tok):
    return int(tok[2:], 16)


def tok_is_rc(tok):
    return tok is not None and tok[:2] in ('01', '02')


# ------------------------------------------------------------------ raw record structure of Data.fs
def parse_file(path, toks):
    """[(tidhex, status, [(oidhex, rectidhex, prev_ordinal, 'd'|'b', tokenhex|back_ordinal)])] in file
    order.  Offsets are translated to record ordinals (1 = first data record of the file, 0 = none)."""
    with open(path, 'rb') as f:
        b = f.read()
    pos, n, ordinal, txns = 4, 0, {}, []
    while pos + 23 <= len(b):
        tid, tl, st, ul, dl, el = struct.unpack('>8sQcHHH', b[pos:pos + 23])
        tend = pos + tl
        if tend + 8 > len(b) or st == b'c':
            break
        p = pos + 23 + ul + dl + el
        recs = []
        while p < tend:
            oid, rtid, prev, tloc, vl, plen = struct.unpack('>8s8sQQHQ', b[p:p + 42])
            n += 1
            ordinal[p] = n
            if plen:
                recs.append([oid.hex(), rtid.hex(), prev, 'd', b[p + 42:p + 42 + plen]])
                p += 42 + plen
            else:
                recs.append([oid.hex(), rtid.hex(), prev, 'b', u64(b[p + 42:p + 50])])
                p += 50
        txns.append((tid.hex(), st.decode('latin1'), recs))
        pos = tend + 8
    out = []
    for tid, st, recs in txns:
        rr = []
        for oid, rtid, prev, k, v in recs:
            prev = ordinal.get(prev, -1) if prev else 0
            v = (ordinal.get(v, -1) if v else 0) if k == 'b' else toks.of(v)
            rr.append((oid, rtid, prev, k, v))
        out.append((tid, 'p' if st == 'p' else '_', rr))
    return out


def dump_str(log):
    return ' | '.join('%s %s %s' % (tid, st, ' '.join(
        '%s/%d/%s:%s' % (oid, prev, k, v) for oid, _, prev, k, v in recs)) for tid, st, recs in log)


# ------------------------------------------------------------------ the real code
class Real:
    """executes one case on the real storage and records (a) structured observations for the oracle
    and (b) the model's op lines with the real code's answer to each (self.lines)"""

    def __init__(self, case, tmp):
        self.case = case
        self.mode = case['mode']
        self.storage_kind = case.get('storage', 'file')
        self.opts = case.get('opts') or {}      # build=config|ctor, pack_gc, keep_old, cache, pool, lrs, multi, clock
        self.ops = case['ops']
        self.between = None                     # pair mode: the other storage runs a step between undo and vote
        self.old_index = None
        self.opened_once = False
        self.dir = os.path.join(tmp, 'case')
        shutil.rmtree(self.dir, ignore_errors=True)
        os.makedirs(self.dir)
        self.path = os.path.join(self.dir, 'Data.fs')
        self.toks = Tokens()
        self.labels = {}          # label -> tid bytes of the committed transaction
        self.oids = []            # every oid seen in a record, bytes, in order of appearance
        self.tids = []            # tids of committed transactions in the file
        self.k = 0                # storage-level tid counter
        self.lines = []           # (model op, expected answer, 'P' | 'I', description)
        self.events = []
        self.undo_calls = []
        self.clk = None

    # -- open / close
    def fs_options(self):
        o = self.opts
        return dict(create=not self.opened_once, pack_gc=o.get('pack_gc', True),
                    pack_keep_old=o.get('keep_old', True))

    def config_text(self):
        """the same stack written as a ZODB.config text, every option spelled out (true AND false)"""
        f = self.fs_options()
        b = lambda x: 'true' if x else 'false'      # noqa: E731
        def fsec(name=''):
            return ('<filestorage%s>\n path %s\n create %s\n read-only false\n pack-gc %s\n'
                    ' pack-keep-old %s\n</filestorage>\n' % (name and ' ' + name, self.path, b(f['create']),
                                                            b(f['pack_gc']), b(f['pack_keep_old'])))
        kind = self.storage_kind
        if kind == 'demo':
            st = '<demostorage>\n%s</demostorage>\n' % fsec('changes')
        elif kind == 'hex':
            st = '%%import ZODB.tests\n<hexstorage>\n%s</hexstorage>\n' % fsec()
        else:
            st = fsec()
        if self.mode != 'db':
            return st
        imp = ''
        if st.startswith('%import'):
            imp, st = st.split('\n', 1)
            imp += '\n'
        o = self.opts
        keys = ''
        if o.get('cache') is not None:
            keys += ' cache-size %d\n' % o['cache']
        if o.get('pool') is not None:
            keys += ' pool-size %d\n historical-pool-size 1\n' % o['pool']
        if o.get('lrs'):
            keys += ' large-record-size 1KB\n'
        return '%s<zodb>\n%s%s</zodb>\n' % (imp, keys, st)

    def open(self):
        import warnings
        warnings.simplefilter('ignore')
        config = self.opts.get('build') == 'config'
        self.db = None
        if config:
            from ZODB import config as zconfig
            if self.mode == 'db':
                if self.storage_kind == 'demo':
                    import random as _random
                    self.nopen = getattr(self, 'nopen', 0) + 1
                    _random.seed(12345 + self.nopen)
                self.db = zconfig.databaseFromString(self.config_text())
                self.top = self.db.storage
            else:
                self.top = zconfig.storageFromString(self.config_text())
            self.fs = {'demo': lambda: self.top.changes, 'hex': lambda: self.top.base}.get(
                self.storage_kind, lambda: self.top)()
        else:
            self.fs = FileStorage(self.path, **self.fs_options())
        self.opened_once = True
        fs = self.fs
        orig = fs.undo
        calls = self.undo_calls

        def recording_undo(tid64, txn):          # observation only: what each undo call answered
            try:
                r = orig(tid64, txn)
            except POSException.UndoError as e:
                calls.append(('err', undo_err_kind(e)))
                raise
            calls.append(('ok', sorted(o.hex() for o in r[1])))
            return r
        fs.undo = recording_undo
        if self.mode == 'db':
            # the database sits on the FileStorage directly, or on a wrapper that delegates undo to it:
            # DemoStorage(changes=FileStorage) (votes on behalf of the changes storage) or the
            # record-transforming HexStorage (conflict resolution has to untransform)
            kind = self.storage_kind
            o = self.opts
            dbopts = {}
            if o.get('cache') is not None:
                dbopts['cache_size'] = o['cache']
            if o.get('pool') is not None:
                dbopts.update(pool_size=o['pool'], historical_pool_size=1)
            if o.get('lrs'):
                dbopts['large_record_size'] = 1000
            if config:
                pass
            elif kind == 'demo':
                import random as _random
                from ZODB.DemoStorage import DemoStorage
                self.nopen = getattr(self, 'nopen', 0) + 1
                _random.seed(12345 + self.nopen)    # DemoStorage draws its first oid from `random`; a new
                self.top = DemoStorage(changes=fs)  # sequence after each reopen (un-created oids look free)
            elif kind == 'hex':
                from ZODB.tests.hexstorage import HexStorage
                self.top = HexStorage(fs)
            else:
                self.top = fs
            self.db_other = None
            if self.db is None and o.get('multi'):
                # a multi-database group: the observers reach this database as SECONDARY connections
                # of a connection to the other database
                from ZODB.MappingStorage import MappingStorage
                group = {}
                self.db = ZODB.DB(self.top, databases=group, database_name='main', **dbopts)
                self.db_other = ZODB.DB(MappingStorage(), databases=group, database_name='other')
            elif self.db is None:
                self.db = ZODB.DB(self.top, **dbopts)
            self.tm1 = transaction.TransactionManager()
            self.c1 = self.db.open(self.tm1)
            self.tm2 = transaction.TransactionManager()
            if self.db_other is not None:
                self.c2 = self.db_other.open(self.tm2).get_connection('main')
            else:
                self.c2 = self.db.open(self.tm2)
            self.tmu = transaction.TransactionManager()
            # connection B: crosses a transaction boundary in the middle of the undo's commit, at the
            # one point where another thread can run without waiting for a lock of the committer:
            # right after the storage's tpc_finish has returned (the undo is lastTransaction() then)
            self.tm3 = transaction.TransactionManager()
            if self.db_other is not None:
                self.c3 = self.db_other.open(self.tm3).get_connection('main')
            else:
                self.c3 = self.db.open(self.tm3)
            self.peek_armed = False
            self.peek = self.vote_peek = None
            self.peek_parity = 0
            orig_finish = fs.tpc_finish
            orig_vote = fs.tpc_vote

            def vote_then_peek(txn):
                r = orig_vote(txn)
                if self.peek_armed:              # voted, not finished: nothing of the undo may be visible
                    self.vote_peek = self.b_view()
                    self.b_prepare(self.peek_parity)
                return r
            fs.tpc_vote = vote_then_peek

            def finish_then_peek(txn, f=None):
                r = orig_finish(txn, f)
                if self.peek_armed:
                    self.peek_armed = False
                    self.peek = self.b_view()
                return r
            fs.tpc_finish = finish_then_peek
            # wrappers copy bound methods of the storage at construction (HexStorage.copied_methods,
            # DemoStorage._copy_methods_from_changes): point the copies at the observing wrappers
            for name in ('undo', 'tpc_finish', 'tpc_vote'):
                if self.top is not fs and name in vars(self.top):
                    setattr(self.top, name, getattr(fs, name))

    def close(self):
        if self.mode == 'db':
            for tm in (self.tm1, self.tm2, self.tmu, self.tm3):
                tm.abort()
            self.db.close()
            if self.db_other is not None:
                self.db_other.close()
        elif self.opts.get('build') == 'config':
            self.top.close()
        else:
            self.fs.close()

    # -- observations
    def emit(self, op, expected, tag, what):
        self.lines.append((op, expected, tag, what))

    def note_file(self):
        log = parse_file(self.path, self.toks)
        for tid, st, recs in log:
            for r in recs:
                o = bytes.fromhex(r[0])
                if o not in self.oids:
                    self.oids.append(o)
        self.tids = [bytes.fromhex(t[0]) for t in log]
        return log

    def load(self, oid):
        try:
            d, s = self.fs.load(oid, '')
            return (self.toks.of(d), s.hex())
        except POSException.POSKeyError:
            return 'KeyError'

    def load_before(self, oid, b):
        try:
            r = self.fs.loadBefore(oid, b)
        except POSException.POSKeyError:
            return 'KeyError'
        if r is None:
            return 'None'
        return (self.toks.of(r[0]), r[1].hex(), r[2].hex() if r[2] else '-')

    def load_serial(self, oid, s):
        try:
            return self.toks.of(self.fs.loadSerial(oid, s))
        except POSException.POSKeyError:
            return 'KeyError'

    def observe(self, ev, full):
        fs = self.fs
        last = fs.lastTransaction()
        ev['last'] = last.hex()
        self.emit('last', last.hex(), 'P', 'lastTransaction')
        st = {}
        for oid in self.oids:
            r = self.load(oid)
            st[oid.hex()] = r
            self.emit('load %s' % oid.hex(), r if r == 'KeyError' else 'd=%s s=%s' % r, 'P', 'load')
        ev['state'] = st
        if not full:
            return
        bounds = list(self.tids) + [p64(u64(last) + 1)]
        lb, ls = {}, {}
        for oid in self.oids:
            for b in bounds:
                r = self.load_before(oid, b)
                lb[oid.hex() + ':' + b.hex()] = r
                self.emit('lb %s %s' % (oid.hex(), b.hex()),
                          r if isinstance(r, str) else 'd=%s s=%s e=%s' % r, 'P', 'loadBefore')
            for t in self.tids:
                r = self.load_serial(oid, t)
                ls[oid.hex() + ':' + t.hex()] = r
                self.emit('ls %s %s' % (oid.hex(), t.hex()), r if r == 'KeyError' else 'd=' + r, 'P',
                          'loadSerial')
        ev['lb'], ev['ls'] = lb, ls
        # the newest transaction as the iterator shows it
        it = None
        for t in fs.iterator(last, last):
            it = (t.tid.hex(), 'p' if t.status == 'p' else '_',
                  [(r.oid.hex(), self.toks.of(r.data), r.data_txn.hex() if r.data_txn else None)
                   for r in t])
        ev['iter'] = it
        if it is not None:
            self.emit('iter', '%s %s %s' % (it[0], it[1], ' '.join(
                '%s:%s:%s' % (o, d or '-', dt or '-') for o, d, dt in it[2])), 'P', 'iterator')
        log = parse_file(self.path, self.toks)
        ev['dump'] = dump_str(log)
        self.emit('dump', ev['dump'], 'I', 'record structure (ordinal pointers)')
        self.emit('inv', '1', 'I', 'well-formedness of the file the theorems assume')
        if self.mode == 'db':
            ev['conn2'] = self.conn2_view()

    def b_prepare(self, parity):
        """B holds every other known object in its cache (loaded in its current transaction), the
        rest only as ghosts"""
        self.tm3.abort()
        self.c3.cacheMinimize()
        self.tm3.begin()
        for i, oid in enumerate(self.oids):
            if i % 2 == parity:
                conn_view(self.c3, oid)

    def b_view(self):
        """B crosses a transaction boundary and reads every known object in ONE transaction"""
        self.tm3.abort()
        self.tm3.begin()
        return {oid.hex(): conn_view(self.c3, oid) for oid in self.oids}

    def storage_view(self):
        out = {}
        for oid in self.oids:
            try:
                out[oid.hex()] = data_view(self.fs.load(oid, '')[0])
            except POSException.POSKeyError:
                out[oid.hex()] = 'KeyError'
        return out

    def conn2_view(self):
        """what the second connection (objects cached from earlier reads) shows after its next
        transaction boundary, against a fresh load from the storage"""
        self.c2.sync()
        view, fresh = {}, {}
        for oid in self.oids:
            try:
                obj = self.c2.get(oid)
                obj._p_activate()
                view[oid.hex()] = obj_view(obj)
            except POSException.POSKeyError:
                view[oid.hex()] = 'KeyError'
            try:
                d, _ = self.fs.load(oid, '')
                fresh[oid.hex()] = data_view(d)
            except POSException.POSKeyError:
                fresh[oid.hex()] = 'KeyError'
        return dict(view=view, fresh=fresh)

    # -- ops
    def next_tid(self):
        self.k += 1
        return st_tid(self.k)

    def cur_serial(self, oid):
        try:
            return self.fs.history(oid, 1)[0]['tid']
        except KeyError:
            return z64

    def do_raw(self, op, ev):
        """storage level only: a transaction of deleteObject records ('d') or restore records ('rs':
        a copy of the revision of an earlier transaction with prev_txn -> back pointer, fresh data, or
        data=None -> the object is gone).  Inputs of the history, not under test."""
        kind, label, spec = op
        fs = self.fs
        tid = self.next_tid()
        t = TransactionMetaData('', desc_for(label, len(self.ops)), {})
        fs.tpc_begin(t, tid)
        passed = {}
        n = 0
        for name in sorted(spec):
            oid = p64(ST_OIDS[name])
            serial = self.cur_serial(oid)
            if kind == 'd':
                if serial == z64:
                    continue
                fs.deleteObject(oid, serial, t)
                passed[oid.hex()] = None
            else:
                what = spec[name]
                if what[0] == 'copy':
                    src = self.labels.get(what[1])
                    if src is None or src not in self.tids:
                        continue
                    try:
                        data = fs.loadSerial(oid, src)
                    except POSException.POSKeyError:
                        continue
                    fs.restore(oid, tid, data, '', src, t)
                elif what[0] == 'gone':
                    if serial == z64:
                        continue
                    data = None
                    fs.restore(oid, tid, None, '', None, t)
                else:
                    data = mk_pickle(cls_of(name), state_of(name, what[1]))
                    fs.restore(oid, tid, data, '', None, t)
                passed[oid.hex()] = self.toks.of(data)
            n += 1
        fs.tpc_vote(t)
        fs.tpc_finish(t)
        self.labels[label] = tid
        log = self.note_file()
        ev['kind'] = 'w'
        ev['tid'] = tid.hex()
        if log[-1][0] != tid.hex():
            raise InfraError('unexpected shape of a raw commit: %r' % (log[-1],))
        ev['recs'] = [(r[0], passed[r[0]]) for r in log[-1][2]]
        self.emit('begin %s' % tid.hex(), 'ok', 'I', 'tpc_begin')
        for oid, _, prev, k, v in log[-1][2]:
            if k == 'd':
                self.emit('store %s %s' % (oid, v), 'ok', 'I', 'restore (data)')
            else:
                self.emit('rec %s b %d' % (oid, v), 'ok', 'I', 'deleteObject / restore (pointer)')
        self.emit('finish', 'ok', 'I', 'tpc_finish')

    def do_w(self, op, ev):
        _, label, sets = op
        fs = self.fs
        if self.mode == 'st':
            tid = self.next_tid()
            t = TransactionMetaData('', desc_for(label, len(self.ops)), {})
            fs.tpc_begin(t, tid)
            for name in sorted(sets):
                vals = sets[name] if isinstance(sets[name], list) else [sets[name]]
                oid = p64(ST_OIDS[name])
                serial = self.cur_serial(oid)
                for v in vals:
                    fs.store(oid, serial, mk_pickle(cls_of(name), state_of(name, v)), '', t)
            fs.tpc_vote(t)
            fs.tpc_finish(t)
        else:
            if not sets:                 # nothing joins the transaction: no storage transaction at all
                ev['kind'] = 'skip'
                return
            self.tm1.begin()
            root = self.c1.root()
            for name in sorted(sets):
                v = sets[name][-1] if isinstance(sets[name], list) else sets[name]
                if name in root:
                    root[name].v = v
                else:
                    root[name] = new_obj(name, v)
            self.tm1.get().note(DESC.decode())
            self.tm1.commit()
            tid = fs.lastTransaction()
        self.labels[label] = tid
        log = self.note_file()
        ev['tid'] = tid.hex()
        recs = [(r[0], r[4]) for r in log[-1][2]]
        if log[-1][0] != tid.hex() or any(r[3] != 'd' for r in log[-1][2]):
            raise InfraError('unexpected shape of an ordinary commit: %r' % (log[-1],))
        ev['recs'] = recs
        self.emit('begin %s' % tid.hex(), 'ok', 'I', 'tpc_begin')
        for o, tk in recs:
            self.emit('store %s %s' % (o, tk), 'ok', 'I', 'store')
        self.emit('finish', 'ok', 'I', 'tpc_finish')

    def do_u(self, op, ev):
        label, ids = op[1], op[2]
        via = op[3] if len(op) > 3 else 'own'
        tids = [self.labels[i] for i in ids if i in self.labels]
        if not tids:
            ev['kind'] = 'skip'
            return
        fs = self.fs
        ev['ids'] = [t.hex() for t in tids]
        with open(self.path, 'rb') as f:
            before_bytes = f.read()
        del self.undo_calls[:]
        del c06_classes.CALLS[:]
        ids64 = [base64.encodebytes(t).rstrip(b'\n') for t in tids]
        # the ids as the application gets them: from undoLog / undoInfo (alternating); a transaction the
        # log no longer offers (packed, or behind a packed one) is asked for with its remembered, stale id
        try:
            offered = (self.top.undoInfo if len(self.events) % 2 else self.top.undoLog)(0, 100000) \
                if self.mode == 'db' else fs.undoLog(0, 100000)
            ev['undo_log'] = [base64.decodebytes(d['id'] + b'\n').hex() for d in offered]
            by_tid = {base64.decodebytes(d['id'] + b'\n'): d['id'] for d in offered}
            ids64 = [by_tid.get(t, i) for t, i in zip(tids, ids64)]
        except Exception as e:
            ev['undo_log'] = 'Other:' + type(e).__name__
        res = 'ok'
        if self.mode == 'st':
            utid = self.next_tid()
            t = TransactionMetaData('', desc_for(label, len(self.ops)), {})
            fs.tpc_begin(t, utid)
            try:
                try:
                    for i in ids64:
                        fs.undo(i, t)
                finally:
                    ev['resolver_calls'] = list(c06_classes.CALLS)
                # staged only: every load still answers as before, whoever runs now
                ev['mid_state'] = {oid.hex(): self.load(oid) for oid in self.oids}
                if self.between is not None:
                    self.between()
                fs.tpc_vote(t)
                fs.tpc_finish(t)
            except POSException.UndoError:
                res = 'UndoError'
                fs.tpc_abort(t)
            except Exception as e:
                res = 'Other:' + type(e).__name__
                fs.tpc_abort(t)
        else:
            ev['pre_view'] = self.storage_view()
            self.peek_parity = len(self.events) % 2
            self.b_prepare(self.peek_parity)
            self.peek, self.vote_peek, self.peek_armed = None, None, True
            tm = self.tm1 if via == 'conn' else self.tmu
            tm.begin()
            tm.get().note(DESC.decode())
            if len(ids64) == 1:
                self.db.undo(ids64[0], tm.get())
            else:
                self.db.undoMultiple(ids64, tm.get())
            try:
                tm.commit()
            except POSException.UndoError:
                res = 'UndoError'
                tm.abort()
            except Exception as e:
                res = 'Other:' + type(e).__name__
                tm.abort()
            utid = fs.lastTransaction() if res == 'ok' else None
            self.peek_armed = False
            ev['b_peek'] = self.peek                  # B's reads in the window (None: nothing was finished)
            ev['b_vote_peek'] = self.vote_peek        # B's reads after the vote, before the finish
            ev['b_next'] = self.b_view()              # B after its next boundary
            ev['post_view'] = self.storage_view()
        ev['res'] = res
        ev['calls'] = list(self.undo_calls)
        ev.setdefault('resolver_calls', list(c06_classes.CALLS))
        with open(self.path, 'rb') as f:
            after_bytes = f.read()
        ev['same_bytes'] = after_bytes == before_bytes
        # model ops: the undo transaction's tid only matters when it commits
        old_tids = list(self.tids)
        if res == 'ok':
            self.labels[label] = utid
            self.note_file()
            ev['tid'] = utid.hex()
        mt = utid.hex() if utid is not None else hx(u64(old_tids[-1]) + 1 if old_tids else 1)
        ev['line_idx'] = len(self.lines)     # verdict lines (Lean spec vs oracle) are inserted here
        self.emit('begin %s' % mt, 'ok', 'I', 'tpc_begin')
        for i, t in enumerate(tids):
            if i < len(ev['calls']):
                c = ev['calls'][i]
                exp = 'ok [%s]' % ','.join(c[1]) if c[0] == 'ok' else c[1]
                self.emit('undo %s' % t.hex(), exp, 'P', 'undo call: outcome class and reported oids')
        self.emit('finish' if res == 'ok' else 'abort', 'ok', 'P', 'commit of the undo transaction')

    def do_pack(self, op, ev):
        _, at, gc = op
        if at not in self.labels:
            ev['kind'] = 'skip'
            return
        t = pack_time(self.labels[at], self.mode)
        try:
            self.old_index = None
            if self.mode == 'st':
                self.fs.pack(t, lambda data, oids=None: [], gc=False)
            elif self.opts.get('build') == 'config' and self.storage_kind != 'demo':
                self.top.pack(t, ZODB.serialize.referencesf)      # gc as configured (pack-gc true|false)
            else:
                if self.storage_kind == 'demo':     # no garbage collection over a base storage
                    self.top.pack(t, ZODB.serialize.referencesf, gc=False)
                else:
                    self.top.pack(t, ZODB.serialize.referencesf, gc=bool(gc))
            ev['res'] = 'ok'
        except Exception as e:                       # e.g. nothing to pack / already packed to a later time
            ev['res'] = 'Other:' + type(e).__name__
        ev['packtid'] = self.labels[at].hex()
        # the history as the storage's own iterator reports it after the pack (input for the oracle)
        ev['hist'] = [(t.tid.hex(), 'p' if t.status == 'p' else '_',
                       [(r.oid.hex(), self.toks.of(r.data)) for r in t]) for t in self.fs.iterator()]
        self.send_log(ev)

    def send_log(self, ev):
        log = self.note_file()
        ev['log'] = [(tid, st, [(o, p, k, v) for o, _, p, k, v in recs]) for tid, st, recs in log]
        self.emit('log.begin', 'ok', 'I', 'reload model from the real file')
        n = 0
        for tid, st, recs in log:
            self.emit('log.txn %s %s' % (tid, st), 'ok', 'I', 'reload')
            for oid, rtid, prev, k, v in recs:
                n += 1
                self.emit('log.rec %s %s %d %s %s' % (oid, rtid, prev, k, v), 'ok', 'I', 'reload')
        self.emit('log.end %s' % self.fs.lastTransaction().hex(), 'inv=1 n=%d' % n, 'I',
                  'the file read back satisfies the invariant the theorems assume')

    def do_reopen(self, op, ev):
        how = op[1] if len(op) > 1 else False       # False: saved index, True: by scan, 'stale': an older index
        self.close()
        idx = self.path + '.index'
        now = None
        if os.path.exists(idx):
            with open(idx, 'rb') as f:
                now = f.read()
        if how == 'stale' and self.old_index is not None:
            with open(idx, 'wb') as f:
                f.write(self.old_index)
        elif how and os.path.exists(idx):
            os.remove(idx)
        self.old_index = now
        self.open()
        ev['res'] = 'ok'
        self.send_log(ev)

    def clock_ctx(self):
        """DB-level tids come from the clock: normal, stalled (every call the same time) or regressing"""
        if self.mode != 'db':
            return None
        return clock.scripted(step={'stall': 0.0, 'back': -1.5}.get(self.opts.get('clock'), 1.0))

    def start(self):
        self.open()
        if self.mode == 'db':       # the root object's creating transaction
            log = self.note_file()
            ev = dict(op=['init'], kind='w', res='ok', tid=log[-1][0],
                      recs=[(r[0], r[4]) for r in log[-1][2]])
            self.emit('begin %s' % ev['tid'], 'ok', 'I', 'tpc_begin')
            for o, tk in ev['recs']:
                self.emit('store %s %s' % (o, tk), 'ok', 'I', 'store')
            self.emit('finish', 'ok', 'I', 'tpc_finish')
            self.observe(ev, full=False)
            self.events.append(ev)

    def step(self, op):
        if op[0] == 'u' and (not self.events or 'lb' not in self.events[-1]) \
                and any(i in self.labels for i in op[2]):
            ev = dict(op=['obs'], kind='obs', res='ok')      # full picture before the undo
            self.observe(ev, full=True)
            self.events.append(ev)
        ev = dict(op=op, kind=op[0], res='ok')
        self.events.append(ev)
        if op[0] == 'w':
            self.do_w(op, ev)
        elif op[0] in ('d', 'rs'):
            if self.mode == 'st':
                self.do_raw(op, ev)
            else:
                ev['kind'] = 'skip'
        elif op[0] == 'u':
            self.do_u(op, ev)
        elif op[0] == 'pack':
            self.do_pack(op, ev)
        elif op[0] == 'reopen':
            self.do_reopen(op, ev)
        else:
            raise InfraError('unknown op %r' % (op,))
        if ev['kind'] != 'skip':
            self.observe(ev, full=ev['kind'] != 'w')

    def end(self):
        ev = dict(op=['end'], kind='end', res='ok')
        self.observe(ev, full=True)
        self.events.append(ev)
        self.close()

    def run(self):
        ctx = self.clock_ctx()
        if ctx is not None:
            ctx.__enter__()
        try:
            self.start()
            for op in self.ops:
                self.step(op)
            self.end()
        finally:
            if ctx is not None:
                ctx.__exit__(None, None, None)
        return self.events


def undo_err_kind(e):
    if isinstance(e, POSException.MultipleUndoErrors):
        return 'err:Undo:failures[%s]' % ','.join(sorted(o.hex() for o, _ in e._errs))
    msg = str(e)
    if 'Invalid transaction id' in msg:
        return 'err:Undo:invalid-tid'
    if 'non-undoable' in msg:
        return 'err:Undo:non-undoable'
    return 'err:Undo:other'


def conn_view(conn, oid):
    try:
        obj = conn.get(oid)
        obj._p_activate()
        return obj_view(obj)
    except POSException.POSKeyError:
        return 'KeyError'


def obj_view(obj):
    if isinstance(obj, (PL, RC, RC2)):
        return ['v', obj.v]
    try:
        return ['map', sorted((k, v._p_oid.hex()) for k, v in obj.items())]
    except Exception:
        return ['?', type(obj).__name__]


def data_view(data):
    data = untransform(data)
    """decode record bytes into the same view, independently of any connection"""
    import pickle
    refs = []
    f = io.BytesIO(data)
    u = pickle.Unpickler(f)
    u.persistent_load = lambda pid: ('ref', pid[0] if isinstance(pid, tuple) else pid)
    klass = u.load()
    st = u.load()
    del refs
    if klass in (PL, RC, RC2):
        return ['v', st['v']]
    d = st.get('data', st) if isinstance(st, dict) else {}
    return ['map', sorted((k, v[1].hex()) for k, v in d.items() if isinstance(v, tuple) and v[0] == 'ref')]


# ------------------------------------------------------------------ the direct oracle
class Oracle:
    """The property, executable: a list of committed transactions (what each wrote, last write per
    object wins; None = the object does not exist) with 'state before T' lookup.  Nothing here knows
    about records, positions or pointers."""

    def __init__(self):
        self.txns = []            # dict(tid, packed, writes: {oid: token|None})
        self.expected_calls = []
        self.packed_upto = ''     # loads with a bound <= this tid are not compared with the history

    def idx(self, tid):
        for i, t in enumerate(self.txns):
            if t['tid'] == tid:
                return i
        return None

    def writer_before(self, oid, k):
        for j in range(k - 1, -1, -1):
            if oid in self.txns[j]['writes']:
                return j
        return None

    def value_before(self, oid, k):
        j = self.writer_before(oid, k)
        return None if j is None else self.txns[j]['writes'][oid]

    def commit(self, tid, recs):
        w = {}
        for o, tk in recs:
            w[o] = tk
        self.txns.append(dict(tid=tid, packed=False, writes=w, undo=False))

    def predict(self, tids):
        """undo of the transactions `tids`, applied one after the other to the running state.
        -> (outcome 'ok' | 'fail' | 'either', writes {oid: token|None}, data_txn {oid: tid|None|'-'},
            classes {oid: restore|merge|refuse|grey}, nontrivial)"""
        W, DT, classes = {}, {}, {}
        self.expected_calls = []
        outcome = 'ok'
        nontrivial = False
        n = len(self.txns)
        for tid in tids:
            k = self.idx(tid)
            if k is None or self.txns[k]['packed']:
                return 'fail', {}, {}, {'*': 'not-undoable'}, nontrivial
            T = self.txns[k]
            if k < n - 1 or T['undo']:
                nontrivial = True
            newW = {}
            for oid, undone in T['writes'].items():
                bj = self.writer_before(oid, k)
                before = None if bj is None else self.txns[bj]['writes'][oid]
                if bj is None:
                    nontrivial = True            # T created the object
                if oid in W:
                    cur, cur_is_t = W[oid], False
                else:
                    cj = self.writer_before(oid, n)
                    cur, cur_is_t = self.txns[cj]['writes'][oid], cj == k
                if cur_is_t:
                    c = 'restore'
                elif undone is not None and cur is not None and undone == cur:
                    c = 'restore'                # later changes are equal in effect
                elif undone is None and cur is None:
                    c = 'grey'                   # absent == absent through different revisions
                elif undone is None or cur is None:
                    c = 'refuse'
                elif undone.startswith('bl') and cur.startswith('bl'):
                    # a later, different blob content.  The property demands UndoError; the records are
                    # byte-equal (a Blob has no pickled state), so the storage copies the pointer and the
                    # blob file of the revision before T: known finding C06:blob-later-change-overwritten,
                    # judged in run_blob_case (a success is reported with that signature, and the oracle
                    # then follows what the storage did so that the rest of the case is still judged)
                    c = 'grey-blob'
                elif before is None:
                    c = 'refuse'
                elif tok_is_rc(undone) and tok_is_rc(cur) and tok_is_rc(before):
                    m = rc_resolve(tok_val(undone), tok_val(cur), tok_val(before))
                    self.expected_calls.append((tids.index(tid), (tok_val(undone), tok_val(cur), tok_val(before))))
                    c = 'refuse' if m is None else 'merge'
                else:
                    c = 'refuse'
                classes[oid] = c if c != 'merge' else 'merge:%s%04x' % (before[:2], m)
                if c == 'refuse':
                    outcome = 'fail'
                elif c in ('grey', 'grey-blob'):
                    if outcome == 'ok':
                        outcome = 'either'
                    newW[oid] = before
                    DT[oid] = self.txns[bj]['tid'] if bj is not None else None
                elif c == 'restore':
                    newW[oid] = before
                    DT[oid] = self.txns[bj]['tid'] if bj is not None else None
                else:
                    newW[oid] = '%s%04x' % (before[:2], m)
                    DT[oid] = None
            if outcome == 'fail':
                return 'fail', {}, {}, classes, nontrivial
            W.update(newW)
        return outcome, W, DT, classes, nontrivial

    def load_before(self, oid, b):
        """((token, serial, end) | 'None' | 'KeyError', tid of the revision that decides) from the history"""
        known = any(oid in t['writes'] for t in self.txns)
        if not known:
            return 'KeyError', ''
        end = '-'
        for t in reversed(self.txns):
            if oid in t['writes']:
                if t['tid'] < b:
                    v = t['writes'][oid]
                    return ('KeyError' if v is None else (v, t['tid'], end)), t['tid']
                end = t['tid']
        return 'None', ''


def oracle_check(case, events):
    """-> (problems [(signature, what)], stats dict).  Judges the REAL observations only."""
    orc = Oracle()
    problems = []
    stats = dict(nontrivial=False, hist={})

    def cnt(k):
        stats['hist'][k] = stats['hist'].get(k, 0) + 1

    def bad(sig, what):
        problems.append((sig, what))

    prev = None        # previous event with observations
    for ev in events:
        kind = ev['kind']
        if kind == 'skip':
            continue
        if kind == 'w':
            orc.commit(ev['tid'], ev['recs'])
        elif kind == 'u':
            outcome, W, DT, classes, nontriv = orc.predict(ev['ids'])
            ev['classes'], ev['W'] = classes, W
            # what undoLog / undoInfo offered just before: exactly the not-packed transactions, newest first
            offered = []
            for t in reversed(orc.txns):
                if t['packed']:
                    break
                offered.append(t['tid'])
            if ev.get('undo_log') != offered:
                bad('C06:undo-log-content', 'undoLog offers %s, the transactions not yet packed are %s'
                    % (ev.get('undo_log'), offered))
            if prev is not None and 'mid_state' in ev and ev['mid_state'] != prev['state']:
                bad('C06:staged-undo-visible', 'between the undo calls and the vote the storage answers %s, '
                    'before the undo it answered %s' % (ev['mid_state'], prev['state']))
            vp = ev.get('b_vote_peek')
            if vp is not None:
                cnt('b-vote-peek')
            if 'mid_state' in ev:
                cnt('mid-state-between-undo-and-vote')
            if isinstance(ev.get('undo_log'), list) and any(t not in ev['undo_log'] for t in ev['ids']):
                cnt('undo:stale-id-not-offered-by-undoLog')
            if vp is not None and any(vp.get(o) != v for o, v in ev['pre_view'].items()):
                bad('C06:voted-undo-visible', 'a connection that began a transaction after the vote and '
                    'before the finish of the undo of %s read %s, the committed state was %s'
                    % (ev['ids'], vp, ev['pre_view']))
            stats['nontrivial'] = stats['nontrivial'] or nontriv
            for c in classes.values():
                cnt('verdict:' + c.split(':')[0])
            cnt('undo:predicted-' + outcome)
            res = ev['res']
            cnt('undo:real-' + res)
            # (only of the undo calls the storage got to: a refusal ends the sequence)
            missing = [c for i, c in orc.expected_calls if i < len(ev['calls'])
                       and list(c) not in [list(x) for x in ev['resolver_calls']]]
            if missing and res in ('ok', 'UndoError'):
                bad('C06:resolver-arguments', 'undo of %s: the class resolver was expected to be asked '
                    '(undone, current, before) = %s, it was asked %s' % (ev['ids'], missing, ev['resolver_calls']))
            if res not in ('ok', 'UndoError'):
                bad('C06:undo-raises-other', 'undo of %s raised %s instead of succeeding or UndoError'
                    % (ev['ids'], res))
            elif outcome == 'fail' and res == 'ok':
                bad('C06:unmergeable-undo-accepted',
                    'undo of %s succeeded although %s is neither equal in effect nor mergeable'
                    % (ev['ids'], sorted(o for o, c in classes.items() if c in ('refuse', 'not-undoable'))))
            elif outcome == 'ok' and res != 'ok':
                bad('C06:undo-refused', 'undo of %s failed although every object is the same revision, '
                    'equal in effect or mergeable (%s)' % (ev['ids'], classes))
            elif outcome == 'either':
                cnt('grey:absent-vs-absent')
                cnt('grey:absent-vs-absent-' + ('refused' if res != 'ok' else 'undone'))
                if STRICT_ABSENT:
                    bad('C06:equal-absent-undo-refused', 'undo of %s failed although the current state '
                        '(absent) equals the undone one' % (ev['ids'],))
            if res == 'ok':
                if outcome != 'fail':
                    # every object the undone transaction(s) wrote has the predicted state, serial = U.tid
                    for oid, tk in W.items():
                        got = ev['state'].get(oid)
                        exp = 'KeyError' if tk is None else (tk, ev['tid'])
                        if (tuple(got) if isinstance(got, list) else got) != exp:
                            bad('C06:wrong-state-after-undo',
                                'after undo of %s object %s loads as %s, expected %s (%s)'
                                % (ev['ids'], oid, got, exp, classes.get(oid)))
                    it = ev.get('iter')
                    if it is None or it[0] != ev['tid'] or it[1] != '_':
                        bad('C06:undo-not-a-transaction', 'the undo is not the newest ordinary '
                            'transaction of the iterator: %r' % (it,))
                    else:
                        lastrec = {}
                        for o, d, dt in it[2]:
                            lastrec[o] = (d, dt)
                        if set(lastrec) != set(W):
                            bad('C06:undo-record-set', 'undo transaction wrote %s, the undone '
                                'transactions wrote %s' % (sorted(lastrec), sorted(W)))
                        else:
                            for o, (d, dt) in lastrec.items():
                                if d != W[o]:
                                    bad('C06:undo-record-data', 'record of %s in the undo transaction '
                                        'carries %s, expected %s' % (o, d, W[o]))
                                elif d is not None and dt is not None and dt != DT[o]:
                                    bad('C06:undo-record-data-txn', 'record of %s points to transaction '
                                        '%s, the revision before the undone one is in %s' % (o, dt, DT[o]))
                    calls_oids = set()
                    for c in ev['calls']:
                        if c[0] == 'ok':
                            calls_oids.update(c[1])
                    if calls_oids != set(W):
                        bad('C06:undo-reported-oids', 'undo reported oids %s for invalidation, it wrote %s'
                            % (sorted(calls_oids), sorted(W)))
                orc.txns.append(dict(tid=ev['tid'], packed=False, writes=dict(W), undo=True))
                # all other objects and all earlier revisions untouched
                if prev is not None:
                    for oid, v in prev['state'].items():
                        if oid not in W and ev['state'].get(oid) != v:
                            bad('C06:other-object-changed', 'object %s not written by the undone '
                                'transaction changed from %s to %s' % (oid, v, ev['state'].get(oid)))
                    if 'lb' in prev:
                        for key, v in prev['lb'].items():
                            oid, b = key.split(':')
                            if b <= ev['tid'] and key in ev['lb']:
                                v2 = ev['lb'][key]
                                if strip_end(v) != strip_end(v2):
                                    bad('C06:earlier-revision-changed', 'loadBefore(%s, %s) was %s, is %s '
                                        'after the undo' % (oid, b, v, v2))
                        for key, v in prev['ls'].items():
                            if ev['ls'].get(key) != v:
                                bad('C06:earlier-revision-changed', 'loadSerial(%s) was %s, is %s after '
                                    'the undo' % (key, v, ev['ls'].get(key)))
            else:
                # refusal: nothing changed
                if not ev['same_bytes']:
                    bad('C06:failed-undo-changed-file', 'Data.fs differs after the refused undo of %s'
                        % (ev['ids'],))
                if prev is not None:
                    for f in ('state', 'lb', 'ls', 'last'):
                        if f in prev and prev[f] != ev.get(f):
                            bad('C06:failed-undo-changed-state', '%s differs after the refused undo of %s'
                                % (f, ev['ids']))
        elif kind == 'pack':
            if ev['res'] == 'ok':
                # What the pack left is an input here, not under test (C07): the oracle continues from
                # the history the storage's iterator now reports - which transactions are 'p', and which
                # revisions still exist.  (A pack that frees nothing leaves everything as it was.  An
                # un-creation that was current at the pack time disappears with the pack, so relative
                # to the packed history "the state immediately before" a later re-creating transaction
                # is the older data, no longer absence.)
                was_undo = {t['tid']: t['undo'] for t in orc.txns}
                old = [(t['tid'], t['packed'], t['writes']) for t in orc.txns]
                orc.txns = []
                for tid, st, recs in ev['hist']:
                    w = {}
                    for o, tk in recs:
                        w[o] = tk
                    orc.txns.append(dict(tid=tid, packed=st == 'p', writes=w, undo=was_undo.get(tid, False)))
                if old != [(t['tid'], t['packed'], t['writes']) for t in orc.txns]:
                    orc.packed_upto = max(orc.packed_upto, ev['packtid'])
            else:
                cnt('pack:' + ev['res'])
        # history-level check of every load this event observed (bounds above the pack time)
        if kind in ('end', 'u', 'reopen', 'pack', 'obs'):
            known = {}
            for t in orc.txns:
                for o in t['writes']:
                    known[o] = 1
            for key, v in ev.get('lb', {}).items():
                oid, b = key.split(':')
                if oid not in known or b <= orc.packed_upto:
                    continue
                exp, rev_tid = orc.load_before(oid, b)
                if orc.packed_upto and rev_tid <= orc.packed_upto:
                    continue        # decided by a revision at or below a pack time: the packer's business (C07)
                got = tuple(v) if isinstance(v, list) else v
                if got != exp:
                    bad('C06:load-differs-from-history', 'loadBefore(%s, %s) = %s, the history says %s'
                        % (oid, b, got, exp))
        if kind == 'u' and ev.get('post_view') is not None:
            pre, post = ev['pre_view'], ev['post_view']
            changed = [o for o in post if pre.get(o) != post[o]]
            pk = ev.get('b_peek')
            if pk is not None:
                cnt('b-peek:' + ('changed>=2' if len(changed) >= 2 else 'changed<2'))
                if not (all(pk.get(o) == pre.get(o) for o in changed) or
                        all(pk.get(o) == post[o] for o in changed)):
                    bad('C06:undo-seen-torn', 'a connection that began a transaction right after the storage '
                        'finished the undo of %s saw it partially: %s' % (ev['ids'], {
                            o: dict(before=pre.get(o), after=post[o], seen=pk.get(o)) for o in changed}))
            nx = ev['b_next']
            for o in post:
                if nx.get(o) != post[o]:
                    bad('C06:stale-after-undo', 'a connection shows %s for %s after its next transaction '
                        'boundary, the storage holds %s' % (nx.get(o), o, post[o]))
        if case['mode'] == 'db' and 'conn2' in ev:
            v = ev['conn2']
            for oid in v['view']:
                if v['view'][oid] != v['fresh'][oid]:
                    bad('C06:stale-after-undo' if kind in ('u', 'end') else 'C06:stale-second-connection',
                        'second connection shows %s for %s after its transaction boundary, the storage '
                        'holds %s' % (v['view'][oid], oid, v['fresh'][oid]))
        if 'state' in ev:
            prev = ev
    return problems, stats


def strip_end(v):
    if isinstance(v, (list, tuple)):
        return tuple(v[:2])
    return v


def add_verdict_lines(r, events):
    """single undo: ask the model for the Lean spec's verdict (`verdictFor`) on every object of the
    undone transaction, expected = the oracle's classification (grey ones are not asked)"""
    for ev in reversed(events):
        if ev['kind'] != 'u' or len(ev.get('ids', [])) != 1 or 'classes' not in ev:
            continue
        extra = []
        for oid, c in sorted(ev['classes'].items()):
            if c == 'restore' or c == 'refuse' or c.startswith('merge:'):
                exp = c
            else:
                continue
            extra.append(('verdict %s %s' % (ev['ids'][0], oid), exp, 'S',
                          'Lean specification verdictFor vs the oracle classification'))
        r.lines[ev['line_idx']:ev['line_idx']] = extra


# ------------------------------------------------------------------ generator
def gen_history(rng, mode):
    names = ['p0', 'p1', 'r0', 'r1'] + (['p2'] if rng.random() < 0.4 else [])
    r = rng.random()
    if r < 0.3:
        names.append('q0')                   # resolvable class in a package submodule, required __init__ arg
    elif r < 0.36:
        names.append('g0')                   # records > 64 KiB
    elif r < 0.5 and mode == 'st':
        names.append('p3')                   # oid 2^64-1
    n = rng.choice([3, 4, 5, 5, 6, 7]) if mode == 'st' else rng.choice([3, 4, 5, 6])
    ops = []
    written = {}
    for i in range(n):
        k = rng.choice([1, 1, 2, 2, 3])
        sets = {}
        if mode == 'st' and rng.random() < 0.07:
            k = 0                              # an empty transaction (it can be undone, too)
        for name in rng.sample(names, k):
            if name in written and rng.random() < 0.3:
                v = rng.choice(written[name])                 # an "equal in effect" later change
            elif name[0] in 'rq':
                v = rng.randrange(0, 40)
            else:
                v = rng.randrange(1, 7)
            if mode == 'st' and rng.random() < 0.06:
                sets[name] = [rng.randrange(0, 40) if name[0] in 'rq' else rng.randrange(1, 7), v]
            else:
                sets[name] = v
            written.setdefault(name, []).append(v)
        r = rng.random()
        if mode == 'st' and i > 0 and r < 0.07 and written:
            # deleteObject records (the object is gone; the deleting transaction can be undone)
            ops.append(['d', 't%d' % i, sorted(rng.sample(sorted(written), min(len(written), rng.choice([1, 2]))))])
        elif mode == 'st' and i > 0 and r < 0.15 and written:
            # restore records: a back pointer to an earlier transaction's data, fresh data, or "gone"
            spec = {}
            for name in rng.sample(sorted(written), min(len(written), rng.choice([1, 2]))):
                q = rng.random()
                spec[name] = ['copy', 't%d' % rng.randrange(i)] if q < 0.6 else \
                    (['gone'] if q < 0.75 else ['data', rng.randrange(1, 7)])
            ops.append(['rs', 't%d' % i, spec])
        else:
            ops.append(['w', 't%d' % i, sets])
    return ops, names, written


def gen_opts(rng, mode):
    """construction path and options, clock behaviour, multi-database group"""
    o = {}
    r = rng.random()
    if r < 0.3:
        o['build'] = 'config'                     # ZODB.config text with every option spelled out
    if rng.random() < 0.3:
        o['pack_gc'] = False
    if rng.random() < 0.3:
        o['keep_old'] = False
    if mode == 'db':
        q = rng.random()
        if q < 0.15:
            o['cache'] = rng.choice([0, 1, 3])
        if rng.random() < 0.15:
            o['pool'] = 1
        if rng.random() < 0.2:
            o['lrs'] = True
        if o.get('build') != 'config' and rng.random() < 0.3:
            o['multi'] = True
        c = rng.random()
        if c < 0.15:
            o['clock'] = 'stall'
        elif c < 0.3:
            o['clock'] = 'back'
    return o


def gen_tail(rng, mode, labels, names, written, length, counter):
    """random continuation after a history: undos (single / multi / of undos), writes, pack, reopen"""
    ops = []
    labels = list(labels)
    for _ in range(length):
        r = rng.random()
        lab = 'x%d' % counter[0]
        counter[0] += 1
        if r < 0.55:
            if rng.random() < 0.7:
                ids = [rng.choice(labels[-3:] if rng.random() < 0.5 else labels)]
            else:
                ids = rng.sample(labels, min(len(labels), rng.choice([2, 2, 3])))
                if rng.random() < 0.6:
                    ids.sort(key=lambda l: -labels.index(l))        # newest first, as undoLog lists them
            op = ['u', lab, ids]
            if mode == 'db' and rng.random() < 0.4:
                op.append('conn')
            ops.append(op)
            labels.append(lab)
        elif r < 0.75:
            name = rng.choice(names)
            v = rng.choice(written[name]) if name in written and rng.random() < 0.5 else \
                (rng.randrange(0, 40) if name[0] in 'rq' else rng.randrange(1, 7))
            written.setdefault(name, []).append(v)
            ops.append(['w', lab, {name: v}])
            labels.append(lab)
        elif r < 0.88:
            ops.append(['pack', rng.choice(labels), rng.random() < 0.5])
        else:
            ops.append(['reopen', rng.choice([False, True, 'stale'])])
    return ops


def gen_cases(rng, n_hist, thorough):
    cases = []
    for h in range(n_hist):
        mode = 'db' if h % 4 == 3 else 'st'
        hist, names, written = gen_history(rng, mode)
        labels = [op[1] for op in hist]
        counter = [0]
        tails = []
        # each undoable transaction, followed by something
        for lab in labels:
            t = [['u', 'u0', [lab]]]
            r = rng.random()
            if r < 0.35:
                t.append(['u', 'u1', ['u0']])                  # undo of the undo
                if rng.random() < 0.5:
                    t.append(['u', 'u2', [rng.choice([lab, 'u1'])]])      # redo / undo of the redo
            elif r < 0.55:
                t += gen_tail(rng, mode, labels + ['u0'], names, dict(written), rng.choice([1, 2, 3]), counter)
            elif r < 0.7:
                t.insert(0, ['pack', rng.choice(labels), rng.random() < 0.5])
            elif r < 0.8:
                t.insert(0, ['reopen', rng.random() < 0.5])
            elif r < 0.9:      # undo / redo chain: un-creation, re-creation, second un-creation, ...
                t += [['u', 'u1', ['u0']], ['u', 'u2', [lab]], ['u', 'u3', [rng.choice(['u0', 'u2', 'u1'])]]]
            tails.append(t)
        # pairs (all subsets <= 3 in the thorough tier), both orders
        npairs = 3 if not thorough else 8
        for _ in range(npairs):
            ids = rng.sample(labels, min(len(labels), 2 if not thorough else rng.choice([2, 2, 3])))
            if rng.random() < 0.6:
                ids.sort(key=lambda l: -labels.index(l))
            t = [['u', 'm0', ids]]
            if rng.random() < 0.5:
                t.append(['u', 'm1', ['m0']])
            tails.append(t)
        for _ in range(2 if not thorough else 4):
            tails.append(gen_tail(rng, mode, labels, names, dict(written), rng.choice([2, 3, 4, 5]), counter))
        # a refused undo (several transactions, oldest first: the later ones conflict) directly followed
        # by the same kind of operation succeeding: undo of the newest, a commit, undo of that
        if len(labels) >= 2:
            tails.append([['reopen', False], ['u', 'f0', labels[:3]], ['u', 'f1', [labels[-1]]],
                          ['w', 'f2', {names[0]: 5}], ['reopen', 'stale'], ['u', 'f3', ['f2']],
                          ['u', 'f4', labels[:2]], ['u', 'f5', ['f3']]])
        opts = gen_opts(rng, mode)
        for t in tails:
            c = dict(mode=mode, ops=hist + t)
            if mode == 'db' and (h // 4) % 3:
                c['storage'] = 'demo' if (h // 4) % 3 == 1 else 'hex'
            if opts:
                c['opts'] = opts
            cases.append(c)
    return cases


def gen_pairs(rng, cases, n):
    """two storages / databases alive in one process, their histories interleaved step by step (and a
    step of the second one between the undo calls and the vote of the first)"""
    plain = [c for c in cases if c['mode'] in ('st', 'db')]
    return [dict(mode='pair', a=rng.choice(plain), b=rng.choice(plain)) for _ in range(n)] if plain else []



# ------------------------------------------------------------------ blob-carrying histories
# The data of a Blob lives in a file next to its record; undo must carry it along (C06 with C13):
# histories over BlobStorage(FileStorage) ('wrap') and FileStorage(blob_dir=...) ('native') through
# DB/Connection, undo of modifying and of creating transactions, undo of those undos (redo), reopen.
# Judged by the same list-of-transactions oracle (blob content is the state token of a blob object);
# observation: what two connections and a reopened database read from every blob reachable from the root.
def blob_payload(v):
    return b'payload-%d' % v if v else b''          # 0: a zero-length blob


def run_blob_case(case, tmp):
    from ZODB.blob import Blob, BlobStorage
    d = os.path.join(tmp, 'case')
    shutil.rmtree(d, ignore_errors=True)
    os.makedirs(d)
    path = os.path.join(d, 'Data.fs')
    toks = Tokens()
    orc = Oracle()
    problems, events = [], []
    stats = dict(nontrivial=False, hist={})
    labels = {}
    blob_oids = set()
    S = {}
    fatal = []          # problems after which the rest of the case cannot be judged

    def cnt(k):
        stats['hist'][k] = stats['hist'].get(k, 0) + 1

    def open_():
        if case.get('variant') == 'native':
            S['st'] = FileStorage(path, blob_dir=os.path.join(d, 'blobs'))
        elif case.get('variant') == 'hexnative':        # a record-transforming wrapper around it
            from ZODB.tests.hexstorage import HexStorage
            S['st'] = HexStorage(FileStorage(path, blob_dir=os.path.join(d, 'blobs')))
        elif case.get('variant') == 'hexwrap':          # BlobStorage around the record-transforming wrapper
            from ZODB.tests.hexstorage import HexStorage
            S['st'] = BlobStorage(os.path.join(d, 'blobs'), HexStorage(FileStorage(path)))
        elif case.get('variant') == 'demonative':       # DemoStorage whose changes storage keeps the blobs
            from ZODB.DemoStorage import DemoStorage
            import random as _random
            S['nopen'] = S.get('nopen', 0) + 1
            _random.seed(12345 + S['nopen'])
            S['st'] = DemoStorage(changes=FileStorage(path, blob_dir=os.path.join(d, 'blobs')))
        elif case.get('variant') == 'bushyconfig':      # through ZODB.config, explicit blob layout
            from ZODB import config as zconfig
            os.makedirs(os.path.join(d, 'blobs'), exist_ok=True)
            S['st'] = zconfig.storageFromString(
                '<blobstorage>\n blob-dir %s\n <filestorage>\n  path %s\n  pack-gc false\n </filestorage>\n'
                '</blobstorage>\n' % (os.path.join(d, 'blobs'), path))
        else:
            S['st'] = BlobStorage(os.path.join(d, 'blobs'), FileStorage(path))
        S['db'] = ZODB.DB(S['st'])
        S['tm1'], S['tm2'], S['tmu'] = (transaction.TransactionManager() for _ in range(3))
        S['c1'] = S['db'].open(S['tm1'])
        S['c2'] = S['db'].open(S['tm2'])

    def close_():
        for k in ('tm1', 'tm2', 'tmu'):
            S[k].abort()
        S['db'].close()

    def read_all(conn, tm):
        tm.abort()
        tm.begin()
        out = {}
        root = conn.root()
        for name in sorted(root.keys()):
            try:
                with root[name].open('r') as f:
                    out[name] = [root[name]._p_oid.hex(), f.read().decode()]
            except Exception as e:
                out[name] = [root[name]._p_oid.hex(), 'ERR:' + type(e).__name__]
        tm.abort()
        return out

    def expected():
        """what the history says: the blobs the root reaches, with their content"""
        cur = {}
        for t in orc.txns:
            cur.update(t['writes'])
        rt = cur.get(hx(0))
        if rt is None:
            return None
        out = {}
        for name, oid in data_view(toks.rev[rt])[1]:
            tk = cur.get(oid)
            out[name] = [oid, 'ABSENT' if tk is None else blob_payload(int(tk[2:], 16)).decode()]
        return out

    def check(where, ev):
        exp = expected()
        ev['expected'] = exp
        if exp is None:
            return
        for who, conn, tm in (('the committing connection', S['c1'], S['tm1']),
                              ('a second connection', S['c2'], S['tm2'])):
            got = read_all(conn, tm)
            ev.setdefault('reads', {})[who] = got
            if got != exp:
                unreadable = any(v[1].startswith('ERR:') for v in got.values())
                problems.append(('C06:blob-unreadable-after-undo' if unreadable else 'C06:blob-state-after-undo',
                                 '%s: %s reads the blobs as %s, the history says %s' % (where, who, got, exp)))
                fatal.append(1)
                return

    ctx = clock.scripted()
    ctx.__enter__()
    try:
        open_()
        log = parse_file(path, toks)
        orc.commit(log[-1][0], [(r[0], r[4]) for r in log[-1][2]])
        for op in case['ops']:
            if fatal:
                break
            ev = dict(op=op, kind=op[0], res='ok')
            events.append(ev)
            cnt('op:blob-' + op[0])
            if op[0] == 'w':
                _, label, sets = op
                if not sets:
                    ev['kind'] = 'skip'
                    continue
                S['tm1'].abort()
                S['tm1'].begin()
                root = S['c1'].root()
                for name in sorted(sets):
                    if name in root:
                        with root[name].open('w') as f:
                            f.write(blob_payload(sets[name]))
                    else:
                        root[name] = Blob(blob_payload(sets[name]))
                S['tm1'].commit()
                tid = S['st'].lastTransaction()
                labels[label] = tid
                S['tm1'].begin()
                name_of = {S['c1'].root()[n]._p_oid.hex(): n for n in sets}
                S['tm1'].abort()
                blob_oids.update(name_of)
                log = parse_file(path, toks)
                recs = [(r[0], 'bl%04x' % sets[name_of[r[0]]] if r[0] in name_of else r[4])
                        for r in log[-1][2]]
                orc.commit(tid.hex(), recs)
            elif op[0] == 'u':
                tids = [labels[i] for i in op[2] if i in labels]
                if not tids:
                    ev['kind'] = 'skip'
                    continue
                ev['ids'] = [t.hex() for t in tids]
                outcome, W, DT, classes, nontriv = orc.predict(ev['ids'])
                stats['nontrivial'] = stats['nontrivial'] or nontriv
                for c in classes.values():
                    cnt('blob-verdict:' + c.split(':')[0])
                tm = S['tmu']
                tm.begin()
                S['db'].undoMultiple([base64.encodebytes(t).rstrip(b'\n') for t in tids], tm.get())
                try:
                    tm.commit()
                    res = 'ok'
                except POSException.UndoError:
                    res = 'UndoError'
                    tm.abort()
                except Exception as e:
                    res = 'Other:' + type(e).__name__
                    tm.abort()
                ev['res'] = res
                cnt('blob-undo:real-%s/predicted-%s' % (res, outcome))
                later = sorted(o for o, c in classes.items() if c == 'grey-blob')
                nprob = len(problems)
                if res == 'Other:POSKeyError' and outcome != 'fail' and case.get('variant') == 'wrap':
                    problems.append(('C06:blobstorage-undo-poskeyerror', 'BlobStorage: undo of %s raised '
                                     'POSKeyError although every object is restorable (%s)' % (ev['ids'], classes)))
                elif res not in ('ok', 'UndoError'):
                    problems.append(('C06:undo-raises-other', 'undo of %s raised %s' % (ev['ids'], res)))
                elif outcome == 'fail' and res == 'ok':
                    problems.append(('C06:unmergeable-undo-accepted', 'undo of %s succeeded although %s'
                                     % (ev['ids'], classes)))
                elif outcome == 'ok' and res != 'ok':
                    problems.append(('C06:undo-refused', 'undo of %s failed although %s' % (ev['ids'], classes)))
                elif later and res == 'ok':
                    # strict: a later, different blob content is neither equal in effect nor mergeable
                    problems.append(('C06:blob-later-change-overwritten',
                                     'undo of %s succeeded although blob(s) %s were given a different content by '
                                     'a later transaction; that content is discarded' % (ev['ids'], later)))
                    nprob += 1                          # not fatal: the oracle follows the storage from here
                if len(problems) > nprob:
                    fatal.append(1)
                if res == 'ok':
                    labels[op[1]] = S['st'].lastTransaction()
                    orc.txns.append(dict(tid=labels[op[1]].hex(), packed=False, writes=dict(W), undo=True))
            elif op[0] == 'reopen':
                close_()
                open_()
            if not fatal:
                check('after %r' % (op,), ev)
        if not fatal:
            close_()
            open_()
            check('after close and reopen', dict())
        close_()
    except InfraError:
        raise
    except StepBlocked:
        problems.append(blocked_problem(events))
    except Exception as e:
        problems.append(('C06:exception-in-history', 'blob history broke after %d ops: %s: %s'
                         % (len(events), type(e).__name__, e)))
    finally:
        ctx.__exit__(None, None, None)
    return dict(lines=[], events=events, problems=problems, stats=stats)


def gen_blob_cases(rng, n):
    cases = []
    for h in range(n):
        variant = ('wrap', 'native', 'hexnative', 'hexwrap', 'demonative', 'bushyconfig')[h % 6]
        names = ['b0', 'b1']
        hist, created = [], {}
        for i in range(rng.choice([1, 2, 2, 3, 4])):
            name = rng.choice(names) if created else 'b0'
            sets = {name: rng.randrange(0, 9)}
            if rng.random() < 0.2:
                sets[rng.choice(names)] = rng.randrange(0, 9)
            for nm in sets:
                created.setdefault(nm, 't%d' % i)
            hist.append(['w', 't%d' % i, sets])
        labels = [op[1] for op in hist]
        tails = []
        for lab in labels:                      # each transaction: undo, undo of the undo, redo ...
            t = [['u', 'u0', [lab]], ['u', 'u1', ['u0']]]
            r = rng.random()
            if r < 0.4:
                t.append(['u', 'u2', ['u1']])
                if rng.random() < 0.5:
                    t.append(['u', 'u3', ['u2']])
            elif r < 0.6:
                t.insert(1, ['reopen'])
            elif r < 0.8:
                t.append(['w', 'x0', {rng.choice(names): rng.randrange(1, 9)}])
                t.append(['u', 'u2', [rng.choice(['x0', 'u1', lab])]])
            tails.append(t)
        # peel the history off from the end, then put it back
        peel = [['u', 'p%d' % i, [lab]] for i, lab in enumerate(reversed(labels))]
        back = [['u', 'q%d' % i, ['p%d' % (len(labels) - 1 - i)]] for i in range(len(labels))]
        tails.append(peel + back)
        tails.append([['u', 'm0', list(reversed(labels))], ['u', 'm1', ['m0']]])
        for t in tails:
            cases.append(dict(mode='blob', variant=variant, ops=hist + t))
    return cases


# ------------------------------------------------------------------ running and judging
def run_real(case, tmp):
    r = Real(case, tmp)
    events = r.run()
    return r, events


def is_nontrivial(stats):
    return bool(stats['nontrivial'])


def flat_ops(case):
    """the op list the shrinker works on (a pair: both histories, tagged)"""
    if case['mode'] == 'pair':
        return [['a', op] for op in case['a']['ops']] + [['b', op] for op in case['b']['ops']]
    return case['ops']


def with_ops(case, ops):
    if case['mode'] == 'pair':
        return dict(case, a=dict(case['a'], ops=[o for w, o in ops if w == 'a']),
                    b=dict(case['b'], ops=[o for w, o in ops if w == 'b']))
    return dict(case, ops=ops)


def canonical(case):
    if case['mode'] == 'pair':
        return ['pair', canonical(case['a']), canonical(case['b'])]
    if case['mode'] == 'session':
        return ['session', [canonical(c) for c in case['cases']]]
    return [case['mode'], case.get('variant'), case.get('storage'), case.get('opts'), case['ops']]


def run_pair_case(case, tmp):
    A = Real(case['a'], os.path.join(tmp, 'A'))
    B = Real(case['b'], os.path.join(tmp, 'B'))
    ctx = A.clock_ctx() or B.clock_ctx()
    crashed = blocked = None
    if ctx is not None:
        ctx.__enter__()
    try:
        try:
            A.start()
            B.start()
            na, nb = len(A.ops), len(B.ops)
            for i in range(max(na, nb)):
                done = [False]

                def hook(i=i, done=done):
                    if not done[0] and i < nb:
                        done[0] = True
                        B.step(B.ops[i])
                A.between = hook
                if i < na:
                    A.step(A.ops[i])
                A.between = None
                hook()
            A.end()
            B.end()
        finally:
            if ctx is not None:
                ctx.__exit__(None, None, None)
    except InfraError:
        raise
    except StepBlocked:
        blocked = True
        CASE_TIMEOUT[0] = 3.0
    except Exception as e:
        crashed = '%s: %s' % (type(e).__name__, e)
    problems, lines = [], []
    stats = dict(nontrivial=False, hist={})
    for which, R in (('A', A), ('B', B)):
        try:
            pr, st = oracle_check(R.case, R.events)
        except StepBlocked:
            raise
        except Exception:
            if not (blocked or crashed):
                raise
            pr, st = [], dict(nontrivial=False, hist={})
        problems += [(sig, 'storage %s of a pair: %s' % (which, what)) for sig, what in pr]
        stats['nontrivial'] = stats['nontrivial'] or st['nontrivial']
        for k, n in st['hist'].items():
            stats['hist'][k] = stats['hist'].get(k, 0) + n
        if not (blocked or crashed):
            add_verdict_lines(R, R.events)
        lines += ([('reset', 'ok', 'I', 'second storage of the pair')] if lines else []) + R.lines
    if blocked:
        problems.append(blocked_problem(A.events + B.events))
    if crashed is not None:
        problems.append(('C06:exception-in-history', 'the interleaved histories could not be executed: %s' % crashed))
    return dict(lines=lines, events=A.events + B.events, problems=problems, stats=stats)


class StepBlocked(BaseException):
    """a step of a case did not return in time (e.g. a commit lock an earlier step leaked)"""


CASE_TIMEOUT = [20.0]      # seconds per case; shortened in a process once a case has blocked there


def _on_alarm(signum, frame):
    raise StepBlocked()


def blocked_problem(events):
    op = events[-1]['op'] if events else None
    return ('C06:step-blocked', 'step %d %r did not return in time: an earlier step did not release a lock '
            'or resource (the history up to it is the failing input)' % (len(events), op))


def judge_real_only(case, tmp, timeout=None):
    """run one case on the real code and let the oracle judge it -> plain (picklable) data.
    A per-case alarm (repeating, so that clean-up code that blocks again is interrupted too) turns a
    blocked step into the observation C06:step-blocked instead of a hang."""
    import signal
    t = timeout or CASE_TIMEOUT[0]
    old = signal.signal(signal.SIGALRM, _on_alarm)
    signal.setitimer(signal.ITIMER_REAL, t, 1.0)
    try:
        try:
            return _judge(case, tmp)
        except StepBlocked:          # raised again in clean-up code outside the runners' own handlers
            return dict(lines=[], events=[], problems=[blocked_problem([])],
                        stats=dict(nontrivial=False, hist={}))
    finally:
        signal.setitimer(signal.ITIMER_REAL, 0)
        signal.signal(signal.SIGALRM, old)


def _judge(case, tmp):
    if case['mode'] == 'session':
        # several cases one after the other in ONE process: module-level state of the code under test
        # (e.g. ConflictResolution's class caches) is carried from one to the next; the last one is judged
        res = None
        for sub in case['cases']:
            res = _judge(sub, tmp)
        return res
    if case['mode'] == 'pair':
        return run_pair_case(case, tmp)
    if case['mode'] == 'blob':
        res = run_blob_case(case, tmp)
        if any(p[0] == 'C06:step-blocked' for p in res['problems']):
            CASE_TIMEOUT[0] = 3.0
        return res
    r = Real(case, tmp)
    crashed = blocked = None
    try:
        r.run()
    except InfraError:
        raise
    except StepBlocked:
        blocked = True
        CASE_TIMEOUT[0] = 3.0
    except Exception as e:                      # the storage broke in the middle of a history
        crashed = '%s: %s' % (type(e).__name__, e)
        try:
            r.close()
        except Exception:
            pass
    events = r.events
    try:
        problems, stats = oracle_check(case, events)
    except StepBlocked:
        raise
    except Exception as e:
        if not (blocked or crashed):
            raise
        problems, stats = [], dict(nontrivial=False, hist={})      # half-recorded last event
    if blocked:
        problems.append(blocked_problem(events))
    if crashed is not None:
        problems.append(('C06:exception-in-history', 'the history could not be executed after %d ops: %s'
                         % (len(events), crashed)))
    if not blocked:
        add_verdict_lines(r, events)
    return dict(lines=r.lines, events=events, problems=problems, stats=stats)


_SEQ = [0]


def _work(args):
    """worker processes are reused: module-level state of the code under test is carried across the
    cases one worker runs (pid and sequence number let the parent reconstruct that order)"""
    case, tmp = args
    d = os.path.join(tmp, 'w%d' % os.getpid())
    os.makedirs(d, exist_ok=True)
    _SEQ[0] += 1
    try:
        to = 20.0 + 3.0 * len(case['cases']) if case['mode'] == 'session' else None
        res = judge_real_only(case, d, timeout=to)
    except InfraError as e:
        return dict(infra=str(e))
    res['pid'], res['seq'] = os.getpid(), _SEQ[0]
    return res


def judge_isolated(case, tmp, timeout=None):
    """judge one case in a FRESH process (forked from the parent, which never runs a case itself), so
    that a verdict cannot depend on what other cases left behind in module-level state"""
    import multiprocessing
    ctx = multiprocessing.get_context('fork')
    recv, send = ctx.Pipe(False)

    def target():
        try:
            r = _work((case, tmp))
        except BaseException as e:
            r = dict(infra='%s: %s' % (type(e).__name__, e))
        send.send(r)
        send.close()
    proc = ctx.Process(target=target)
    proc.start()
    res = recv.recv() if recv.poll(600) else dict(infra='isolated case did not answer')
    proc.join(5)
    if proc.is_alive():
        proc.kill()
    if 'infra' in res:
        raise InfraError(res['infra'])
    return res


def load_corpus():
    d = os.path.join(os.path.dirname(os.path.dirname(os.path.abspath(__file__))), 'corpus', 'C06')
    out = []
    if os.path.isdir(d):
        for f in sorted(os.listdir(d)):
            if f.endswith('.json'):
                with open(os.path.join(d, f)) as fh:
                    j = json.load(fh)
                out.append(j['case'] if 'case' in j else j)
    return out


def main(argv=None):
    ck = Check('C06', argv)
    ck.extra['modules'] = ['Props.C06', 'Drivers.Undo']
    ck.run_gate(ck.extra['modules'], ['Props.C06'])
    if ck.replay_path:
        with open(ck.replay_path) as f:
            j = json.load(f)
        c = j['case']
        cases = [c['case'] if 'case' in c and 'mode' not in c else c]
    else:
        cases = load_corpus() + gen_cases(ck.rng, 80 if not ck.thorough else 1000, ck.thorough)
        cases += gen_pairs(ck.rng, cases, 40 if not ck.thorough else 600)
        cases += gen_blob_cases(ck.rng, 18 if not ck.thorough else 180)
    # 1. real code + direct oracle (worker processes; all randomness was drawn above)
    import multiprocessing
    nproc = max(1, min(16, (os.cpu_count() or 2) - 1, len(cases)))
    if nproc > 1 and len(cases) > 8:
        with multiprocessing.get_context('fork').Pool(nproc) as pool:
            results = pool.map(_work, [(c, ck.tmp) for c in cases], chunksize=4)
    else:
        results = [judge_isolated(c, ck.tmp) for c in cases]
    by_pid = {}
    for i, res in enumerate(results):
        if 'infra' not in res:
            by_pid.setdefault(res['pid'], []).append((res['seq'], i))
    for res in results:
        if 'infra' in res:
            raise InfraError(res['infra'])
    # 2. the model, one driver process for everything
    lines = []
    for res in results:
        lines.append('reset')
        lines += [l[0] for l in res['lines']]
    out = run_driver('Undo', lines, timeout=1500)
    pos = 0
    seen_sigs = {}
    for case, res in zip(cases, results):
        rl, events, problems, stats = res['lines'], res['events'], res['problems'], res['stats']
        mo = out[pos + 1: pos + 1 + len(rl)]
        pos += 1 + len(rl)
        for k, n in stats['hist'].items():
            ck.count(k, n)
        for ev in events:
            ck.count('op:' + ev['kind'])
        ck.count('mode:' + case['mode'] + ('/' + case['storage'] if case.get('storage') else '')
                 + ('/' + case['variant'] if case.get('variant') else ''))
        for sub in ([case['a'], case['b']] if case['mode'] == 'pair' else [case]):
            for k, v in (sub.get('opts') or {}).items():
                ck.count('opt:%s=%s' % (k, v))
            for op in sub.get('ops', []):
                if op[0] in ('d', 'rs'):
                    ck.count('op:raw-' + op[0])
                elif op[0] == 'reopen' and len(op) > 1 and op[1] == 'stale':
                    ck.count('op:reopen-stale-index')
        nontriv = is_nontrivial(stats)
        ck.case(canonical(case), nontriv,
                sample=dict(case=case, undo_outcomes=[(e.get('ids'), e['res']) for e in events
                                                      if e['kind'] == 'u']) if nontriv else None)
        sigs = []
        for p in problems:
            if p[0] not in sigs:
                sigs.append(p[0])
        for sig in sigs:
            known = any(k.get('status', 'open') == 'open' and re.fullmatch(k['signature'], sig)
                        for k in ck.known)
            seen_sigs[sig] = seen_sigs.get(sig, 0) + 1
            ck.count('problem:' + sig)
            # one shrunk witness per known finding; up to 4 per new signature (and every NEW signature
            # gets at least one, however many cases another signature has already claimed)
            if seen_sigs[sig] > (1 if known else 4) or (not known and len(seen_sigs) > 12):
                ck.count('violating-cases-not-shrunk')
                continue
            if case['mode'] == 'session':           # a replayed session: reported as it is
                pr = [p for p in problems if p[0] == sig]
                ck.violation(sig, pr[0][1], dict(case, problems=[p[1] for p in pr[:5]]))
                continue
            blocked = sig == 'C06:step-blocked'
            to = 2.5 if blocked else None

            def has_sig(c, sig=sig, to=to):
                try:
                    return any(p[0] == sig for p in judge_isolated(c, ck.tmp, timeout=to)['problems'])
                except Exception:
                    return False
            before = []
            if not has_sig(case):
                # the failure depends on what the worker process had executed before this case
                # (module-level state of the code under test): the failing input is that SESSION
                ck.count('failure-needs-earlier-cases-of-its-process')
                preds = [cases[j] for q, j in sorted(by_pid.get(res.get('pid'), [])) if q < res['seq']]
                if preds and has_sig(dict(mode='session', cases=preds + [case])):
                    before = ddmin(preds, lambda sub: has_sig(dict(mode='session', cases=sub + [case])),
                                   max_tests=60)
                    if len(before) == 1:
                        inner = before[0]
                        before = [dict(inner, ops=ddmin(inner['ops'], lambda ops: has_sig(dict(
                            mode='session', cases=[dict(inner, ops=ops), case])), max_tests=60))]

            def wrap(c, before=before):
                return dict(mode='session', cases=before + [c]) if before else c
            small = with_ops(case, ddmin(flat_ops(case), lambda ops: has_sig(wrap(with_ops(case, ops))),
                                         max_tests=40 if blocked else 150))
            try:
                pr2 = judge_isolated(wrap(small), ck.tmp, timeout=to)['problems']
                pr2 = [p for p in pr2 if p[0] == sig]
            except Exception:
                pr2 = []
            if not pr2:
                small, pr2 = case, [p for p in problems if p[0] == sig]
            ck.violation(sig, pr2[0][1], dict(wrap(small), problems=[p[1] for p in pr2[:5]]))
        if problems:
            pass
        else:
            for (op, exp, tag, what), got in zip(rl, mo):
                if exp != got:
                    ck.mismatch('model/impl differ [%s] %s: op %r impl %s model %s'
                                % (tag, what, op, exp, got),
                                dict(case, line=op, impl=exp, model=got))
                    break
    ck.finish(
        rule='seeded histories (3-7 ordinary transactions over plain and resolvable objects, equal-value '
             'rewrites, double stores) on the real FileStorage at storage level and through '
             'DB/Connection, each followed by undo programs: every transaction as single undo target, '
             'pairs/triples in both orders, undo of undo, redo, random tails with writes, pack (gc on/off) '
             'and close/reopen (with and without index); plus Blob histories over BlobStorage(FileStorage) and '
             'FileStorage(blob_dir) (also under HexStorage, DemoStorage and through ZODB.config) with undo/redo '
             'chains; a third of the DB-level histories run over DemoStorage(changes=FileStorage), a third over '
             'HexStorage(FileStorage).  Generalisation pass: storages/databases built by constructor with '
             'non-default options or through ZODB.config texts (explicit true/false), multi-database groups '
             '(observers are secondary connections), stalled/regressing clocks, deleteObject and restore '
             'records, records > 64 KiB, boundary oids, a resolvable class in a package submodule with a '
             'required __init__ argument, ids taken from undoLog/undoInfo (stale ids otherwise), reopen with '
             'saved / stale / no index, refused undo followed by successful ones, pairs of storages with '
             'interleaved histories (one step of the second between undo calls and vote of the first), '
             'reads between undo-calls and vote, after vote, after the storage finish.  '
             'non-trivial = an executed undo names a '
             'transaction that is not the newest, or creates an object, or is itself an undo; distinct '
             'by hash of (mode, op list)',
        assumptions=[
            'the resolver (_p_resolveConflict through tryToResolveConflict) is a parameter of the theorems; '
            'the driver instantiates it with the arithmetic of c06_classes.RC',
            'pickle layout is runtime: records are compared as canonical tokens (RC state / interned '
            'opaque bytes); equality of tokens = equality of record bytes',
            'pack itself is not modelled here (C07): after a pack the model is reloaded from the record '
            'structure of the real file and that structure is checked against Inv (invB) by the driver',
            'refusing to undo an un-creation while the object is un-created through another record '
            '(absent vs absent) is accepted as either outcome and counted (grey:absent-vs-absent-refused)',
            'oracle-only (real code, not in the model): what connections see (second connection, mid-commit '
            'peeks after vote and after the storage finish, multi-database secondaries), blob content, '
            'undoLog content, storage answers between the undo calls and the vote; deleteObject/restore '
            'transactions are inputs of a history (their records are handed to the model as they are)',
            'after a pack the oracle continues from the history the storage iterator reports (what a pack '
            'keeps is C07): e.g. an un-creation that was current at the pack time disappears with the pack'])


if __name__ == '__main__':
    try:
        main()
    except InfraError as e:
        print('INFRA-ERROR', e)
        sys.exit(2)
