"""C04 direct oracle: a storage IS the ordered list of its committed transactions.

Pure Python, no ZODB import, independent of the Lean model.  A committed transaction is a dict
{tid, status, u, d, e, recs=[(oid, data|None, data_txn|None), ...]}; every query of the storage
API is a few lines over that list (same definitions as lean/ZodbModel/History.lean)."""

MAXTID = 2 ** 64 - 1


class KeyErr(Exception):
    pass


class ValueErr(Exception):
    pass


class History:
    def __init__(self, dedupe=False, xlen=None):
        self.txns = []            # commit order
        self.dedupe = dedupe      # MappingStorage/DemoStorage keep one record per oid and txn
        self.xlen = xlen or (lambda n: n)   # stored length of n bytes (a wrapper may transform records)
        self.staged = None

    # ---- revisions ------------------------------------------------------------------
    def revs(self, oid):
        """[(txn, rec)] oldest first; the last record of a transaction for the oid counts"""
        out = []
        for t in self.txns:
            rs = [r for r in t['recs'] if r[0] == oid]
            if rs:
                out.append((t, rs[-1]))
        return out

    def current_tid(self, oid):
        rs = self.revs(oid)
        return rs[-1][0]['tid'] if rs else 0

    def ltid(self):
        return self.txns[-1]['tid'] if self.txns else 0

    # ---- queries --------------------------------------------------------------------
    def load(self, oid):
        rs = self.revs(oid)
        if not rs or rs[-1][1][1] is None:
            raise KeyErr()
        return rs[-1][1][1], rs[-1][0]['tid']

    def loadBefore(self, oid, b):
        rs = self.revs(oid)
        if not rs:
            raise KeyErr()
        below = [x for x in rs if x[0]['tid'] < b]
        if not below:
            return None
        t, r = below[-1]
        if r[1] is None:
            raise KeyErr()
        above = [x for x in rs if x[0]['tid'] >= b]
        return r[1], t['tid'], (above[0][0]['tid'] if above else None)

    def loadSerial(self, oid, serial):
        for t, r in self.revs(oid):
            if t['tid'] == serial:
                if r[1] is None:
                    raise KeyErr()
                return r[1]
        raise KeyErr()

    def getTid(self, oid):
        rs = self.revs(oid)
        if not rs:
            raise KeyErr()
        t, r = rs[-1]
        if r[1] is None and r[2] is None:       # the newest record is itself an un-creation
            raise KeyErr()
        return t['tid']

    def lastTransaction(self):
        return self.ltid()

    def stored_size(self, r):
        return self.xlen(len(r[1])) if (r[2] is None and r[1] is not None) else 0

    def history(self, oid, n):
        rs = self.revs(oid)
        if not rs:
            raise KeyErr()
        return [(t['tid'], t['u'], t['d'], t['e'], self.stored_size(r)) for t, r in rs[::-1][:n]]

    def iterator(self, start, stop):
        return [t for t in self.txns
                if (start is None or start <= t['tid']) and (stop is None or t['tid'] <= stop)]

    def tlen(self, t):
        return 23 + len(t['u']) + len(t['d']) + len(t['e']) + sum(
            42 + (self.xlen(len(r[1])) if (r[2] is None and r[1] is not None) else 8) for r in t['recs'])

    def undoLog(self, first, last):
        out = []
        for t in self.txns[::-1]:
            if t['status'] == 'p':
                break
            if t['status'] == ' ':
                out.append((t['tid'], t['u'], t['d'], t['e'], self.tlen(t)))
        return out[first:last] if last > first else []

    def undoLogF(self, user, first, last):
        """the filter selects, first/last index the SELECTED transactions"""
        out = []
        for t in self.txns[::-1]:
            if t['status'] == 'p':
                break
            if t['status'] == ' ' and t['u'] == user:
                out.append((t['tid'], t['u'], t['d'], t['e'], self.tlen(t)))
        return out[first:last] if last > first else []

    def undoInfoS(self, u, d, e, first, last):
        """undoInfo(first, last, specification): a transaction is selected when it matches EVERY
        given key (None = key not in the specification; e = the extension bytes)"""
        out = []
        for t in self.txns[::-1]:
            if t['status'] == 'p':
                break
            if (t['status'] == ' ' and (u is None or t['u'] == u) and (d is None or t['d'] == d) and
                    (e is None or t['e'] == e)):
                out.append((t['tid'], t['u'], t['d'], t['e'], self.tlen(t)))
        return out[first:last] if last > first else []

    def lastInvalidations(self, n):
        ts = self.txns[max(0, len(self.txns) - n):] if n > 0 else []
        return [(t['tid'], [r[0] for r in t['recs']]) for t in ts]

    def oids(self):
        return sorted({r[0] for t in self.txns for r in t['recs']})

    def recordIter(self):
        """the whole record_iternext walk: ([(oid, tid, data)], terminal)"""
        ks = self.oids()
        if not ks:
            return [], 'err:ValueError'
        acc = []
        for k in ks:
            try:
                d, tid = self.load(k)
            except KeyErr:
                continue        # deleted / un-created: no CURRENT record, the iteration skips it
            acc.append((k, tid, d))
        return acc, 'end'

    # ---- two-phase commit -----------------------------------------------------------
    def begin(self, tid, status, u, d, e):
        self.staged = dict(tid=tid, status=status, u=u, d=d, e=e, recs=[])

    def _add(self, rec):
        recs = self.staged['recs']
        if self.dedupe:
            for i, r in enumerate(recs):
                if r[0] == rec[0]:
                    recs[i] = rec
                    return
        recs.append(rec)

    def store(self, oid, serial, data):
        """'ok' | 'err:Conflict' (the data is opaque: conflicts are never resolved)"""
        cur = self.current_tid(oid)
        if cur and cur != serial:
            return 'err:Conflict'
        self._add((oid, data, None))
        return 'ok'

    def delete(self, oid, serial):
        cur = self.current_tid(oid)
        if not cur:
            return 'err:KeyError'
        if cur != serial:
            return 'err:Conflict'
        self._add((oid, None, None))
        return 'ok'

    def rec_in(self, tid, oid):
        """the record of `oid` that counts in transaction `tid`, or None"""
        for t in self.txns:
            if t['tid'] == tid:
                rs = [r for r in t['recs'] if r[0] == oid]
                return rs[-1] if rs else None
        return None

    def restore(self, oid, data, prev_txn):
        """stores exactly `data`; shares it with prev_txn's record when that holds the same"""
        r = self.rec_in(prev_txn, oid) if prev_txn is not None else None
        self._add((oid, data, prev_txn if (r is not None and r[1] == data) else None))

    def _current_data(self, oid):
        """bytes of the newest record of oid, staged records of this transaction first"""
        for r in reversed(self.staged['recs']):
            if r[0] == oid:
                return r[1]
        rs = self.revs(oid)
        return rs[-1][1][1] if rs else None

    def undo(self, tid):
        """spec of undo: every object written by `tid` gets the state it had before `tid`, shared
        with the revision that held it.  A transaction that stored an object several times holds
        several records of it; an overwritten (not the last) one yields an undo record of its own
        only when its bytes are the object's current bytes (otherwise that record alone "cannot be
        undone", and the object's last record decides)."""
        t = [x for x in self.txns if x['tid'] == tid][0]
        new = []
        for i, r in enumerate(t['recs']):
            if any(x[0] == r[0] for x in t['recs'][i + 1:]):
                cur = self._current_data(r[0])
                if r[1] is None or cur is None or r[1] != cur:
                    continue
            before = [x for x in self.revs(r[0]) if x[0]['tid'] < tid]
            if before:
                new.append((r[0], before[-1][1][1], before[-1][0]['tid']))
            else:
                new.append((r[0], None, None))
        for rec in new:
            self._add(rec)

    def finish(self):
        self.txns.append(self.staged)
        self.staged = None

    def abort(self):
        self.staged = None
