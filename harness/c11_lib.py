"""Shared by harness/c11.py and harness/c12.py: the program vocabulary, the runner that executes a
program on the real ZODB code, and the canonical observation format (also produced by
lean/Drivers/Conn.lean).

A *case* is dict(kind=<storage kind>, n=<number of objects>, ops=[<op string>, ...]).
Objects are numbered 0..n-1; object 0 is the database root (a PersistentMapping), object i>0 is a
PersistentMapping / PersistentList / c11_classes.Node for i % 3 == 1 / 2 / 0.  Every object carries
an integer payload and an ordered list of references to other objects.

    read i | mod i v | link i j | unlink i j | add i          object level
    wlink i j                                                  link through a persistent.wref.WeakRef
    readcur i                                                  conn.readCurrent(obj) on an object new in the transaction
    touch i | get i | xadd i | gc                              obj._p_changed = True | conn.get(oid) is obj | another
                                                               connection's add(obj) | conn.cacheMinimize()
    spo | spf pickle k                                         optimistic savepoint | savepoint failing on object k
    commit | abort | sp | rb n | close | open | sync           transaction / connection level (sync = conn.sync())
    commitf rm before|after begin|commit|vote|finish           commit with a failing 2nd resource manager
    commitf store j | commitf vote                             commit with a storage fault (j-th store / vote)
    commitf pickle k                                           commit while the state of object k cannot be pickled
    commitf newoid k | spf newoid k                            commit / savepoint while the storage's k-th new_oid() raises
    ext i v | peek i                                           second connection: commit payload v / read

One observation line per op:  <result> | <state vector>  (failed commit: <result> | <vector after the
failure> | <vector after the transaction.abort() that the harness then always issues>).
State vector: for every object  i:<o|-><j|-><G|U|C>[<serial rank>=<payload>[refs]]  (o: has _p_oid,
j: has _p_jar, G/U/C: _p_changed None/False/True; serial and value only for non-ghosts, the value
is read without un-ghosting)."""
import logging
import os
import sys

sys.path.insert(0, os.path.dirname(os.path.abspath(__file__)))

logging.disable(logging.CRITICAL)

KINDS = ('mapping', 'file', 'demo')
BEFORE_KEY = '\x00before'
AFTER_KEY = '\x7f~after'


def errname(e):
    n = type(e).__name__
    return {
        'ConflictError': 'Conflict', 'ReadConflictError': 'ReadConflict', 'Injected': 'Injected',
        'ConnectionStateError': 'ConnState', 'POSKeyError': 'POSKey',
        'InvalidSavepointRollbackError': 'InvalidSavepoint',
        'TransactionFailedError': 'TransactionFailed',
        'InvalidObjectReference': 'InvalidObjectReference',
    }.get(n, 'Other(%s)' % n)


class NoState(Exception):
    pass


def deref(x):
    """the target of a persistent weak reference (persistent.wref.WeakRef), any other value as it is"""
    from persistent.wref import WeakRef
    if isinstance(x, WeakRef):
        try:
            return x()
        except Exception:
            return None
    return x


def make_storage(kind, tmpdir, tag, blobs=False):
    if kind == 'mapping':
        from ZODB.MappingStorage import MappingStorage
        return MappingStorage()
    if kind == 'file':
        from ZODB.FileStorage import FileStorage
        d = os.path.join(tmpdir, 'fs-%s' % tag)
        os.makedirs(d, exist_ok=True)
        if blobs:
            return FileStorage(os.path.join(d, 'Data.fs'), blob_dir=os.path.join(d, 'blobs'))
        return FileStorage(os.path.join(d, 'Data.fs'))
    if kind == 'demo':
        from ZODB.DemoStorage import DemoStorage
        s = DemoStorage()
        s._next_oid = 1     # DemoStorage starts at a random oid; make the run reproducible
        return s
    if kind == 'demofs':
        from ZODB.DemoStorage import DemoStorage
        from ZODB.FileStorage import FileStorage
        d = os.path.join(tmpdir, 'fs-%s' % tag)
        os.makedirs(d, exist_ok=True)
        s = DemoStorage(changes=FileStorage(os.path.join(d, 'changes.fs')))
        s._next_oid = 1
        return s
    if kind == 'hex':
        from ZODB.MappingStorage import MappingStorage
        from ZODB.tests.hexstorage import HexStorage
        return HexStorage(MappingStorage())
    if kind == 'hexfs':
        from ZODB.FileStorage import FileStorage
        from ZODB.tests.hexstorage import HexStorage
        d = os.path.join(tmpdir, 'fs-%s' % tag)
        os.makedirs(d, exist_ok=True)
        return HexStorage(FileStorage(os.path.join(d, 'Data.fs')))
    if kind == 'mvcc':
        from ZODB.tests.MVCCMappingStorage import MVCCMappingStorage
        return MVCCMappingStorage()
    raise ValueError(kind)


def make_db(case, tmpdir, tag):
    """the database of a case: storage kind (incl. one built by ZODB.config) and DB options"""
    import ZODB
    opts = dict(case.get('db') or {})
    if case['kind'] in ('config', 'configfs'):
        import ZODB.config
        d = os.path.join(tmpdir, 'fs-%s' % tag)
        os.makedirs(d, exist_ok=True)
        st = ('<filestorage>\n path %s\n create true\n</filestorage>' % os.path.join(d, 'Data.fs')
              if case['kind'] == 'configfs' else '<mappingstorage/>')
        conf = '<zodb>\n cache-size %d\n pool-size %d\n large-record-size %d\n %s\n</zodb>' % (
            opts.get('cache_size', 400), opts.get('pool_size', 7), opts.get('large_record_size', 1 << 24), st)
        db = ZODB.config.databaseFromString(conf)
        return db.storage, db
    storage = make_storage(case['kind'], tmpdir, tag)
    return storage, ZODB.DB(storage, **opts)


class World:
    """One database, the connection under test (own transaction manager) and a second
    connection used to commit concurrently and to read what other connections can see."""

    def __init__(self, case, tmpdir, tag='w', blobs=False):
        import ZODB
        import transaction
        from persistent.list import PersistentList
        from persistent.mapping import PersistentMapping
        from c11_classes import Node, SelfActNode, PMap, PList, BigNode
        import warnings
        warnings.simplefilter('ignore')     # (large-record warnings of the large_record_size option)
        self.case = case
        self.n = case['n']
        self.storage, self.db = make_db(case, tmpdir, tag)
        self.tids = [self.last_tid()]      # commit order; rank = index + 1
        # an explicit transaction manager: the application (here: the harness) begins a transaction at once
        # after every transaction boundary, so the programs mean the same as with an implicit one
        self.explicit = bool(case.get('explicit'))
        self.tm = transaction.TransactionManager(explicit=self.explicit)
        self.conn = self.db.open(self.tm)
        self._begin()
        self.tm2 = transaction.TransactionManager()
        self.c2 = self.db.open(self.tm2)
        self.objs = [self.conn.root()]
        self.objs[0]._p_activate()      # (a natively multi-version storage starts with the root as a ghost)
        for i in range(1, self.n):
            if i % 3 == 1:
                o = PMap()
            elif i % 3 == 2:
                o = PList([0])
            elif i in case.get('selfact', ()):
                o = SelfActNode()
            elif case.get('big'):
                o = BigNode()
            else:
                o = Node()
            self.objs.append(o)
        self.ident = {id(o): i for i, o in enumerate(self.objs)}
        self.sps = []
        self.commit_failed = False

    def _begin(self):
        if self.explicit:
            self.tm.begin()

    def last_tid(self):
        if self.case['kind'] == 'mvcc':
            # (every instance of the natively multi-version storage has its own idea of the last transaction;
            # the transaction table is shared)
            t = self.storage._transactions
            return t.maxKey() if len(t) else b'\0' * 8
        return self.storage.lastTransaction()

    def close(self):
        try:
            self.tm.abort()
        except Exception:
            pass
        try:
            self.tm2.abort()
        except Exception:
            pass
        try:
            self.db.close()
        except Exception:
            pass

    # ---- values ------------------------------------------------------------------------------
    def kind_of(self, i):
        return 'M' if (i == 0 or i % 3 == 1) else ('L' if i % 3 == 2 else 'C')

    def name_of(self, x):
        """object index of a referenced object (through the identity of the Python object, or,
        for the second connection's copies, through its oid)"""
        i = self.ident.get(id(x))
        if i is not None:
            return str(i)
        oid = getattr(x, '_p_oid', None)
        for j, o in enumerate(self.objs):
            if oid is not None and o._p_oid == oid:
                return str(j)
        return '?'

    def raw_value(self, o, kind):
        """(payload, refs) from the instance dictionary, without triggering persistence hooks"""
        d = o.__dict__
        try:
            if kind == 'M':
                data = d['data']
                return data.get('v', 0), [deref(x) for k, x in data.items() if k != 'v']
            if kind == 'L':
                data = d['data']
                return (data[0] if data else 0), [deref(x) for x in data[1:]]
            return d['v'], [deref(x) for x in d['refs']]
        except KeyError:
            raise NoState()

    def fmt_value(self, o, kind):
        v, refs = self.raw_value(o, kind)
        return '%d[%s]' % (v, ','.join(self.name_of(x) for x in refs))

    def rank(self, serial):
        if serial == b'\0' * 8:
            return '0'
        try:
            return str(self.tids.index(serial) + 1)
        except ValueError:
            return '?'

    def vector(self):
        out = []
        for i, o in enumerate(self.objs):
            ch = o._p_changed
            s = '%d:%s%s%s' % (i, '-' if o._p_oid is None else 'o', '-' if o._p_jar is None else 'j',
                               'G' if ch is None else ('C' if ch else 'U'))
            if ch is not None:
                try:
                    s += '%s=%s' % (self.rank(o._p_serial), self.fmt_value(o, self.kind_of(i)))
                except NoState:
                    s += '!nostate'
            out.append(s)
        return ' '.join(out)

    # ---- object level ops (these go through the normal persistence hooks) -------------------------
    def touch(self, o, kind):
        """un-ghost by ordinary attribute access; returns the mutable payload container"""
        try:
            return o.data if kind in 'ML' else o.v
        except (AttributeError, KeyError) as e:
            if o._p_jar is None and o._p_changed is None:
                raise NoState()
            raise e

    def op_read(self, i):
        o, kind = self.objs[i], self.kind_of(i)
        self.touch(o, kind)
        return 'v=' + self.fmt_value(o, kind)

    def guard_closed(self, o):
        return self.conn.opened is None and o._p_jar is not None

    def op_mod(self, i, v):
        o, kind = self.objs[i], self.kind_of(i)
        if self.guard_closed(o):
            return 'err:closed'
        self.touch(o, kind)
        if kind == 'M':
            o['v'] = v
        elif kind == 'L':
            o[0] = v
        else:
            o.v = v
        return 'ok'

    def op_link(self, i, j):
        o, kind, t = self.objs[i], self.kind_of(i), self.objs[j]
        if self.guard_closed(o):
            return 'err:closed'
        self.touch(o, kind)
        _, refs = self.raw_value(o, kind)
        if any(x is t for x in refs):
            return 'ok'
        if kind == 'M':
            o['r%d' % j] = t
        elif kind == 'L':
            o.append(t)
        else:
            o.refs = o.refs + (t,)
        return 'ok'

    def op_wlink(self, i, j):
        """like link, but through a persistent weak reference (ZODB stores the target all the same)"""
        from persistent.wref import WeakRef
        o, kind, t = self.objs[i], self.kind_of(i), self.objs[j]
        if self.guard_closed(o):
            return 'err:closed'
        self.touch(o, kind)
        _, refs = self.raw_value(o, kind)
        if any(x is t for x in refs):
            return 'ok'
        if kind == 'M':
            o['w%d' % j] = WeakRef(t)
        elif kind == 'L':
            o.append(WeakRef(t))
        else:
            o.refs = o.refs + (WeakRef(t),)
        return 'ok'

    def op_unlink(self, i, j):
        o, kind, t = self.objs[i], self.kind_of(i), self.objs[j]
        if self.guard_closed(o):
            return 'err:closed'
        self.touch(o, kind)
        _, refs = self.raw_value(o, kind)
        if not any(x is t for x in refs):
            return 'ok'
        if kind == 'M':
            del o['r%d' % j if ('r%d' % j) in o else 'w%d' % j]
        elif kind == 'L':
            idx = [k for k, x in enumerate(o.data) if deref(x) is t and k > 0][0]
            del o[idx]
        else:
            o.refs = tuple(x for x in o.refs if deref(x) is not t)
        return 'ok'

    def op_add(self, i):
        self.conn.add(self.objs[i])
        return 'ok'

    # ---- transaction level ops --------------------------------------------------------------------
    def written(self, tid):
        """object indexes of the records of transaction `tid`, and how many transactions carry it"""
        oidmap = {o._p_oid: i for i, o in enumerate(self.objs) if o._p_oid is not None}
        it = self.storage.iterator(tid, tid)
        n, names = 0, []
        try:
            for txn in it:
                n += 1
                for rec in txn:
                    names.append(oidmap.get(rec.oid, '?'))
        finally:
            if hasattr(it, 'close'):
                it.close()
        dup = len(names) != len(set(names))
        return n, sorted(names, key=str), dup

    def tmp_left(self):
        """temporary savepoint data still attached to the connection"""
        c = self.conn
        return int(c._savepoint_storage is not None or c._storage is not c._normal_storage)

    def after_boundary(self):
        self.sps = []

    def op_commit(self, fail=None):
        from c11_classes import FailingRM, Injected
        inst = self.conn._normal_storage
        patched = []
        if fail and fail[0] == 'rm':
            self.tm.get().join(FailingRM(BEFORE_KEY if fail[1] == 'before' else AFTER_KEY, fail[2]))
        elif fail and fail[0] == 'store':
            orig, cnt, j = inst.store, [0], int(fail[1])

            def store(*a, **kw):
                cnt[0] += 1
                if cnt[0] - 1 == j:
                    raise Injected('store')
                return orig(*a, **kw)
            inst.store = store
            patched.append('store')
        elif fail and fail[0] == 'pickle':
            import c11_classes
            c11_classes.PICKLE_FAIL.add(id(self.objs[int(fail[1])]))
            patched.append('pickle')
        elif fail and fail[0] == 'newoid':
            self.patch_new_oid(int(fail[1]))
            patched.append('newoid')
        elif fail and fail[0] == 'vote':
            had = inst.__dict__.get('tpc_vote')

            def vote(*a, **kw):
                raise Injected('vote')
            inst.tpc_vote = vote
            patched.append(('tpc_vote', had))
        elif fail and fail[0] == 'finish':
            # the storage's own tpc_finish raises (before it does anything): the connection has voted, the
            # transaction package calls tpc_abort — not abort — on it
            had = inst.__dict__.get('tpc_finish')

            def finish(*a, **kw):
                raise Injected('finish')
            inst.tpc_finish = finish
            patched.append(('tpc_finish', had))
        before = self.last_tid()
        try:
            try:
                self.tm.commit()
            finally:
                for p in patched:
                    if p == 'store':
                        del inst.store
                    elif p == 'pickle':
                        c11_classes.PICKLE_FAIL.clear()
                    elif p == 'newoid':
                        self.unpatch_new_oid()
                    else:
                        if p[1] is None:
                            delattr(inst, p[0])
                        else:
                            setattr(inst, p[0], p[1])
        except Exception as e:
            self.after_boundary()
            r = 'fail:' + errname(e)
            if self.last_tid() != before:
                r += ' storage-changed'
            v1 = self.vector()
            self.tm.abort()
            self._begin()
            if self.explicit:
                # (an explicit manager refreshes the connection's view at begin(), not at the end of the failed
                # transaction: both observations are taken after the new transaction began)
                v1 = self.vector()
            return r + ' tmp=%d' % self.tmp_left(), v1
        self.after_boundary()
        self._begin()
        tid = self.last_tid()
        if tid == before:
            return 'ok nothing tmp=%d' % self.tmp_left(), None
        self.tids.append(tid)
        n, names, dup = self.written(tid)
        return 'ok t=%d w=[%s]%s%s tmp=%d' % (len(self.tids), ','.join(map(str, names)),
                                           '' if n == 1 else ' txns=%d' % n, ' dup' if dup else '',
                                           self.tmp_left()), None

    def op_abort(self):
        self.tm.abort()
        self._begin()
        self.after_boundary()
        return 'ok tmp=%d' % self.tmp_left()

    def op_touch(self, i):
        """obj._p_changed = True"""
        o = self.objs[i]
        if self.guard_closed(o):
            return 'err:closed'
        o._p_changed = True
        return 'ok'

    def op_get(self, i):
        """Connection.get(oid) returns the object itself"""
        o = self.objs[i]
        if o._p_oid is None:
            return 'none'
        return 'same' if self.conn.get(o._p_oid) is o else 'other'

    def op_xadd(self, i):
        """another connection tries to add the object (refused when it belongs to the connection under test);
        when it belongs to nobody the other connection may have it, and gives it back by aborting"""
        self.tm2.begin()
        try:
            self.c2.add(self.objs[i])
            return 'ok'
        finally:
            self.tm2.abort()

    def op_gc(self):
        self.conn.cacheMinimize()
        return 'ok'

    def patch_new_oid(self, k):
        """the storage's new_oid() raises at its k-th call from now on (once)"""
        from c11_classes import Injected
        inst = self.conn._normal_storage
        orig, cnt = inst.new_oid, [0]

        def new_oid(*a, **kw):
            cnt[0] += 1
            if cnt[0] - 1 == k:
                raise Injected('new_oid')
            return orig(*a, **kw)
        inst.new_oid = new_oid
        # (a TmpStore copies the storage's new_oid at its creation: patch an existing one too)
        tmp = self.conn._savepoint_storage
        self._tmp_patched = None
        if tmp is not None:
            self._tmp_patched = (tmp, tmp.new_oid)
            tmp.new_oid = new_oid

    def unpatch_new_oid(self):
        self.conn._normal_storage.__dict__.pop('new_oid', None)
        if getattr(self, '_tmp_patched', None):
            tmp, old = self._tmp_patched
            tmp.new_oid = old
        self._tmp_patched = None

    def op_spf(self, fail):
        """transaction.savepoint() while the state of one object cannot be pickled / new_oid() fails"""
        import c11_classes
        if fail[0] == 'newoid':
            self.patch_new_oid(int(fail[1]))
        else:
            c11_classes.PICKLE_FAIL.add(id(self.objs[int(fail[1])]))
        try:
            try:
                self.sps.append(self.tm.savepoint())
            finally:
                c11_classes.PICKLE_FAIL.clear()
                self.unpatch_new_oid()
        except Exception as e:
            self.after_boundary()
            r = 'fail:' + errname(e)
            v1 = self.vector()
            self.tm.abort()
            self._begin()
            if self.explicit:
                v1 = self.vector()
            return r + ' tmp=%d' % self.tmp_left(), v1
        return 'ok', None

    def op_readcur(self, i):
        """Connection.readCurrent(obj) — only generated for objects that are new in the transaction, for which
        it records nothing (a new object has no committed revision that could stop being current)"""
        self.conn.readCurrent(self.objs[i])
        return 'ok'

    def op_sync(self):
        """Connection.sync(): begins a new transaction, i.e. aborts the current one"""
        if self.explicit:
            self.tm.abort()     # (sync() begins a transaction; an explicit manager refuses that inside one)
        self.conn.sync()
        self.after_boundary()
        return 'ok tmp=%d' % self.tmp_left()

    def op_sp(self, optimistic=False):
        self.sps.append(self.tm.savepoint(optimistic))
        return 'ok'

    def op_rb(self, n):
        if n >= len(self.sps):
            return 'err:InvalidSavepoint'
        self.sps[n].rollback()
        return 'ok'

    def op_close(self):
        self.conn.close()
        if self.explicit:
            self.tm.abort()     # (nothing was pending, or the close would have been refused)
            self.tm.begin()
        return 'ok'

    def op_open(self):
        if self.conn.opened is not None:
            return 'err:open'
        if self.explicit:
            self.tm.abort()
        c = self.db.open(self.tm)
        self._begin()
        if c is not self.conn:
            return 'err:other-connection'
        return 'ok'

    def payload_set(self, o, kind, v):
        if kind == 'M':
            o['v'] = v
        elif kind == 'L':
            o[0] = v
        else:
            o.v = v

    def op_ext(self, i, v):
        oid = self.objs[i]._p_oid
        if oid is None:
            return 'err:nokey'
        self.tm2.begin()
        try:
            o2 = self.c2.get(oid)
            self.payload_set(o2, self.kind_of(i), v)
        except Exception as e:
            self.tm2.abort()
            if errname(e) == 'POSKey':
                return 'err:nokey'
            raise
        self.tm2.commit()
        self.tids.append(self.last_tid())
        return 'ok t=%d' % len(self.tids)

    def op_peek(self, i):
        oid = self.objs[i]._p_oid
        if oid is None:
            return 'none'
        self.tm2.begin()
        try:
            o2 = self.c2.get(oid)
            kind = self.kind_of(i)
            self.touch(o2, kind)
            return 'v=%s@%s' % (self.fmt_value(o2, kind), self.rank(o2._p_serial))
        except Exception as e:
            if errname(e) == 'POSKey':
                return 'none'
            raise
        finally:
            self.tm2.abort()

    def run_op(self, op):
        """-> observation line"""
        t = op.split()
        extra = None
        try:
            if t[0] == 'read':
                r = self.op_read(int(t[1]))
            elif t[0] == 'mod':
                r = self.op_mod(int(t[1]), int(t[2]))
            elif t[0] == 'link':
                r = self.op_link(int(t[1]), int(t[2]))
            elif t[0] == 'wlink':
                r = self.op_wlink(int(t[1]), int(t[2]))
            elif t[0] == 'unlink':
                r = self.op_unlink(int(t[1]), int(t[2]))
            elif t[0] == 'add':
                r = self.op_add(int(t[1]))
            elif t[0] == 'commit':
                r, extra = self.op_commit()
            elif t[0] == 'commitf':
                r, extra = self.op_commit(t[1:])
            elif t[0] == 'abort':
                r = self.op_abort()
            elif t[0] == 'readcur':
                r = self.op_readcur(int(t[1]))
            elif t[0] == 'sync':
                r = self.op_sync()
            elif t[0] == 'sp':
                r = self.op_sp()
            elif t[0] == 'spo':
                r = self.op_sp(True)
            elif t[0] == 'spf':
                r, extra = self.op_spf(t[1:])
            elif t[0] == 'touch':
                r = self.op_touch(int(t[1]))
            elif t[0] == 'get':
                r = self.op_get(int(t[1]))
            elif t[0] == 'xadd':
                r = self.op_xadd(int(t[1]))
            elif t[0] == 'gc':
                r = self.op_gc()
            elif t[0] == 'rb':
                r = self.op_rb(int(t[1]))
            elif t[0] == 'close':
                r = self.op_close()
            elif t[0] == 'open':
                r = self.op_open()
            elif t[0] == 'ext':
                r = self.op_ext(int(t[1]), int(t[2]))
            elif t[0] == 'peek':
                r = self.op_peek(int(t[1]))
            else:
                r = 'bad-op'
        except NoState:
            r = 'err:NoState'
        except Exception as e:
            r = 'err:' + errname(e)
        if extra is not None:
            return '%s | %s | %s' % (r, extra, self.vector())
        return '%s | %s' % (r, self.vector())


def run_real(case, tmpdir, tag='w', blobs=False):
    if case.get('family') == 'multidb':
        import c11_multidb
        return c11_multidb.run_real(case, tmpdir, tag)
    if case.get('family') == 'explicit':
        import c11_multidb
        return c11_multidb.run_real_x(case, tmpdir, tag)
    if case.get('family') == 'blobs':
        import c12_blobs
        return c12_blobs.run_real(case, tmpdir, tag)
    if case.get('family') == 'readcur':
        import c12_readcur
        return c12_readcur.run_real(case, tmpdir, tag)
    if case.get('family') == 'misc':
        import c11_misc
        return c11_misc.run_real(case, tmpdir, tag)
    w = World(case, tmpdir, tag, blobs)
    try:
        out = ['ok | ' + w.vector()]          # observation of the `reset` line
        for op in case['ops']:
            out.append(w.run_op(op))
        return out
    finally:
        w.close()


def driver_lines(case):
    if case.get('family'):
        return []       # oracle-only family: not in the Lean model
    return ['reset %d' % case['n']] + list(case['ops'])


# =====================================================================================================
# Direct oracle: the statements of C11 / C12 as plain Python over the observations of the real code.
# It knows nothing of Connection's bookkeeping (no registered/added/creating/cache): only
#   db      what is committed (object -> (tid rank, payload, refs)),
#   base    the snapshot of db the connection's transaction started from,
#   member  which objects belong to the database ('c' committed, 'n' new in this transaction),
#   vis     the value every object must show when read now,
#   dirty / touched   members modified since the last savepoint / in this transaction,
#   savepoints        copies of (member, vis of members, touched, saved, joined).
# =====================================================================================================
def parse_vector(vec):
    res = {}
    for item in vec.split():
        i, rest = item.split(':', 1)
        d = dict(o=rest[0] == 'o', j=rest[1] == 'j', st=rest[2], serial=None, val=None)
        if rest[2] != 'G':
            body = rest[3:]
            if body.startswith('!'):
                d['val'] = body
            else:
                ser, val = body.split('=', 1)
                d['serial'], d['val'] = ser, val
        res[int(i)] = d
    return res


def fmt(vr):
    return '%d[%s]' % (vr[0], ','.join(str(x) for x in vr[1]))


class Verdict(Exception):
    def __init__(self, signature, what):
        Exception.__init__(self, what)
        self.signature, self.what = signature, what


class Tainted(Exception):
    """the rest of the program is outside the property's claim (C12 mode: an un-added object whose
    state was lost — finding C11:stored-new-object-ghostified-on-abort — enters the database again)"""


class Oracle:
    def __init__(self, n, pid):
        self.n, self.pid = n, pid
        self.db = {0: (1, 0, [])}
        self.base = dict(self.db)
        self.member = {0: 'c'}
        self.vis = {i: (0, []) for i in range(n)}
        self.dirty, self.touched, self.saved, self.explicit = set(), set(), set(), set()
        self.sps = []
        self.joined = False
        self.open = True
        self.rank = 1
        self.lost = set()       # C12 mode: un-added objects observed without state

    # ---- helpers -----------------------------------------------------------------------------
    def closure(self, seeds):
        """new objects (non-members) reachable from `seeds` through current references"""
        new, todo = [], list(seeds)
        seen = set(seeds)
        while todo:
            i = todo.pop()
            for r in self.vis[i][1]:
                if r not in self.member and r not in seen:
                    seen.add(r)
                    new.append(r)
                    todo.append(r)
                elif r in self.member and r not in seen:
                    seen.add(r)
        return new

    def boundary(self):
        self.base = dict(self.db)
        for i, m in self.member.items():
            if m == 'c':
                self.vis[i] = (self.base[i][1], list(self.base[i][2]))

    def revert(self):
        """abort / failed commit: modified objects show committed state, new objects leave"""
        for i in [i for i, m in self.member.items() if m == 'n']:
            del self.member[i]
        self.dirty, self.touched, self.saved, self.explicit = set(), set(), set(), set()
        self.joined = False
        self.sps = []
        if self.open:
            self.boundary()

    def mark(self, i):
        if i in self.member:
            self.dirty.add(i)
            self.touched.add(i)
            self.joined = True

    def enter(self, i):
        if i in self.lost:
            raise Tainted()
        self.member[i] = 'n'
        self.touched.add(i)

    # ---- one op: returns (expected result | set of acceptable results | predicate) ---------------------
    def step(self, op):
        t = op.split()
        k = t[0]
        if k == 'wlink':
            k = 'link'      # a weak reference adds and stores its target exactly like an ordinary one
        if k == 'spo':
            k = 'sp'        # an optimistic savepoint: the same for a connection (it supports savepoints)
        if k == 'gc':
            return 'ok'     # cacheMinimize: no visible effect
        if k == 'get':
            i = int(t[1])
            if i not in self.member:
                return 'none'
            return 'same' if self.open else 'err:ConnState'
        if k == 'xadd':
            return 'err:InvalidObjectReference' if int(t[1]) in self.member else 'ok'
        if k == 'touch':
            i = int(t[1])
            if i in self.lost:
                raise Tainted()
            if not self.open and i in self.member:
                return 'err:closed'
            self.mark(i)
            return 'ok'
        if k == 'spf':
            newc = self.closure(self.dirty | {i for i in self.explicit if i not in self.saved}) if self.joined else []
            if any(r in self.lost for r in newc):
                raise Tainted()
            pick = self.dirty | {i for i in self.explicit if i not in self.saved} | set(newc)
            if self.joined and ((t[1] == 'pickle' and int(t[2]) in pick) or
                                (t[1] == 'newoid' and int(t[2]) < len(newc))):
                self.lastW, self.lastnew, self.lastfail = sorted(pick), list(newc), [t[1], t[2]]
                self.failing = True
                self.fail_explicit = set(self.explicit)
                self.fail_new = {i for i, m in self.member.items() if m == 'n'} | set(newc)
                self.revert()
                return 'fail:Injected tmp=0'
            k = 'sp'
        if k in ('mod', 'link', 'unlink', 'read') and int(t[1]) in self.lost:
            return 'err:NoState'        # (C12 mode only) the object has no state any more
        if k in ('mod', 'link', 'unlink'):
            i = int(t[1])
            if not self.open and i in self.member:
                return 'err:closed'
            v, refs = self.vis[i]
            if k == 'mod':
                self.vis[i] = (int(t[2]), refs)
                self.mark(i)
            elif k == 'link':
                j = int(t[2])
                if j not in refs:
                    self.vis[i] = (v, refs + [j])
                    self.mark(i)
            else:
                j = int(t[2])
                if j in refs:
                    self.vis[i] = (v, [x for x in refs if x != j])
                    self.mark(i)
            return 'ok'
        if k == 'read':
            i = int(t[1])
            exp = 'v=' + fmt(self.vis[i])
            if not self.open and i in self.member:
                return {exp, 'err:ConnState'}
            return exp
        if k == 'add':
            i = int(t[1])
            if not self.open:
                return 'err:ConnState'
            if i not in self.member:
                self.enter(i)
                self.explicit.add(i)
                self.joined = True
            return 'ok'
        if k == 'sp':
            if self.joined:
                seeds = self.dirty | {i for i in self.explicit if i not in self.saved}
                for r in self.closure(seeds):
                    self.enter(r)
                    seeds.add(r)
                self.saved |= {i for i in seeds if self.member.get(i) == 'n'}
                self.dirty = set()
            self.sps.append(dict(member=dict(self.member),
                                 vis={i: (self.vis[i][0], list(self.vis[i][1])) for i in self.member},
                                 touched=set(self.touched), saved=set(self.saved),
                                 explicit=set(self.explicit), joined=self.joined))
            return 'ok'
        if k == 'rb':
            n = int(t[1])
            if n >= len(self.sps) or self.sps[n] is None:
                return 'err:InvalidSavepoint'
            s = self.sps[n]
            for m in range(n + 1, len(self.sps)):
                self.sps[m] = None
            self.member = dict(s['member'])
            for i, vr in s['vis'].items():
                self.vis[i] = (vr[0], list(vr[1]))
            self.touched, self.saved = set(s['touched']), set(s['saved'])
            self.explicit = set(s['explicit'])
            self.dirty = set()
            self.joined = s['joined']
            return 'ok'
        if k in ('commit', 'commitf'):
            fail = t[1:] if k == 'commitf' else None
            seeds = set(self.touched)
            if self.joined:
                try:
                    newc = self.closure(self.dirty | {i for i in self.explicit if i not in self.saved})
                except Tainted:
                    raise
                if any(r in self.lost for r in newc):
                    raise Tainted()
            else:
                newc = []
            W = sorted(seeds | set(newc))
            conflict = any(self.member.get(i) == 'c' and self.db[i][0] != self.base[i][0] for i in W)
            kinds = set()
            if conflict:
                kinds.add('Conflict')
            if fail:
                if fail[0] == 'rm':
                    kinds.add('Injected')
                elif fail[0] == 'store' and int(fail[1]) < len(W):
                    kinds.add('Injected')
                elif fail[0] in ('vote', 'finish') and self.joined:
                    kinds.add('Injected')
                elif fail[0] == 'newoid' and self.joined and int(fail[1]) < len(newc):
                    kinds.add('Injected')       # the commit asks for an oid for every new object it discovers
                elif fail[0] == 'pickle' and self.joined and int(fail[1]) in (
                        self.dirty | {i for i in self.explicit if i not in self.saved} | set(newc)):
                    kinds.add('Injected')       # the object is pickled by this commit
            if fail and fail[0] == 'rm' and conflict:
                # which failure is raised first depends on the phase order of the two managers
                pass
            self.lastW, self.lastnew, self.lastfail = W, list(newc), fail
            if kinds:
                self.failing = True
                self.fail_explicit = set(self.explicit)
                self.fail_new = {i for i, m in self.member.items() if m == 'n'} | set(newc)
                self.revert()
                return {'fail:%s tmp=0' % x for x in kinds}
            if not self.joined:
                self.revert()
                return 'ok nothing tmp=0'
            self.rank += 1
            for r in newc:
                self.member[r] = 'n'
            for i in W:
                self.db[i] = (self.rank, self.vis[i][0], list(self.vis[i][1]))
                self.member[i] = 'c'
            self.committedW = W
            self.dirty, self.touched, self.saved, self.explicit = set(), set(), set(), set()
            self.joined = False
            self.sps = []
            if self.open:
                self.boundary()
            return 'ok t=%d w=[%s] tmp=0' % (self.rank, ','.join(map(str, W)))
        if k == 'readcur':
            if self.member.get(int(t[1])) != 'n' or not self.open:
                raise Tainted()         # (only generated for objects that are new in this transaction)
            return 'ok'
        if k == 'sync':
            if not self.open:
                raise Tainted()         # (sync of a closed connection is not generated)
            k = 'abort'                 # Connection.sync() = transaction_manager.begin(): aborts what is pending
        if k == 'abort':
            self.fail_explicit = set()
            self.revert()
            return 'ok tmp=0'
        if k == 'close':
            if self.joined:
                return 'err:ConnState'
            self.open = False
            return 'ok'
        if k == 'open':
            if self.open:
                return 'err:open'
            self.open = True
            self.boundary()
            return 'ok'
        if k == 'ext':
            i = int(t[1])
            if i not in self.db:
                return 'err:nokey'
            self.rank += 1
            self.db[i] = (self.rank, int(t[2]), list(self.db[i][2]))
            return 'ok t=%d' % self.rank
        if k == 'peek':
            i = int(t[1])
            if i not in self.db:
                return 'none'
            return 'v=%s@%d' % (fmt(self.db[i][1:]), self.db[i][0])
        return 'bad-op'

    # ---- judging the state vector ------------------------------------------------------------------
    def check_vector(self, vec, op, after_failed_commit=False):
        real = parse_vector(vec)
        kind = op.split()[0]
        for i in range(self.n):
            r = real[i]
            m = self.member.get(i)
            if m is None:
                if r['o'] or r['j']:
                    if after_failed_commit and self.store_phase_failure() and i in self.fail_new:
                        raise Verdict('C11:new-object-keeps-oid-after-failed-store',
                                      'object %d was new in a transaction whose commit failed while storing; '
                                      'it still has _p_oid/_p_jar (%s)' % (i, vec.split()[i]))
                    raise Verdict('%s:%s:unadded-object-keeps-oid' % (self.pid, kind),
                                  'object %d belongs to no database but has _p_oid/_p_jar after %r' % (i, op))
                if r['st'] == 'G' or (r['val'] or '').startswith('!'):
                    if self.pid == 'C12':
                        if getattr(self, 'report_residual', False) and i in getattr(self, 'prev_saved', ()) \
                                and i in getattr(self, 'prev_dirty', ()):
                            # open finding (residual of the repaired stored-new-object family)
                            raise Verdict(os.environ.get('C11LIB_RESIDUAL_SIG',
                                                         'C12:savepoint-created-object-ghostified-on-abort'),
                                          'object %d was created in a savepoint and modified later; after %r it '
                                          'belongs to no database and has lost its state' % (i, op))
                        self.lost.add(i)      # (tolerated when the check at hand is not C12 itself)
                        continue
                    if after_failed_commit and i in self.fail_explicit:
                        raise Verdict('C11:stored-new-object-ghostified-on-abort',
                                      'object %d was added explicitly, stored, and the commit failed: it is '
                                      'now a ghost without a database (state lost, cannot be added again)' % i)
                    raise Verdict('%s:%s:unadded-object-lost-state' % (self.pid, kind),
                                  'object %d belongs to no database and has lost its state after %r' % (i, op))
                if r['st'] == 'C':
                    raise Verdict('%s:%s:unadded-object-changed' % (self.pid, kind),
                                  'object %d belongs to no database but is marked changed after %r' % (i, op))
                if i in self.lost:
                    self.lost.discard(i)
                if r['val'] != fmt(self.vis[i]):
                    raise Verdict('%s:%s:unadded-object-value' % (self.pid, kind),
                                  'object %d shows %s, expected %s after %r' % (i, r['val'], fmt(self.vis[i]), op))
                continue
            if not (r['o'] and r['j']):
                raise Verdict('%s:%s:member-without-oid' % (self.pid, kind),
                              'object %d belongs to the database but has no _p_oid/_p_jar after %r' % (i, op))
            if i in self.dirty:
                if r['st'] != 'C':
                    raise Verdict('%s:%s:modified-object-not-changed' % (self.pid, kind),
                                  'object %d was modified but _p_changed is %s after %r' % (i, r['st'], op))
            elif r['st'] == 'C':
                raise Verdict('%s:%s:object-not-clean' % (self.pid, kind),
                              'object %d is marked changed after %r' % (i, op))
            if r['st'] == 'G':
                if m == 'n' and i not in self.saved:
                    raise Verdict('%s:%s:new-object-ghost' % (self.pid, kind),
                                  'new object %d lost its only state after %r' % (i, op))
                continue
            if r['val'] != fmt(self.vis[i]):
                raise Verdict('%s:%s:value' % (self.pid, kind),
                              'object %d shows %s, expected %s after %r' % (i, r['val'], fmt(self.vis[i]), op))
            want = '0' if m == 'n' else str(self.base[i][0])
            if r['serial'] != want:
                raise Verdict('%s:%s:serial' % (self.pid, kind),
                              'object %d carries serial #%s, expected #%s after %r' % (i, r['serial'], want, op))

    def store_phase_failure(self):
        """the failed commit failed while the connection was storing objects: a conflict (raised by
        store) or the injected fault of the j-th store"""
        f = self.lastfail
        return self.lastkind == 'Conflict' or (self.lastkind == 'Injected' and bool(f)
                                               and f[0] in ('store', 'pickle', 'newoid'))


def judge(case, real, pid):
    """Run the oracle along the real observations.  Returns (index, signature, what) of the first
    observation the property statement rejects, ('taint', index) when the rest of the program is outside
    the claim, or None."""
    check_pid = pid
    pid = case.get('as', pid)       # (savepoint programs inside the C11 run are judged in C12 mode)
    if case.get('family') == 'multidb':
        import c11_multidb
        return c11_multidb.judge(case, real)
    if case.get('family') == 'explicit':
        import c11_multidb
        return c11_multidb.judge_x(case, real)
    if case.get('family') == 'blobs':
        import c12_blobs
        return c12_blobs.judge(case, real)
    if case.get('family') == 'readcur':
        import c12_readcur
        return c12_readcur.judge(case, real)
    if case.get('family') == 'misc':
        import c11_misc
        return c11_misc.judge(case, real)
    o = Oracle(case['n'], pid)
    # (with a tiny cache the cache GC inside savepoint() makes ghosts of saved NEW objects, whose only state is
    # then in the savepoint store: un-adding such a ghost loses it by a different mechanism — tolerated)
    o.report_residual = check_pid == 'C12' and not case.get('loose')
    try:
        o.lastkind = None
        o.check_vector(real[0].split(' | ')[1], 'reset')
    except Verdict as v:
        return (0, v.signature, v.what)
    for idx, op in enumerate(case['ops'], 1):
        parts = real[idx].split(' | ')
        res = parts[0]
        try:
            o.failing = False
            o.prev_saved, o.prev_dirty = set(o.saved), set(o.dirty)
            exp = o.step(op)
        except Tainted:
            return ('taint', idx)
        ok = (res in exp) if isinstance(exp, set) else (res == exp)
        if not ok:
            return (idx, '%s:%s:result' % (pid, op.split()[0]),
                    'op %r returned %r, the property requires %s' % (op, res, exp))
        o.lastkind = res.split()[0][5:] if res.startswith('fail:') else None
        try:
            if len(parts) == 3:
                if not op.startswith('spf'):
                    # (a failed savepoint does not complete the transaction: the connection's view is refreshed
                    # only by the abort that follows, so only the second observation is at a boundary)
                    o.check_vector(parts[1], op, after_failed_commit=True)
                o.check_vector(parts[2], op, after_failed_commit=True)
            else:
                o.check_vector(parts[1], op)
        except Verdict as v:
            return (idx, v.signature, v.what)
    return None


# =====================================================================================================
# generator, non-triviality, shrinking, main loop (shared by c11.py / c12.py)
# =====================================================================================================
RM_FAILS = ['rm before begin', 'rm after begin', 'rm before commit', 'rm after commit',
            'rm before vote', 'rm after vote', 'rm before finish']


def gen_case(rng, pid, size, kind):
    n = rng.choice([4, 5, 5, 6, 6, 7])
    ops = []
    closed = False
    nsp = 0
    for _ in range(size):
        r = rng.random()
        i, j = rng.randrange(n), rng.randrange(n)
        if closed:
            ops.append(rng.choice(['open', 'open', 'open', 'read %d' % i, 'add %d' % i, 'commit', 'abort',
                                   'close', 'mod %d %d' % (i, rng.randrange(10))]))
            if ops[-1] == 'open':
                closed = False
            continue
        if rng.random() < 0.09:
            # less-travelled entry points reaching the same bookkeeping
            c = rng.random()
            if c < 0.30:
                ops.append('touch %d' % i)
            elif c < 0.45:
                ops.append('get %d' % i)
            elif c < 0.60:
                ops.append('xadd %d' % i)
            elif c < 0.80 or pid == 'C11':
                ops.append('gc')
            elif c < 0.90:
                ops.append('spo')
                nsp += 1
            else:
                ops.append('spf pickle %d' % rng.randrange(1, n))
                # (when it fails the transaction is over; the generator keeps its savepoint count: rollbacks to
                # savepoints of a finished transaction are refused, which is part of the vocabulary anyway)
            continue
        if pid == 'C11':
            if r < 0.20:
                ops.append('mod %d %d' % (i, rng.randrange(10)))
            elif r < 0.38:
                ops.append('link %d %d' % (i, j))
            elif r < 0.43:
                ops.append('unlink %d %d' % (i, j))
            elif r < 0.50:
                ops.append('add %d' % i)
            elif r < 0.60:
                ops.append('read %d' % i)
            elif r < 0.68:
                ops.append('commit')
            elif r < 0.79:
                c = rng.random()
                if c < 0.5:
                    ops.append('commitf ' + rng.choice(RM_FAILS))
                elif c < 0.7:
                    ops.append('commitf store %d' % rng.choice([0, 0, 1, 1, 2, 3]))
                elif c < 0.85:
                    ops.append('commitf pickle %d' % rng.randrange(1, n))
                else:
                    ops.append(rng.choice(['commitf vote', 'commitf finish']))
            elif r < 0.83:
                ops.append('abort')
            elif r < 0.85:
                ops.append('sync')
            elif r < 0.89:
                ops.append('close')
                if rng.random() < 0.8:
                    closed = True        # (a refused close leaves it open: the next ops find out)
            elif r < 0.96:
                # mostly the root / low objects: they are the ones that are committed
                e = rng.choice([0, 0, 0, 1, 1, 2, i])
                ops.append('ext %d %d' % (min(e, n - 1), 10 + rng.randrange(10)))
            else:
                ops.append('peek %d' % i)
        else:
            if r < 0.22:
                ops.append('mod %d %d' % (i, rng.randrange(10)))
            elif r < 0.38:
                ops.append('link %d %d' % (i, j))
            elif r < 0.43:
                ops.append('unlink %d %d' % (i, j))
            elif r < 0.50:
                ops.append('add %d' % i)
            elif r < 0.58:
                ops.append('read %d' % i)
            elif r < 0.73:
                ops.append('sp')
                nsp += 1
            elif r < 0.88:
                if nsp and rng.random() < 0.9:
                    ops.append('rb %d' % rng.randrange(nsp))
                else:
                    ops.append('rb %d' % rng.randrange(nsp + 2))
            elif r < 0.92:
                ops.append('commit')
                nsp = 0
            elif r < 0.95:
                ops.append('abort')
                nsp = 0
            elif r < 0.975:
                # a second connection commits in between: the final commit's replay of the savepoint
                # store (or a plain store) runs into a conflict
                e = rng.choice([0, 0, 0, 1, 1, 2, i])
                ops.append('ext %d %d' % (min(e, n - 1), 10 + rng.randrange(10)))
            elif r < 0.99:
                c = rng.random()
                if c < 0.4:
                    ops.append('commitf ' + rng.choice(RM_FAILS))
                elif c < 0.6:
                    ops.append('commitf store %d' % rng.choice([0, 0, 1, 1, 2, 3]))
                elif c < 0.85:
                    ops.append('commitf pickle %d' % rng.randrange(1, n))
                else:
                    ops.append(rng.choice(['commitf vote', 'commitf finish']))
                nsp = 0
            else:
                ops.append('peek %d' % i)
    if closed:
        ops.append('open')
    ops.append(rng.choice(['commit', 'abort', 'commit']))
    ops += ['read %d' % i for i in range(n)] + ['peek %d' % i for i in range(n)]
    return dict(kind=kind, n=n, ops=ops)


def gen_scenario(rng, pid, kind):
    """structured programs for the situations random programs reach too rarely (C12): a conflict
    during the replay of the savepoint store, an object first saved by a LATER savepoint than the one
    rolled back to, repeated rollbacks around object creation, rollback to a savepoint made before the
    connection joined, abort after savepoints; with random objects, values and filler steps"""
    n = rng.choice([4, 5, 6])
    objs = list(range(1, n))
    rng.shuffle(objs)
    a, b, c = objs[0], objs[1], objs[2]
    val = lambda: rng.randrange(1, 10)
    if pid == 'C11':
        # a commit that fails while the state of one object is pickled — the registered container, an
        # implicitly added object in the middle of the writer's stack, or the last one — then the same
        # objects are linked again (the "repair" touches no object), committed, and read elsewhere
        t = rng.randrange(10)
        if t == 9:
            # the commit fails AFTER the connection voted — the storage's own tpc_finish raises, or a later manager's
            # vote / an earlier manager's finish: the transaction package calls tpc_abort (not abort) on the
            # connection; every new object belongs to nobody afterwards and can be attached again
            ops = ['link 0 %d' % a, 'link %d %d' % (a, b)]
            if rng.random() < 0.4:
                ops += ['add %d' % c]
            if rng.random() < 0.3:
                ops += ['mod 0 %d' % val()]
            ops += [rng.choice(['commitf finish', 'commitf finish', 'commitf rm after vote', 'commitf rm before finish']),
                    'xadd %d' % a, 'xadd %d' % b, 'read 0', 'link 0 %d' % a, 'link %d %d' % (a, b), 'commit']
        elif t == 8:
            # the storage's new_oid() fails while the commit discovers new objects: afterwards every new object
            # belongs to nobody (another connection may add it) and can be attached again
            ops = ['link 0 %d' % a, 'link %d %d' % (a, b)]
            if rng.random() < 0.5:
                ops += ['link 0 %d' % c]
            if rng.random() < 0.3:
                ops += ['add %d' % c] if ops[-1] != 'link 0 %d' % c else ['link %d %d' % (c, b)]
            ops += ['commitf newoid %d' % rng.choice([0, 0, 1, 1, 2]), 'xadd %d' % a, 'xadd %d' % b, 'link 0 %d' % a,
                    'link %d %d' % (a, b), 'commit']
        elif t == 7:
            # Connection.sync() with pending changes and added objects: it aborts them
            ops = ['link 0 %d' % a, 'commit', 'mod %d %d' % (a, val()), rng.choice(['add %d' % b, 'link %d %d' % (a, b)]),
                   'sync', 'read %d' % a, 'close', 'open', 'mod 0 %d' % val(), 'commit']
        elif t >= 5:
            # changes that went through a savepoint, then a commit that fails BEFORE the connection voted
            # (another resource manager raising in commit(), a conflict or a storage fault while the
            # savepoint data is copied): every saved object shows its committed state again
            ops = ['link 0 %d' % a, 'link 0 %d' % b, 'commit', 'mod %d %d' % (a, val()), 'mod 0 %d' % val(), 'sp']
            if rng.random() < 0.5:
                ops += ['mod %d %d' % (b, val())]
            if rng.random() < 0.3:
                ops += ['link %d %d' % (a, c), 'sp']
            f = rng.choice(['commitf rm after commit', 'commitf rm before vote', 'commitf store 0', 'commitf store 1',
                            'commitf rm before commit', 'ext', 'commitf vote'])
            if f == 'ext':
                ops += ['ext %d %d' % (rng.choice([0, a]), 10 + val()), 'commit']
            else:
                ops += [f]
            ops += ['read %d' % a, 'read 0', 'mod %d %d' % (b, val()), 'commit']
            for _ in range(rng.randrange(2)):
                ops.insert(rng.randrange(len(ops) + 1), 'read %d' % rng.randrange(n))
            ops += ['read %d' % i for i in range(n)] + ['commit'] + ['peek %d' % i for i in range(n)]
            return {'kind': kind, 'n': n, 'ops': ops, 'as': 'C12'}
        elif t >= 3:
            # a NEW object reached through a persistent weak reference that is pickled before any
            # ordinary reference to it (or without one in this transaction): it is stored all the same
            h = rng.choice([0, 0, c])
            ops = ['link 0 %d' % c, 'commit'] if (h == c or rng.random() < 0.3) else []
            ops += ['wlink %d %d' % (h, a)]
            if rng.random() < 0.5:
                ops += ['link %d %d' % (a, b)]
            if t == 3:
                ops += ['link %d %d' % (h, a)] if rng.random() < 0.5 else ['link 0 %d' % b]
                ops += ['commit', 'peek %d' % a]
            else:
                ops += ['commit', 'peek %d' % a, 'link %d %d' % (rng.choice([0, h]), a), 'mod %d %d' % (a, val()),
                        'commit']
        elif t == 0:
            ops = ['link 0 %d' % a, 'link %d %d' % (a, b), 'link %d %d' % (b, c)]
            if rng.random() < 0.5:
                ops += ['link %d %d' % (a, c)]
            ops += ['commitf pickle %d' % rng.choice([a, b, c]), 'link 0 %d' % a, 'commit']
        elif t == 1:
            ops = ['link 0 %d' % a, 'commit', 'mod %d %d' % (a, val()), 'link %d %d' % (a, b),
                   'link %d %d' % (b, c), 'mod 0 %d' % val(),
                   'commitf pickle %d' % rng.choice([a, b, c]),
                   'link %d %d' % (a, b), 'mod 0 %d' % val(), 'commit']
        else:
            ops = ['add %d' % a, 'link %d %d' % (a, b), 'link 0 %d' % c,
                   'commitf pickle %d' % rng.choice([a, b, c]),
                   rng.choice(['add %d' % a, 'link 0 %d' % a]), 'link 0 %d' % c, 'commit']
        for _ in range(rng.randrange(3)):
            pos = rng.randrange(len(ops) + 1)
            i = rng.randrange(n)
            ops.insert(pos, rng.choice(['read %d' % i, 'mod %d %d' % (i, val()), 'peek %d' % i]))
        ops += ['read %d' % i for i in range(n)] + ['commit'] + ['peek %d' % i for i in range(n)]
        return dict(kind=kind, n=n, ops=ops)
    t = rng.randrange(12)
    if t == 11:     # records READ BACK from the savepoint store: an object saved by two savepoints is evicted from the
        #             cache (cacheMinimize) and read again — served from the later savepoint's record — then a rollback
        #             to the earlier savepoint must show (and a commit must store) the earlier record; repeated
        ops = ['link 0 %d' % a, 'link 0 %d' % b, 'commit', 'mod %d %d' % (a, val())]
        if rng.random() < 0.5:
            ops += ['mod %d %d' % (b, val())]
        ops += ['sp', 'mod %d %d' % (a, 10 + val())]
        if rng.random() < 0.5:
            ops += ['mod %d %d' % (b, 10 + val())]
        ops += ['sp']
        if rng.random() < 0.3:
            ops += ['mod %d %d' % (rng.choice([a, b]), 20 + val()), 'sp']
        ops += ['gc'] + rng.choice([['read %d' % a], ['read %d' % b, 'read %d' % a], ['read %d' % a, 'read %d' % b], []])
        ops += ['rb 0'] + rng.choice([['read %d' % a], ['read %d' % a, 'read %d' % b], ['gc', 'read %d' % b, 'read %d' % a], []])
        if rng.random() < 0.5:
            ops += ['mod %d %d' % (rng.choice([a, b, 0]), 30 + val()), 'sp', 'gc', 'read %d' % a, 'rb %d' % rng.choice([0, 0, 1]),
                    'read %d' % a, 'read %d' % b]
        ops += [rng.choice(['commit', 'commit', 'abort'])]
    elif t == 10:     # new_oid() fails while a savepoint (after an earlier one) discovers new objects
        ops = ['mod 0 %d' % val(), 'sp', 'link 0 %d' % a, 'link %d %d' % (a, b)]
        if rng.random() < 0.5:
            ops += ['link 0 %d' % c]
        ops += ['spf newoid %d' % rng.choice([0, 1, 1, 2]), 'xadd %d' % a, 'xadd %d' % b, 'link 0 %d' % a,
                'link %d %d' % (a, b), rng.choice(['sp', 'commit']), 'commit']
    elif t == 9:      # readCurrent on an object created after a savepoint, rollback, commit: nothing is left to check
        ops = ['mod 0 %d' % val(), 'sp']
        if rng.random() < 0.5:
            ops += ['add %d' % a, 'readcur %d' % a]
        else:
            ops += ['link 0 %d' % a, 'sp', 'readcur %d' % a]
        if rng.random() < 0.4:
            ops += ['link %d %d' % (a, b), 'sp', 'readcur %d' % b]
        ops += ['rb 0', 'mod 0 %d' % val(), rng.choice(['commit', 'commit', 'sp'])]
    elif t == 8:      # S1, change x, S2, rollback S1, an equally long change of ANOTHER object of the same class
        #             (the temporary store is back at S2's position), S3, more changes, rollback S3
        x, y = rng.choice([(1, 4), (4, 1), (2, 5), (5, 2), (3, 6), (6, 3)])
        n = 7
        ops = ['link 0 %d' % x, 'link 0 %d' % y, 'commit', 'mod 0 %d' % val(), 'sp', 'mod %d %d' % (x, val()), 'sp',
               'rb 0', 'mod %d %d' % (y, val()), 'sp', 'mod %d %d' % (rng.choice([x, y]), val()),
               'rb 2', 'read %d' % x, 'read %d' % y, rng.choice(['commit', 'abort', 'rb 0'])]
    elif t == 7:      # the commit's own checkpoint fails (unpicklable object) after an earlier savepoint, when
        #             another new object of the same step is already stored (the stack is LIFO)
        ops = ['mod 0 %d' % val()]
        if rng.random() < 0.5:
            ops += ['link 0 %d' % c]
        ops += ['sp', 'link 0 %d' % a, 'link 0 %d' % b]
        if rng.random() < 0.4:
            ops += ['link %d %d' % (b, a)]
        ops += ['commitf pickle %d' % rng.choice([a, a, b]), 'link 0 %d' % a, 'link 0 %d' % b,
                rng.choice(['commit', 'sp', 'abort'])]
    elif t == 6:      # an object that reloads itself when invalidated (oracle only: not in the Lean model)
        v1, v2 = val(), 10 + val()
        ops = ['link 0 3', 'mod 3 %d' % v1, 'commit', 'mod 3 %d' % v2, 'sp']
        if rng.random() < 0.5:
            ops += ['mod 3 %d' % (20 + val()), 'sp']
        ops += [rng.choice(['abort', 'rb 0', 'commitf rm after vote', 'commitf store 0', 'mod 0 1']),
                rng.choice(['abort', 'abort', 'commit']), 'read 3', 'mod 0 %d' % val(), 'commit', 'peek 3']
        ops += ['read %d' % i for i in range(4)]
        return dict(kind=kind, n=4, ops=ops, selfact=[3])
    elif t == 0:      # conflict while the final commit replays the savepoint store
        ops = ['link 0 %d' % a, 'link 0 %d' % b, 'commit', 'mod 0 %d' % val(), 'mod %d %d' % (a, val()),
               'mod %d %d' % (b, val()), 'sp']
        if rng.random() < 0.5:
            ops += ['mod %d %d' % (rng.choice([0, a, b]), val())]
        if rng.random() < 0.3:
            ops += ['sp']
        ops += ['ext %d %d' % (rng.choice([0, 0, a, b]), 10 + val()), 'commit']
    elif t == 1:    # first record of an object written by a later savepoint
        ops = ['link 0 %d' % a, 'link %d %d' % (a, b), 'commit', 'mod 0 %d' % val(), 'sp',
               'mod %d %d' % (a, val()), 'sp']
        if rng.random() < 0.5:
            ops += ['mod %d %d' % (b, val()), 'sp']
        ops += ['rb 0', 'read %d' % a, 'read %d' % b]
        if rng.random() < 0.5:
            ops += ['mod %d %d' % (a, val()), 'sp', 'rb 0', 'read %d' % a]
        ops += [rng.choice(['commit', 'abort'])]
    elif t == 2:    # repeated rollbacks around object creation
        ops = ['mod 0 %d' % val(), 'sp', 'link 0 %d' % a, 'sp', 'rb 0', 'link 0 %d' % b, 'sp', 'rb 0',
               'read %d' % b, 'read 0']
        if rng.random() < 0.5:
            ops += ['link 0 %d' % b, 'sp', 'link %d %d' % (b, c), 'rb 0']
        ops += [rng.choice(['commit', 'abort'])]
    elif t == 3:    # savepoint before joining, rollback to it after savepoints of the joined connection
        ops = ['link 0 %d' % a, 'commit', 'sp', 'mod %d %d' % (a, val()), 'sp', 'link %d %d' % (a, b), 'sp',
               'rb %d' % rng.choice([0, 0, 1]), 'read %d' % a, 'mod 0 %d' % val(), 'sp', 'rb 0', 'read 0',
               rng.choice(['commit', 'abort'])]
    elif t == 4:    # abort (or failing commit) after savepoints and rollbacks
        ops = ['link 0 %d' % a, 'commit', 'mod %d %d' % (a, val()), 'link %d %d' % (a, b), 'sp',
               'mod %d %d' % (b, val()), 'sp', 'rb %d' % rng.choice([0, 1]),
               rng.choice(['abort', 'commitf rm after vote', 'commitf store 0', 'commitf store 1',
                           'commitf rm before finish', 'commitf finish'])]
    else:           # explicit add, savepoint, rollback, add again
        ops = ['add %d' % a, 'mod %d %d' % (a, val()), 'sp', 'link %d %d' % (a, b), 'sp', 'rb 0',
               'read %d' % a, 'link 0 %d' % a, 'sp', 'rb 1', 'rb 0', rng.choice(['commit', 'abort'])]
    # filler
    for _ in range(rng.randrange(3)):
        pos = rng.randrange(len(ops) + 1)
        i = rng.randrange(n)
        ops.insert(pos, rng.choice(['read %d' % i, 'mod %d %d' % (i, val()), 'peek %d' % i]))
    ops += ['read %d' % i for i in range(n)] + ['commit'] + ['peek %d' % i for i in range(n)]
    return dict(kind=kind, n=n, ops=ops)


ALL_KINDS = ['mapping', 'file', 'demo', 'hex', 'mapping', 'file', 'mvcc', 'demo', 'config', 'file', 'demofs', 'mapping',
             'hexfs', 'demo', 'configfs']


def decorate(case, rng):
    """construction paths: DB options (pool_size, large_record_size; a tiny cache_size makes the cache GC of
    savepoint()/close() ghostify objects at points the Lean model does not predict: such cases are judged by
    the oracle alone), objects with states > 64 KiB"""
    r = rng.random()
    if r < 0.10:
        case['db'] = {'pool_size': 1}
    elif r < 0.20:
        case['db'] = {'large_record_size': 120, 'pool_size': rng.choice([1, 7])}
    elif r < 0.28:
        case['db'] = {'cache_size': rng.choice([1, 2, 3])}
        case['loose'] = 1
    if rng.random() < 0.06 and case['kind'] in ('mapping', 'file', 'demofs', 'hexfs'):
        case['big'] = 1
    if rng.random() < 0.15:
        case['explicit'] = 1
    return case


def nontrivial(case, real, pid):
    """the rule of DESIGN 4.21, measured on the executed trace (through the oracle's bookkeeping)"""
    if case.get('family'):
        return False
    pid = case.get('as', pid)
    o = Oracle(case['n'], pid)
    implicit = failed = False
    rbs, older = 0, False
    for idx, op in enumerate(case['ops'], 1):
        res = real[idx].split(' | ')[0]
        k = op.split()[0]
        was_joined = o.joined
        nsp = len(o.sps)
        try:
            o.lastkind = None
            o.step(op)
        except Tainted:
            break
        if k in ('commit', 'commitf', 'sp') and was_joined and getattr(o, 'lastnew', None):
            implicit = True
        if k == 'sp' and was_joined:
            pass
        if res.startswith('fail:') or (k == 'abort' and was_joined):
            failed = True
        if k == 'rb' and res == 'ok':
            rbs += 1
            if int(op.split()[1]) < nsp - 1:
                older = True
        o.lastnew = None
    if pid == 'C11':
        return implicit and failed
    return rbs >= 2 and older


def load_corpus(pid):
    import json
    d = os.path.join(os.path.dirname(os.path.dirname(os.path.abspath(__file__))), 'corpus', pid)
    out = []
    if os.path.isdir(d):
        for f in sorted(os.listdir(d)):
            if f.endswith('.json'):
                with open(os.path.join(d, f)) as fh:
                    c = json.load(fh)
                out.append({k: c[k] for k in ('kind', 'n', 'ops', 'selfact', 'family', 'as', 'two', 'db', 'loose', 'big', 'explicit') if k in c})
    return out


_counter = [0]


def real_of(case, tmpdir, blobs=False):
    import shutil
    _counter[0] += 1
    tag = '%d-%d' % (os.getpid(), _counter[0])
    try:
        return run_real(case, tmpdir, tag, blobs)
    finally:
        shutil.rmtree(os.path.join(tmpdir, 'fs-' + tag), ignore_errors=True)


CASE_TIMEOUT = 120


class CaseTimeout(BaseException):
    pass


def _work(args):
    """one case on the real code, with a time limit: a step that blocks becomes a verdict with its input"""
    import signal
    case, tmpdir, pid = args

    def onalarm(*a):
        raise CaseTimeout()
    old = signal.signal(signal.SIGALRM, onalarm)
    signal.alarm(CASE_TIMEOUT)
    try:
        real = real_of(case, tmpdir)
        return real, judge(case, real, pid), nontrivial(case, real, pid), None
    except CaseTimeout:
        n = len(case['ops'])
        return (['timeout'] * (n + 1), (n, '%s:timeout' % pid, 'the program did not finish within %d s'
                                        % CASE_TIMEOUT), False, None)
    except Exception as e:      # harness trouble, not a verdict
        import traceback
        return None, None, False, traceback.format_exc()
    finally:
        signal.alarm(0)
        signal.signal(signal.SIGALRM, old)


def run_check(pid, argv=None):
    import json
    from common import Check, InfraError, run_driver, ddmin
    ck = Check(pid, argv)
    ck.extra['modules'] = ['Props.' + pid, 'Drivers.Conn'] + (['Drivers.TmpBytes'] if pid == 'C12' else [])
    ck.run_gate(ck.extra['modules'], ['Props.' + pid])
    ncases = (300 if pid == 'C11' else 300) if not ck.thorough else (10000 if pid == 'C11' else 20000)
    cases = load_corpus(pid)
    if ck.replay_path:
        with open(ck.replay_path) as f:
            c = json.load(f)['case']
        cases = [{k: c[k] for k in ('kind', 'n', 'ops', 'selfact', 'family', 'as', 'two', 'db', 'loose', 'big', 'explicit') if k in c}]
        ncases = 0
        if c.get('family') == 'tmpstore-bytes':     # the byte level of the savepoint store: its own runner
            import c12_tmpbytes
            real, bad = c12_tmpbytes.run_real(c['ops'])
            model = run_driver('TmpBytes', ['new'] + list(c['ops']))
            ck.case(dict(tmpstore=c['ops']), True)
            if bad:
                ck.violation('C12:tmpstore:load', 'TmpStore (savepoint store, byte level): ' + bad[0][1],
                             dict(family='tmpstore-bytes', ops=c['ops'], real=real))
            elif real != model:
                ck.mismatch('TmpStore byte model/impl differ', dict(family='tmpstore-bytes', ops=c['ops'], real=real,
                                                                     model=model))
            return ck
    kinds = KINDS
    for m in range(ncases):
        size = ck.rng.choice([6, 10, 16, 24, 36])
        if pid == 'C11':
            trio = kinds if m % 4 else [ALL_KINDS[(m // 4 * 3 + x) % len(ALL_KINDS)] for x in range(3)]
            for kind in (trio if not ck.thorough else [ALL_KINDS[m % len(ALL_KINDS)]]):
                if m % 10 == 9:
                    cases.append(decorate(gen_scenario(ck.rng, pid, kind), ck.rng))
                else:
                    cases.append(decorate(gen_case(ck.rng, pid, size, kind), ck.rng))
        elif m % 5 == 4:
            cases.append(decorate(gen_scenario(ck.rng, pid, ALL_KINDS[(m // 5) % len(ALL_KINDS)]), ck.rng))
        else:
            cases.append(decorate(gen_case(ck.rng, pid, size, ALL_KINDS[m % len(ALL_KINDS)]), ck.rng))
    if pid == 'C11' and not ck.replay_path:
        import c11_multidb
        for m in range(60 if not ck.thorough else 1500):
            cases.append(c11_multidb.gen(ck.rng, kinds[m % 3]))
        for m in range(45 if not ck.thorough else 1000):
            cases.append(c11_multidb.gen_x(ck.rng, kinds[m % 3]))
        import c11_misc
        for m in range(40 if not ck.thorough else 600):
            cases.append(c11_misc.gen(ck.rng, kinds[m % 3]))
        # savepoint programs (the outcome of abort / commit / failed commit after savepoints and rollbacks is
        # C11's subject too): C12's scenarios and random programs, judged by the oracle in C12 mode
        for m in range(60 if not ck.thorough else 1500):
            c = (gen_scenario(ck.rng, 'C12', kinds[m % 3]) if m % 2 == 0
                 else gen_case(ck.rng, 'C12', ck.rng.choice([6, 10, 16, 24]), kinds[m % 3]))
            c['as'] = 'C12'
            cases.append(c)
    if pid == 'C12' and not ck.replay_path:
        import c12_readcur
        for m in range(45 if not ck.thorough else 1500):
            cases.append(c12_readcur.gen(ck.rng, kinds[m % 3]))
        import c12_blobs
        for m in range(60 if not ck.thorough else 2000):
            cases.append((c12_blobs.gen_scenario if m % 3 == 2 else c12_blobs.gen)(ck.rng, kinds[m % 3]))
    # model: one driver process for everything (several in the thorough tier)
    work = [(c, ck.tmp, pid) for c in cases]
    if ck.thorough and len(cases) > 2000:
        import multiprocessing as mp
        from concurrent.futures import ThreadPoolExecutor
        nchunk = 8
        chunks = [cases[i::nchunk] for i in range(nchunk)]

        def drive(chunk):
            lines = []
            for c in chunk:
                lines += driver_lines(c)
            return run_driver('Conn', lines, timeout=900)
        with ThreadPoolExecutor(nchunk) as ex:
            futs = [ex.submit(drive, ch) for ch in chunks]
            with mp.Pool(8) as pool:
                results = pool.map(_work, work, chunksize=50)
            outs = [f.result() for f in futs]
        model_of = {}
        for ci, ch in enumerate(chunks):
            pos = 0
            for k, c in enumerate(ch):
                ln = len(driver_lines(c))
                model_of[ci + k * nchunk] = outs[ci][pos:pos + ln]
                pos += ln
        models = [model_of[i] for i in range(len(cases))]
    else:
        lines = []
        for c in cases:
            lines += driver_lines(c)
        out = run_driver('Conn', lines) if lines else []
        models, pos = [], 0
        for c in cases:
            ln = len(driver_lines(c))
            models.append(out[pos:pos + ln])
            pos += ln
        results = [_work(w) for w in work]
    for case, model, (real, verdict, nontriv, err) in zip(cases, models, results):
        if err:
            raise InfraError('runner failed on %r: %s' % (case, err))
        for op in case['ops']:
            t = op.split()
            ck.count('op:' + (t[0] if t[0] != 'commitf' else 'commitf-' + t[1]))
        ck.count('storage:' + case['kind'])
        for r in real:
            h = r.split(' | ')[0].split()[0]
            if h.startswith('fail:') or h.startswith('err:'):
                ck.count(h)
        ck.case(case, nontriv, sample=dict(case=case, real=real[:8]) if nontriv else None)
        cut = len(real)
        if verdict is not None and verdict[0] == 'taint':
            ck.count('tainted-by-C11-finding')
            cut = verdict[1]
        elif verdict is not None and verdict[1].endswith(':timeout'):
            ck.violation(verdict[1], verdict[2], dict(case, real=real[:1], at=verdict[0]))
            cut = 0
        elif verdict is not None:
            idx, sig, what = verdict
            cut = idx
            ops = case['ops']

            def fails(sub, sig=sig, case=case):
                c2 = dict(case, ops=sub)
                v = judge(c2, real_of(c2, ck.tmp), pid)
                return v is not None and v[0] != 'taint' and v[1] == sig
            if sig.endswith('savepoint-created-object-ghostified-on-abort') and ck.extra.get('residual_seen'):
                small = ops[:idx]       # (an open finding hit by many programs: shrink the first one only)
            else:
                small = ddmin(ops[:idx], fails, max_tests=150)
            if sig.endswith('savepoint-created-object-ghostified-on-abort'):
                ck.extra['residual_seen'] = True
            c2 = dict(case, ops=small)
            r2 = real_of(c2, ck.tmp)
            v2 = judge(c2, r2, pid)
            if v2 is None or v2[0] == 'taint' or v2[1] != sig:
                c2, r2, v2 = dict(case, ops=ops[:idx]), real[:idx + 1], verdict
            ck.violation(v2[1], v2[2], dict(c2, real=r2, at=v2[0]))
        if case.get('family'):
            ck.count('oracle-only:' + case['family'])
            cut = 0
        if case.get('loose'):
            ck.count('oracle-only:tiny-cache')
            cut = 0
        if case.get('selfact'):
            ck.count('oracle-only:self-activating-object')
            cut = 0         # such objects are not in the Lean model: judged by the oracle alone
        def norm(line, k):
            # (the observation between a failed savepoint and the abort that follows is not at a transaction
            # boundary: whether the connection's view was refreshed by then is not part of the comparison)
            op = (['reset'] + case['ops'])[k]
            if op.startswith('spf') and line.startswith('fail:') and line.count(' | ') == 2:
                a, _, c = line.split(' | ')
                return a + ' | ' + c
            return line
        for k in range(min(cut, len(real))):
            if norm(real[k], k) != norm(model[k], k):
                op = (['reset'] + case['ops'])[k]
                ck.mismatch('model/impl differ at op #%d %r: impl %r model %r' % (k, op, real[k], model[k]),
                            dict(kind=case['kind'], n=case['n'], ops=case['ops'][:k], real=real[:k + 1],
                                 model=model[:k + 1]))
                break
    if pid == 'C12' and not ck.replay_path:
        # the byte level of the savepoint store (ZodbModel/TmpBytes.lean): the real TmpStore class alone
        import c12_tmpbytes
        c12_tmpbytes.run(ck, run_driver, ddmin)
    return ck
