"""C10 — Conflict resolution stores exactly the class's three-way merge.

Correspondence check of `lean/ZodbModel/Resolve.lean` + `StoreRules.lean` (theorems in
`lean/Props/C10.lean`) against `ZODB.ConflictResolution`, `FileStorage.store`, `DemoStorage.store`,
`FileStorage._transactionalUndoRecord` and `Connection.tpc_vote/tpc_finish`, in three sections:

  storage  chains of 2-4 writers of one object on file / demo (both changes kinds) / mapping storages;
           records are pickled BY HAND so that the state holds references in all seven formats
           PersistentReference distinguishes — (oid, class), bare oid, ['m', (db, oid, class)],
           ['n', (db, oid)], ['w', (oid,)], ['w', (oid, db)], legacy [oid] — with class slots that are
           importable globals, unimportable globals (BadClass) and (module, name) tuples; the
           record's class is one that merges (seeded function of the three arguments), has no
           resolver, raises, raises ConflictError, cannot be imported (missing name / missing
           module), or is named by a (module, name) tuple / (class, args) tuple
  undo     FileStorage (also as DemoStorage changes) `undo` of a transaction followed by a different
           later change: `tryToResolveConflict(oid, ctid, tid, pre_data, current_data)`
  db       two or three Connections of a multi-database write one object whose state holds references
           produced by the real pickler: (oid, class), bare oid (class with `__getnewargs__`), weak
           reference, cross-database 'm' / 'n', cross-database weak reference

[P] the three arguments logged by `_p_resolveConflict` (instrumented classes of c10_classes.py), the
stored record unpickled (references symbolic), commit outcome, tpc_vote's list, what the writing
connection reads afterwards, nothing stored on failure.
Direct oracle: `c03.oracle_trace(kind=…)` — history tracked from the real outcomes only, expected
merge and expected resolver arguments computed in Python from the revisions' wires.
"""
import json
import os
import sys

sys.path.insert(0, os.path.dirname(os.path.abspath(__file__)))
from common import Check, InfraError, run_driver, ddmin  # noqa: E402
import c03  # noqa: E402
import c03_lib as L  # noqa: E402
import c10_classes as K  # noqa: E402
from c03_lib import Ref  # noqa: E402

KINDS = ['file', 'demo:file:mapping', 'demo:mapping:mapping', 'mapping']
HEX_KINDS = ['hex:file', 'hex:demo:file:mapping', 'hex:demo:mapping:mapping']
RECORD_CLASSES = [(11, 0), (11, 0), (12, 0), (13, 1), (11, 2), (1, 0), (2, 0), (3, 0), (4, 0), (9, 0), (8, 0),
                  (9, 2), (14, 1), (15, 0), (15, 0), (16, 0), (17, 1), (18, 0), (19, 0), (19, 0), (21, 0), (22, 0), (23, 0), (23, 0), (24, 0), (25, 0)]


# =============================================================================== generators
def gen_ref(rng):
    kl = rng.choice([('g', 11), ('g', 2), ('g', 9), ('g', 8), ('t', 2), ('t', 9), ('g', 13), ('g', 25), ('g', 25)])
    fmt = rng.choice('comnwxl')
    oid = rng.choice([1, 2, 3, 0x7f7f7f7f7f7f7f7f, 2 ** 63 + 5, 257])
    db = rng.choice([5, 6])
    if fmt == 'c':
        return Ref('c', oid, kl)
    if fmt == 'm':
        return Ref('m', db, oid, kl)
    if fmt == 'n':
        return Ref('n', db, oid)
    if fmt == 'x':
        return Ref('x', oid, db)
    return Ref(fmt, oid)


def gen_tree(rng, depth, refs=True):
    r = rng.random()
    if depth == 0 or r < 0.25:
        if refs and rng.random() < 0.55:
            return gen_ref(rng)
        return rng.choice([0, 1, 7, 255, 256, 65536, 2 ** 31 - 1, 2 ** 31, 2 ** 40, rng.randrange(1000)])
    return (gen_tree(rng, depth - 1, refs), gen_tree(rng, depth - 1, refs))


def all_formats_tree(rng):
    """one reference of every format in one state"""
    refs = [Ref('c', 2, ('g', rng.choice([11, 9, 25]))), Ref('o', 3), Ref('m', 5, 4, ('g', rng.choice([2, 8, 25]))),
            Ref('n', 5, 6), Ref('w', 7), Ref('x', 8, 6), Ref('l', 9), Ref('c', 10, ('t', rng.choice([2, 9])))]
    rng.shuffle(refs)
    t = rng.randrange(100)
    for r in refs:
        t = (r, t) if rng.random() < 0.5 else (t, r)
    return t


def gen_storage_case(rng, kind):
    """one or two objects (each with its own record class), a creator and 2-5 further writers whose
    base serials are chosen among the revisions committed so far (pairs and chains of concurrent
    writers); with two objects the conflicts interleave, so that the process-wide `_unresolvable`
    cache filled by one class is in place when the other class conflicts"""
    noid = rng.choice([1, 1, 2])
    oids = rng.sample([1, 7, 300, 65535, 65536, 0x00ff00ff00ff00ff, 2 ** 63 + 9, 2 ** 64 - 2], noid)
    klass = {oid: rng.choice(RECORD_CLASSES) for oid in oids}

    written = {oid: [] for oid in oids}

    def rec(oid, c=None, a=None):
        r = rec0(oid, c, a)
        if c is None and written[oid] and rng.random() < 0.2:
            r = rng.choice(written[oid][-2:])      # byte-identical to a concurrent writer's pickle
        written[oid].append(r)
        return r

    def rec0(oid, c=None, a=None):
        c, a = klass[oid] if c is None else (c, a)
        if c in (1, 21):
            tree = rng.randrange(50)
        elif c == 15 and rng.random() < 0.35:
            tree = 13           # the Moody resolver raises AttributeError for this wanted state
        elif rng.random() < 0.3:
            tree = all_formats_tree(rng)
        else:
            tree = gen_tree(rng, rng.choice([1, 2, 3]))
        return L.rec_wire(c, a, tree)
    ops = []
    tid = 10
    tids = {oid: [] for oid in oids}
    if 'demo' in kind and rng.random() < 0.5:
        ops.append('base 5 %d %s' % (oids[0], rec(oids[0])))
        tids[oids[0]].append(5)
    t = 0
    for w in range(rng.choice([3, 4, 5]) * noid):
        t += 1
        tid += rng.choice([1, 5])
        ops.append('begin %d %d' % (t, tid))
        stored = []
        rival = None
        for oid in rng.sample(oids, rng.choice([1, 1, noid])):
            have = tids[oid]
            r = rng.random()
            if not have:
                serial = 0
            elif r < 0.40:
                serial = have[-1]                       # up to date
            elif r < 0.92:
                serial = rng.choice(have)               # some earlier revision: conflict
            else:
                serial = rng.choice([0, have[0] - 1, have[-1] + 1])      # a serial that never existed
            # now and then the class of the conflicting record differs from the stored one
            if rng.random() < 0.12:
                c2, a2 = rng.choice(RECORD_CLASSES)
                ops.append('store %d %d %d %s' % (t, oid, serial, rec(oid, c2, a2)))
            else:
                ops.append('store %d %d %d %s' % (t, oid, serial, rec(oid)))
            stored.append(oid)
            if rng.random() < 0.3:
                ops.append('bystander')     # another storage of the process runs a 2PC between store and vote
            if rival is None and rng.random() < 0.15:
                # a rival thread calls tpc_begin on the SAME storage now: it must block on the commit lock
                # and must not disturb the holder (e.g. the list its tpc_vote is going to return)
                rival = (t + 100, tid + 1)
                ops.append('begin %d %d' % rival)
        if rng.random() < 0.15:                     # an unrelated new object in the same transaction
            ops.append('store %d %d 0 %s' % (t, 5000 + w, L.rec_wire(2, 0, w)))
        ops.append('vote %d' % t)
        if rng.random() < 0.9:
            ops.append('finish %d' % t)
            for oid in stored:
                tids[oid].append(tid)   # belief; a failed store leaves a transaction without the object
        else:
            ops.append('abort %d' % t)
        if rival is not None:
            # the lock is free now: the rival's tpc_begin returns; it gives up
            ops += ['begin %d %d' % rival, 'abort %d' % rival[0]]
            tid = rival[1]
    for oid in oids:
        ops += ['cur %d' % oid, 'load %d' % oid, 'hist %d' % oid]
    return dict(section='storage', kind=kind, ops=ops)


def gen_undo_case(rng, kind):
    cid, args = rng.choice([(11, 0), (11, 0), (12, 0), (13, 1), (1, 0), (2, 0), (3, 0), (4, 0), (11, 2)])
    oid = rng.choice([1, 7])

    def rec():
        tree = rng.randrange(50) if cid == 1 else (all_formats_tree(rng) if rng.random() < 0.3 else gen_tree(rng, 2))
        return L.rec_wire(cid, args, tree)
    n = rng.choice([3, 3, 4, 5])
    recs = []
    while len(recs) < n:
        r = rec()
        if r not in recs:
            recs.append(r)
    ops = []
    tid = 10
    tids = []
    for i, r in enumerate(recs):
        tid += rng.choice([1, 5])
        ops += ['begin 1 %d' % tid, 'store 1 %d %d %s' % (oid, tids[-1] if tids else 0, r), 'vote 1', 'finish 1']
        tids.append(tid)
    # undo a transaction that is neither the first nor the last: a different later change exists
    k = rng.randrange(1, n - 1)
    tid += 3
    ops.append('undo %d %d %d %d %s %s' % (tid, oid, tids[-1], tids[k], recs[k - 1], recs[-1]))
    if rng.random() < 0.4 and n >= 4 and k + 1 < n - 1:
        # chain: undo another one on top of the first undo (current is then the merged record)
        pass
    ops += ['cur %d' % oid, 'load %d' % oid, 'hist %d' % oid]
    return dict(section='undo', kind=kind, ops=ops)


def gen_undo_chain_case(rng, kind):
    """multi-step undo on one object: 4-6 revisions, then 2-4 undo transactions of arbitrary earlier
    transactions — in particular "undo the current one" (the undo record is then a back pointer
    without pickle) followed by the undo of an OLDER transaction, whose resolver call must be given
    the data the back pointer designates as the current state; also undo of an undo"""
    cid, args = rng.choice([(11, 0), (11, 0), (12, 0), (13, 1), (11, 2), (12, 0), (2, 0), (3, 0), (4, 0), (16, 0),
                            (17, 1), (18, 0), (19, 0)])
    oid = rng.choice([1, 7])
    n = rng.choice([4, 4, 5, 6])
    recs = []
    while len(recs) < n:
        tree = all_formats_tree(rng) if rng.random() < 0.2 else gen_tree(rng, rng.choice([0, 1, 2]), refs=rng.random() < 0.6)
        r = L.rec_wire(cid, args, tree)
        if r not in recs:
            recs.append(r)
    ops = []
    tid = 10
    tids = []
    for r in recs:
        tid += rng.choice([1, 5])
        ops += ['begin 1 %d' % tid, 'store 1 %d %d %s' % (oid, tids[-1] if tids else 0, r), 'vote 1', 'finish 1']
        tids.append(tid)
    multi = set()       # transactions written by several undo calls hold several records of the object;
    #                     undoing THEM undoes every record separately — not generated, not modelled
    for step in range(rng.choice([2, 3, 3, 4])):
        tid += rng.choice([1, 3])
        r = rng.random()
        cand = [t for t in tids[1:] if t not in multi]
        if step == 0 and r < 0.6 and tids[-1] not in multi:
            undone = tids[-1]                       # the current one: plain copy, back-pointer record
        elif r < 0.85:
            undone = rng.choice([t for t in cand if t != tids[-1]] or cand)    # an older one: needs the resolver
        else:
            undone = rng.choice(cand)
        if rng.random() < 0.35 and len(cand) >= 3:
            # several undos in ONE transaction, newest first (DB.undoMultiple): e.g. the current one (only
            # a back pointer is staged) and then an older one, which must merge against the staged record
            us = sorted(rng.sample(cand, rng.choice([2, 2, 3])), reverse=True)
            if rng.random() < 0.5 and tids[-1] not in us and tids[-1] not in multi:
                us = [tids[-1]] + us[:2]
            ops.append('undomulti %d %d %s' % (tid, oid, ' '.join(str(u) for u in us)))
            multi.add(tid)
        else:
            ops.append('undotxn %d %d %d' % (tid, oid, undone))
        tids.append(tid)                            # belief (an UndoError leaves no transaction)
    ops += ['cur %d' % oid, 'load %d' % oid, 'hist %d' % oid]
    return dict(section='undo', kind=kind, ops=ops)


# ----------------------------------------------------------------------------------- db level
TARGETS = ['tp', 'tn', 'tm', 'op', 'on']          # plain, newargs, merge (main db); plain, newargs (other db)


def gen_leaf(rng):
    r = rng.random()
    if r < 0.4:
        return ['int', rng.randrange(1000)]
    if r < 0.8:
        return ['obj', rng.choice(TARGETS)]
    return ['weak', rng.choice(TARGETS)]


def gen_spec(rng, depth):
    if depth == 0 or rng.random() < 0.3:
        return gen_leaf(rng)
    return ['pair', gen_spec(rng, depth - 1), gen_spec(rng, depth - 1)]


def gen_db_case(rng, kind):
    xcls = rng.choice(['Merge11', 'Merge11', 'Merge12', 'NewArgs', 'Counter', 'Raises', 'Conflicts', 'Plain',
                       'NeedsArg', 'NeedsArgNew', 'SideEffect', 'Moody', 'DeepMerge', 'DeepMerge', 'Zähler', 'Größe'])
    nconn = rng.choice([2, 2, 3])

    specs = []

    def spec():
        sp = ['int', rng.randrange(50)] if xcls in ('Counter', 'Length') else gen_spec(rng, rng.choice([1, 2, 3]))
        if specs and rng.random() < 0.2:
            sp = rng.choice(specs[-2:])        # the same wanted state as a concurrent writer
        specs.append(sp)
        return sp
    prog = []
    for _ in range(rng.choice([4, 6, 9])):
        c = rng.randrange(nconn)
        r = rng.random()
        if r < 0.22:
            prog.append(['read', c])
        elif r < 0.58:
            prog.append(['write', c, spec()])
        elif r < 0.66:
            prog.append(['savepoint', c])      # the data then reaches the storage through _commit_savepoint
        elif r < 0.74:
            # a competing revision committed through the storage API directly (a storage-level tool, a
            # second DB, a storage server): no invalidation is queued for the connections
            prog.append(['rawwrite', c, rng.randrange(1000)])
        elif r < 0.95:
            prog.append(['commit', c])
        else:
            prog.append(['abort', c])
    if rng.random() < 0.3:
        # directed: writer with a savepoint loses against a raw storage commit and is merged
        c = rng.randrange(nconn)
        k = rng.randrange(len(prog) + 1)
        prog[k:k] = [['abort', c], ['read', c], ['write', c, spec()], ['savepoint', c],
                     ['rawwrite', c, rng.randrange(1000)], ['commit', c], ['read', c], ['write', c, spec()],
                     ['commit', c]]
    for c in range(nconn):
        prog.append(['commit', c])
    return dict(section='db', kind=kind, xcls=xcls, nconn=nconn, init=spec(), prog=prog)


def live_wire(x, conn):
    """the tree a connection holds in memory, rendered as the pickler would write it"""
    from persistent import Persistent
    from persistent.wref import WeakRef
    if isinstance(x, tuple):
        return 'p' + live_wire(x[0], conn) + live_wire(x[1], conn)
    if isinstance(x, WeakRef):
        oid = L.u64(x.oid)
        if x.dm is conn:
            return 'rw%d.' % oid
        return 'rx%d,%d.' % (oid, L.DBNAMES[x.database_name])
    if isinstance(x, Persistent):
        oid = L.u64(x._p_oid)
        k = 'g%d' % K.BY_NAME[(type(x).__module__, type(x).__name__)]
        na = hasattr(type(x), '__getnewargs__')
        if x._p_jar is conn:
            return ('ro%d.' % oid) if na else 'rc%d,%s.' % (oid, k)
        db = L.DBNAMES[x._p_jar.db().database_name]
        return ('rn%d,%d.' % (db, oid)) if na else 'rm%d,%d,%s.' % (db, oid, k)
    return 'a%d.' % x


class GhostProbe:
    """second data manager, sorted after the Connection: its tpc_finish runs right after
    Connection.tpc_finish and before the synchronizers start the next transaction — the only moment
    at which "the writer's connection discarded its own copy" is observable (afterwards the pending
    invalidation of the competing commit ghostifies the object anyway)"""

    def __init__(self, obj, out):
        self.obj, self.out = obj, out

    def sortKey(self):
        return '~~probe'

    def abort(self, txn):
        pass

    def tpc_begin(self, txn):
        pass

    def commit(self, txn):
        pass

    def tpc_vote(self, txn):
        pass

    def tpc_finish(self, txn):
        self.out.append(self.obj._p_changed is None)

    def tpc_abort(self, txn):
        pass


class World:
    def __init__(self, case, tmp, tag):
        import transaction
        import ZODB
        from ZODB.MappingStorage import MappingStorage
        L.clear_resolution_caches()
        self.case = case
        self.storage, self.base = L.make_storage(case['kind'], tmp, tag)
        self.rec = L.Recorder(self.storage, L.tid_reader(self.storage))
        dbs = {}
        opts = {k: v for k, v in (('pool_size', L.BUILD.get('pool')), ('cache_size', L.BUILD.get('cache'))) if v is not None}
        self.db = ZODB.DB(self.storage, databases=dbs, database_name='main', **opts)
        self.db2 = ZODB.DB(MappingStorage('other'), databases=dbs, database_name='other')
        tm = transaction.TransactionManager()
        conn = self.db.open(tm)
        other = conn.get_connection('other')
        r, r2 = conn.root(), other.root()
        r['tp'], r['tn'], r['tm'] = K.Plain(1), K.PlainNewArgs(2), K.Merge11(3)
        r2['op'], r2['on'] = K.Plain(4), K.PlainNewArgs(5)
        tm.commit()
        r['X'] = getattr(K, case['xcls'])(self.build(case['init'], conn))
        tm.commit()
        self.xoid = L.u64(r['X']._p_oid)
        conn.close()

    def target(self, name, conn):
        c = conn if name[0] == 't' else conn.get_connection('other')
        return c.root()[name]

    def build(self, spec, conn):
        from persistent.wref import WeakRef
        if spec[0] == 'int':
            return spec[1]
        if spec[0] == 'obj':
            return self.target(spec[1], conn)
        if spec[0] == 'weak':
            return WeakRef(self.target(spec[1], conn))
        return (self.build(spec[1], conn), self.build(spec[2], conn))

    def close(self):
        for d in (self.db, self.db2):
            try:
                d.close()
            except Exception:
                pass


def raw_write(w, n, log):
    """commit a new revision of X through the storage API (recorded like every other call)"""
    from ZODB.Connection import TransactionMetaData
    st = w.storage
    cid = getattr(K, w.case['xcls']).CID
    args = 1 if hasattr(getattr(K, w.case['xcls']), '__getnewargs__') else 0
    oid = L.p64(w.xoid)
    txn = TransactionMetaData()
    st.tpc_begin(txn)
    try:
        st.store(oid, st.getTid(oid), L.make_pickle(cid, args, n), '', txn)
        st.tpc_vote(txn)
        tid = st.tpc_finish(txn)
        log.append(('rawwrite', L.u64(tid), n))
    except Exception:
        st.tpc_abort(txn)
        raise


def run_db_real(case, tmp, tag='d'):
    import clock
    import transaction
    with clock.scripted():
        w = World(case, tmp, tag)
        log = []
        try:
            conns = []
            for i in range(case['nconn']):
                tm = transaction.TransactionManager()
                conns.append((tm, w.db.open(tm)))
            dirty = [False] * case['nconn']
            for step in case['prog']:
                tm, conn = conns[step[1]]
                x = conn.root()['X']
                if step[0] == 'rawwrite':
                    raw_write(w, step[2], log)
                elif step[0] == 'savepoint':
                    tm.savepoint()
                    log.append(('savepoint', step[1]))
                elif step[0] == 'read':
                    log.append(('read', step[1], live_wire(x.v, conn)))
                elif step[0] == 'write':
                    x.v = w.build(step[2], conn)
                    dirty[step[1]] = True
                    log.append(('write', step[1], live_wire(x.v, conn)))
                elif step[0] == 'commit':
                    import threading
                    w.rec.last_finish.pop(threading.get_ident(), None)
                    w.rec.last_vote.pop(threading.get_ident(), None)
                    ghost = []
                    if dirty[step[1]]:
                        tm.get().join(GhostProbe(x, ghost))
                    out = c03.commit_outcome(tm)
                    tid = w.rec.last_finish.get(threading.get_ident()) if out == 'ok' and dirty[step[1]] else None
                    dirty[step[1]] = False
                    voted = w.rec.last_vote.get(threading.get_ident()) or []
                    log.append(('commit', step[1], out, tid, live_wire(conn.root()['X'].v, conn),
                                w.xoid in voted, ghost))
                else:
                    tm.abort()
                    dirty[step[1]] = False
                    log.append(('abort', step[1]))
            ops, obs, problems = w.rec.lines()
            r = L.StorageRunner.__new__(L.StorageRunner)
            r.storage, r.base, r.pending, r.begun, r.txns, r.events, r.voted = w.storage, w.base, {}, set(), {}, [], set()
            fin = ['cur %d' % w.xoid, 'load %d' % w.xoid, 'hist %d' % w.xoid]
            fobs = [r.op(x) for x in fin]
            extra = ['loadserial %d %s' % (w.xoid, t) for t in fobs[2].strip('[]').split(',') if t]
            eobs = [r.op(x) for x in extra]
            stored = {int(x.split()[2]): ob for x, ob in zip(extra, eobs)}
            return dict(ops=ops + fin + extra, obs=obs + fobs + eobs, lock_problems=problems, log=log,
                        stored=stored, xoid=w.xoid)
        finally:
            w.close()


def oracle_db(res):
    P = []
    stored = res['stored']
    latest = None
    for e in res['log']:
        if e[0] != 'commit':
            continue
        if e[2].startswith('Other'):
            P.append(('C10:wrong-exception', 'commit of connection %d raised %s (neither success nor a conflict error)' % (e[1], e[2])))
        if e[2] == 'ok' and e[3] is not None:
            latest = e[3]
            st = stored.get(e[3])
            if st is None:
                P.append(('C10:final-state-differs', 'commit %d left no revision of the object' % e[3]))
            elif e[5] and e[6] != [True]:
                P.append(('C10:resolved-not-ghostified',
                          'commit %d of connection %d stored a resolved (merged) state for the object, tpc_vote '
                          'reported it, but right after tpc_finish the connection still holds its own copy '
                          '(not ghostified)' % (e[3], e[1])))
            elif st.split('/', 2)[2] != e[4]:
                P.append(('C10:resolved-not-ghostified',
                          'after commit %d the writing connection %d reads %s but the stored revision holds %s '
                          '(its own copy was not discarded / not the merged state)' % (e[3], e[1], e[4], st.split('/', 2)[2])))
    return P


# =============================================================================== running
def run_real(case, tmp, tag):
    L.BUILD = case.get('build') or {}
    if case['section'] in ('storage', 'undo'):
        ops, obs = c03.run_storage_real(case, tmp, tag)
        return dict(ops=ops, obs=obs)
    return run_db_real(case, tmp, tag)


def run_real_safe(case, tmp, tag):
    cancel = c03.watchdog(240)
    try:
        return run_real(case, tmp, tag)
    except (InfraError, KeyboardInterrupt):
        raise
    except BaseException as e:  # noqa: B902
        import traceback
        return dict(ops=[], obs=[], crash=(type(e).__name__, traceback.format_exc()[-1200:]))
    finally:
        cancel()


def judge(case, res):
    if res.get('crash'):
        return [('C10:unexpected-exception:' + res['crash'][0], res['crash'][1])], False, {}
    P, nontriv, hc = c03.oracle_trace(res['ops'], res['obs'], pid='C10', kind=case['kind'])
    if case['section'] == 'db':
        P += [('C10:lock-not-exclusive', p) for p in res['lock_problems']]
        P += oracle_db(res)
    return P, nontriv, hc


def shrink(case, sig, tmp):
    n = [0]

    def fails_with(c):
        n[0] += 1
        try:
            P, _, _ = judge(c, run_real_safe(c, tmp, 'k%d' % n[0]))
        except InfraError:
            return False
        return any(s == sig for s, _ in P)
    if case['section'] == 'db':
        small = ddmin(case['prog'], lambda sub: fails_with(dict(case, prog=sub)), max_tests=80)
        return dict(case, prog=small)
    if case['section'] == 'undo':
        return case      # the undo op names revisions of the history before it: dropping any is ill-formed
    # storage: drop whole transactions (groups begin…finish) rather than single calls
    groups, curg = [], []
    tail = []
    for o in case['ops']:
        k = o.split()[0]
        if k in ('cur', 'load', 'hist'):
            tail.append(o)
            continue
        curg.append(o)
        if k in ('finish', 'abort', 'base', 'undo', 'newstorage'):
            groups.append(curg)
            curg = []
    if curg:
        groups.append(curg)
    small = ddmin(groups, lambda sub: fails_with(dict(case, ops=[o for g in sub for o in g] + tail)), max_tests=80)
    return dict(case, ops=[o for g in small for o in g] + tail)


def _work(args):
    idx, case, tmp = args
    import logging
    logging.disable(logging.CRITICAL)
    import shutil
    sub = os.path.join(tmp, 'case%d' % idx)
    os.makedirs(sub, exist_ok=True)
    try:
        res = run_real_safe(case, sub, 'w')
        res['judged'] = judge(case, res)
        return idx, res, None
    except InfraError as e:
        return idx, None, 'infra: %s' % e
    finally:
        shutil.rmtree(sub, ignore_errors=True)


MAX_BAD = 6


def run_all(ck, cases):
    results = [None] * len(cases)
    bad = 0
    if ck.thorough and len(cases) > 200:
        import multiprocessing as mp
        with mp.get_context('fork').Pool(min(16, os.cpu_count() or 4)) as pool:
            for idx, res, err in pool.imap_unordered(_work, [(i, c, ck.tmp) for i, c in enumerate(cases)], chunksize=4):
                if err:
                    raise InfraError('case %d failed to run: %s' % (idx, err))
                results[idx] = res
                bad += bool(res['judged'][0])
                if bad >= MAX_BAD:
                    pool.terminate()
                    break
    else:
        for i, c in enumerate(cases):
            idx, res, err = _work((i, c, ck.tmp))
            if err:
                raise InfraError('case %d (%s) failed to run: %s' % (i, json.dumps(c)[:300], err))
            results[i] = res
            bad += bool(res['judged'][0])
            if bad >= MAX_BAD:
                ck.count('stopped-early-after-violations')
                break
    return results


def main(argv=None):
    import logging
    logging.disable(logging.CRITICAL)
    ck = Check('C10', argv)
    ck.extra['modules'] = ['Props.C10', 'Drivers.StoreRules']
    ck.run_gate(ck.extra['modules'], ['Props.C10'])
    cases = []
    if ck.replay_path:
        with open(ck.replay_path) as f:
            cases = [json.load(f)['case']['case']]
    else:
        cdir = os.path.join(os.path.dirname(os.path.dirname(os.path.abspath(__file__))), 'corpus', 'C10')
        if os.path.isdir(cdir):
            for fn in sorted(os.listdir(cdir)):
                if fn.endswith('.json'):
                    with open(os.path.join(cdir, fn)) as f:
                        cases.append(json.load(f))
        n_st, n_un, n_db = (100, 60, 60) if not ck.thorough else (4000, 2000, 2000)
        for kind in KINDS + HEX_KINDS + ['demo2']:
            for _ in range(n_st // 4 if kind in ('mapping', 'demo2') else n_st // 2 if kind in HEX_KINDS else n_st):
                cases.append(c03.with_session(ck.rng, gen_storage_case(ck.rng, kind),
                                              lambda k2: gen_storage_case(ck.rng, k2), KINDS + HEX_KINDS[:1] + ['demo2']))
        # (not hex:demo:…: DemoStorage.registerDB does not forward the wrapper's transform hooks to its
        #  changes storage, whose undo then cannot unpickle the records and conservatively raises UndoError)
        for kind in ('file', 'demo:file:mapping', 'hex:file'):
            for _ in range(n_un if kind[:3] != 'hex' else n_un // 2):
                cases.append(gen_undo_case(ck.rng, kind))
            for _ in range(n_un if kind[:3] != 'hex' else n_un // 2):
                cases.append(gen_undo_chain_case(ck.rng, kind))
        for kind in KINDS[:3] + HEX_KINDS:
            for _ in range(n_db if kind[:3] != 'hex' else n_db // 2):
                cases.append(gen_db_case(ck.rng, kind))
    for c in cases:
        if 'build' not in c and not ck.replay_path:
            c['build'] = c03.gen_build(ck.rng)
    results = run_all(ck, cases)
    lines, spans = [], []
    for case, res in zip(cases, results):
        if res is None or res.get('crash'):
            spans.append(None)
            continue
        ml = c03.model_lines(case['kind'], res['ops'])
        spans.append((len(lines) + len(ml) - len(res['ops']), len(res['ops'])))
        lines += ml
    mout = run_driver('StoreRules', lines) if lines else []
    shrunk = set()
    for idx, (case, res) in enumerate(zip(cases, results)):
        if res is None:
            continue
        P, nontriv, hc = res['judged']
        for k, v in hc.items():
            ck.count(k, v)
        ck.count('section:' + case['section'])
        ck.count('kind:' + case['kind'])
        for ob in res['obs']:
            for x in ob.split():
                if x.startswith('call='):
                    for f in 'comnwxl':
                        if 'R' + f in x:
                            ck.count('ref-format-seen-by-resolver:' + f)
        sample = dict(section=case['section'], kind=case['kind'], ops=res['ops'][:10], real=res['obs'][:10]) if nontriv else None
        ck.case(case, nontriv, sample)
        if P:
            sig, what = P[0]
            small = shrink(case, sig, ck.tmp) if sig not in shrunk and len(shrunk) < 3 else case
            shrunk.add(sig)
            r2 = run_real_safe(small, ck.tmp, 'v%d' % idx)
            P2, _, _ = judge(small, r2)
            what2 = [w for s, w in P2 if s == sig]
            ck.violation(sig, (what2 or [what])[0], dict(case=small, ops=r2['ops'], real=r2['obs'], problems=P2[:5]))
            continue
        start, n = spans[idx]
        mo = mout[start:start + n]
        if mo != res['obs']:
            j = [k for k in range(n) if mo[k] != res['obs'][k]][0]
            ck.mismatch('model/impl differ (%s, %s) at op %r: impl %r model %r' % (
                case['section'], case['kind'], res['ops'][j], res['obs'][j], mo[j]),
                dict(case=case, ops=res['ops'][:j + 1], real=res['obs'][:j + 1], model=mo[:j + 1]))
    ck.finish(
        rule='storage-level chains of 3-5 writers of one object with hand-pickled states holding all seven '
             'reference formats (class slots: importable global, unimportable global, (module, name) tuple), '
             'record classes that merge / have no resolver / raise / raise ConflictError / cannot be imported, '
             'on file, demo (file and mapping changes) and mapping storages; FileStorage undo (also below a '
             'DemoStorage) of a transaction followed by a different change; DB-level programs of 2-3 '
             'connections of a multi-database with pickler-produced references; non-trivial = '
             '_p_resolveConflict was actually invoked (value / exception / ConflictError), measured from the '
             'log of the instrumented classes; distinct by hash of the case',
        assumptions=['object states are trees of ints, 2-tuples and persistent references; the byte layout of '
                     'pickles is runtime and compared after unpickling with symbolic references',
                     'the undo model covers the resolver call of _transactionalUndoRecord only (a transaction '
                     'that is neither first nor last with a different later change); the remaining undo '
                     'decisions belong to C06',
                     'wrapped storages (registerDB transform hooks, e.g. compression) are the identity here'])


if __name__ == '__main__':
    try:
        main()
    except InfraError as e:
        print('INFRA-ERROR', e)
        sys.exit(2)
