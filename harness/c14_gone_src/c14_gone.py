"""Classes of the C14 check that come and go (see harness/c14_classes.py): this directory is NOT on
sys.path; c14_classes imports the module once by path, removes it from sys.modules to make the classes
unimportable, and puts the directory on sys.path (without importing) to make them importable again."""
from persistent import Persistent

from c14_classes import NEW_ARGS


class Gone(Persistent):
    pass


class GoneNA(Persistent):
    def __new__(cls, *args):
        self = Persistent.__new__(cls)
        NEW_ARGS[self] = args
        return self

    def __getnewargs__(self):
        return self.__dict__.get('_v_na', ())


class PlainGone:
    """not persistent: pickled by value inside its holder's record, with constructor arguments that
    only __new__ accepts (loading must not run __init__)"""

    def __new__(cls, *args):
        self = object.__new__(cls)
        NEW_ARGS[self] = args
        return self

    def __init__(self, name):
        self.name = name

    def __getnewargs__(self):
        return ('x', 'y')


class PlainGoneFalsy:
    """not persistent; its state is a FALSY value ({}, [], 0, '', (), False) that __setstate__ must still
    receive — also after the placeholder of the missing class has been pickled again"""

    def __init__(self, st):
        self.__dict__['made'] = True
        self.__dict__['st'] = st

    def __getstate__(self):
        return self.__dict__['st']

    def __setstate__(self, state):
        self.__dict__['st'] = state
        self.__dict__['got'] = True
