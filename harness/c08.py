"""C08 — Packing is safe under concurrent commits and under a crash at any point.

Three families of cases on the REAL FileStorage (DESIGN 4 C08):

 (a) sched  — one packer ∥ 1-2 committers (own objects + a shared pair, optional undo) ∥ a reader ∥
              (sometimes) a second packer, run by harness/sched.py with yield points at every ZODB lock
              operation and every raw file operation (writes, renames, … and — optionally — reads).
              [P] no deadlock; every commit that returned is present with its data (live storage, after
              close/reopen, after a re-scan without index); the packed file is C07-equivalent to the
              unpacked one kept in Data.fs.old; readers saw only consistent pairs and no error unless
              their snapshot is at or before the pack time (then only ReadConflictError); only the
              allowed exceptions anywhere; the storage stays usable.  Every fifth schedule is DIRECTED
              (a commit is voted while the packer copies a body and finished before it comes back).
              [I] the packer's / committers' lock-event pattern is an accepted action sequence of
              ZodbModel/PackProto (Drivers/PackProto.lean) ending in the same stored log.
 (b) crash  — record the raw fs events of a pack (with / without a commit in the middle, keep_old
              True/False, leftover .old, saved index); for every cut materialise the directory and open
              it with the real FileStorage.  [P] the reopened transaction list is the unpacked or the
              packed one, each with every commit that had returned before the cut (and at most those
              begun); index and log agree; the storage accepts a commit.  Model: Drivers/PackDisk.lean.
 (d) mapping — MappingStorage (the property's first sentence is storage-generic): packer with gc ∥ committers
              creating NEW objects ∥ reader under the scheduler (the gc sweep's reference callback is a yield
              point), plus a deterministic commit started from inside that callback.  [P] every returned
              commit present and complete, its new object loads, containers consistent.
 (e) blob   — FileStorage with a blob directory: packer ∥ committers storing blobs for NEW objects ∥ reader,
              yield points also at mkdir / rmdir / rename / remove; half of the schedules directed (the
              committer stands at the mkdir of its blob directory while the pack cleans up emptied
              directories).  [P] no commit fails because of the pack, every returned blob reads back (also
              after reopen), pack ok.
 (f) prepack — a connection opened before DB.pack() commits NEW objects after it; a connection created
              afterwards must load them (MVCCMappingStorage, MappingStorage, FileStorage; deterministic).
 (c') blobfault — OSError at every raw operation of a pack of a storage WITH blobs, then a pack to an
              earlier time that tags nothing: every blob record still in Data.fs keeps its file.
 (h) oldsnapshot — deterministic: a connection holds an object as a ghost, newer revisions are committed,
              db.pack(now) completes, the ghost is loaded: ReadConflictError or a correct read, nothing else.
 (g) close  — packer ∥ committer ∥ a thread closing the DB at a schedule-chosen moment; ORACLE-ONLY on the files
              left behind (reopen holds every returned commit, index/log agree, commit + pack work); what the
              threads answer after the close is counted, not judged.
 Generalisation pass (all families): construction through the constructor or ZODB.config with pack_keep_old /
 pack_gc true and false, HexStorage wrapper, blob layouts bushy / lawn, BlobStorage wrapper, DemoStorage and
 MVCCMappingStorage packs, a second independent storage packed in the same process, storage-level commits of
 the less-travelled kinds (restore with prev_txn, deleteObject, empty transaction, > 64 KiB records) and
 a storage-level reader of every kind (load, loadBefore, loadSerial, getTid, history, iterator,
 record_iternext, undoLog, loadBlob) while the pack runs, historical connections, hook yield points in
 windows without lock or file operation (index lookup, unlocked _pos read, pool emptying), a second pack
 after every reopened crash image, per-case watchdog.
 (c) fault  — inject an OSError at each raw mutating operation of a pack.  [P] pack raises (or the
              failure is harmless), the database is the unpacked or the packed one and usable: commit
              lock free, flag cleared (next pack not refused), loads work; `.pack` removed when the
              failing write was on `.pack`.
The direct oracles below use observations of the real code only; the Lean model is a second opinion.
"""
import base64
import glob
import json
import logging
import os
import shutil
import sys
import threading
import time

sys.path.insert(0, os.path.dirname(os.path.abspath(__file__)))
from common import Check, InfraError, run_driver, ddmin, VERIF  # noqa: E402
import clock   # noqa: E402
import sched   # noqa: E402
import vfs     # noqa: E402

logging.disable(logging.CRITICAL)

import transaction  # noqa: E402
import ZODB  # noqa: E402
from ZODB.FileStorage import FileStorage  # noqa: E402
from ZODB.POSException import ConflictError, ReadConflictError, UndoError, POSKeyError  # noqa: E402
from ZODB.serialize import referencesf  # noqa: E402
from ZODB.utils import p64, u64, z64  # noqa: E402
from persistent.TimeStamp import TimeStamp  # noqa: E402
from persistent.mapping import PersistentMapping  # noqa: E402

FSMOD = sys.modules['ZODB.FileStorage.FileStorage']
FileStorageError = FSMOD.FileStorageError
_real_open = vfs._real_open


# ------------------------------------------------------------------------------------------------
# read yield points (file-I/O granularity includes reads): local extension of vfs.RecFileIO
# ------------------------------------------------------------------------------------------------
_READ_YIELD = [False]


def _install_read_hooks():
    import io
    if getattr(vfs.RecFileIO, '_c08_reads', False):
        return

    def _note(self):
        rec = self._rec
        if _READ_YIELD[0] and rec.enabled and rec.on_event is not None:
            rec.on_event(('read', self._rel))

    def read(self, size=-1):
        _note(self)
        return io.FileIO.read(self, size)

    def readinto(self, b):
        _note(self)
        return io.FileIO.readinto(self, b)

    def readall(self):
        _note(self)
        return io.FileIO.readall(self)

    vfs.RecFileIO.read, vfs.RecFileIO.readinto, vfs.RecFileIO.readall = read, readinto, readall
    vfs.RecFileIO._c08_reads = True


# ------------------------------------------------------------------------------------------------
# helpers: pack time, dumps, equivalence
# ------------------------------------------------------------------------------------------------
def packtid(t):
    return TimeStamp(*time.gmtime(t)[:5] + (t % 60,)).raw()


def clean_side_files(path):
    for suf in ('.lock', '.tmp'):
        try:
            os.remove(path + suf)
        except OSError:
            pass


def txn_dump(fs):
    """[(tid, status, user, desc, ext, ((oid, data), …))] — data with back pointers resolved"""
    out = []
    it = fs.iterator()
    try:
        for t in it:
            out.append((t.tid, t.status, t.user, t.description, repr(sorted((t.extension or {}).items())),
                        tuple((r.oid, r.data) for r in t)))
    finally:
        it.close()
    return out


def index_vs_log(fs, dump):
    """current state through the index must be the last record of each oid in the log; None = ok"""
    last = {}
    for t in dump:
        for oid, data in t[5]:
            last[oid] = (data, t[0])
    for oid, (data, tid) in sorted(last.items()):
        try:
            d, s = fs.load(oid, '')
        except POSKeyError:
            d, s = None, None
        except Exception as e:      # noqa: B902
            return 'load(%s) raised %s' % (oid.hex(), type(e).__name__)
        if data is None:
            if d is not None:
                return 'load(%s) returns data for an un-created object' % oid.hex()
        elif (d, s) != (data, tid):
            return 'load(%s) = serial %s, log says %s' % (oid.hex(), s and s.hex(), tid.hex())
    if len(fs) != len(last):
        return 'the index has %d entries, the log %d objects' % (len(fs), len(last))
    return None


def refs_of(data):
    """oids referenced by a record (also when a HexStorage wrapper stored it hex-encoded)"""
    if data[:2] == b'.h':
        import binascii
        data = binascii.a2b_hex(data[2:])
    return referencesf(data)


def reachable_at(fs, bound):
    """{oid: (data, serial, end)} of everything reachable from the root in the snapshot before `bound`"""
    seen, todo = {}, [z64]
    while todo:
        oid = todo.pop()
        if oid in seen:
            continue
        try:
            r = fs.loadBefore(oid, bound)
        except POSKeyError:
            seen[oid] = 'KeyError'
            continue
        if r is None:
            seen[oid] = None
            continue
        seen[oid] = r
        todo.extend(refs_of(r[0]))
    return seen


def equiv_after_T(fx, fr, T):
    """C07 equivalence of the packed storage fx with the unpacked reference fr (the file kept as
    Data.fs.old) for everything observable after pack time T up to fr's last transaction: same
    transactions after T, same loadBefore answers for every object reachable in every snapshot after T.
    (Commits later than fr's last transaction were made on the packed file and are checked separately.)
    Returns None or a description of the first difference."""
    last = fr.lastTransaction()
    dx = [t for t in txn_dump(fx) if T < t[0] <= last]
    dr = [t for t in txn_dump(fr) if t[0] > T]
    if dx != dr:
        return 'transactions after the pack time differ: %s vs %s' % (
            [t[0].hex() for t in dx], [t[0].hex() for t in dr])
    bounds = [p64(u64(min(T, last)) + 1)] + [p64(u64(t[0]) + 1) for t in dr]

    def norm(r):
        if r is None or r == 'KeyError':
            return r
        return (r[0], r[1], r[2] if r[2] and r[2] <= last else None)
    for b in bounds:
        sr = reachable_at(fr, b)
        for oid, r in sorted(sr.items()):
            if r is None or r == 'KeyError':
                continue
            try:
                x = fx.loadBefore(oid, b)
            except POSKeyError:
                x = 'KeyError'
            if norm(x) != norm(r):
                return 'loadBefore(%s, %s) differs after pack' % (oid.hex(), b.hex())
    return None


# ------------------------------------------------------------------------------------------------
# scenario: the database every case starts from
# ------------------------------------------------------------------------------------------------
def mk_pair(v, seq):
    return PersistentMapping(v=v, seq=seq)


def open_storage(path, P, **kw):
    """the FileStorage + DB of a scenario along one of the construction paths: direct constructor or
    ZODB.config, pack_keep_old / pack_gc true or false, optionally under a HexStorage wrapper"""
    keep, gc = P.get('keep_old', True), P.get('pack_gc', True)
    if P.get('ctor') == 'config' and not kw:
        from ZODB.config import databaseFromString
        db = databaseFromString(
            '<zodb>\n<filestorage>\npath %s\npack-keep-old %s\npack-gc %s\n</filestorage>\n</zodb>\n'
            % (path, 'true' if keep else 'false', 'true' if gc else 'false'))
        return db.storage, db
    fs = FileStorage(path, pack_keep_old=keep, pack_gc=gc, **kw)
    if P.get('hex'):
        from ZODB.tests.hexstorage import HexStorage
        return fs, ZODB.DB(HexStorage(fs))
    return fs, ZODB.DB(fs)


def build_db(path, P, clk, **kw):
    """create Data.fs with a small history; returns (fs, db, info).  P: dict of scenario parameters."""
    fs, db = open_storage(path, P, **kw)
    info = {}
    c = db.open()
    r = c.root()
    r['A'], r['B'] = mk_pair(0, 0), mk_pair(0, 0)
    for k in (1, 2):
        r['A%d' % k], r['B%d' % k], r['C%d' % k] = mk_pair(0, 0), mk_pair(0, 0), PersistentMapping(n=0)
    r['G'] = PersistentMapping(x='garbage' * P.get('gsize', 3))
    transaction.commit()
    for i in range(P.get('pre', 2)):
        r['A']['v'] = r['B']['v'] = i + 1
        r['G']['x'] = 'g%d' % i
        transaction.commit()
    del r['G']                      # G becomes garbage
    r['A']['v'] = r['B']['v'] = 50
    transaction.commit()
    info['t_mid'] = clk.now + 0.5   # pack time option 'mid': frees old revisions and G
    for i in range(P.get('post', 2)):
        r['A']['v'] = r['B']['v'] = 60 + i
        r['S'] = PersistentMapping(i=i, pad='s%d.' % i * (P.get('pad', 0) // 3))
        transaction.commit()
    c.close()
    if P.get('reopen'):             # leave a saved index with a real position behind
        db.close()
        fs, db = open_storage(path, P, **kw)
    if P.get('prepack'):            # a previous pack leaves Data.fs.old (keep_old) behind
        c = db.open()
        c.root()['A']['v'] = c.root()['B']['v'] = 70
        transaction.commit()
        c.close()
        if P.get('keep_old', True):
            db.pack(info['t_mid'] - 2.0)
        if not os.path.exists(path + '.old'):
            with _real_open(path + '.old', 'wb') as f:
                f.write(b'FS21 leftover')
    return fs, db, info


def pack_time(P, info, clk):
    mode = P.get('ptime', 'mid')
    if mode == 'mid':
        return info['t_mid']
    if mode == 'now':
        return clk.now + 0.5
    return clk.now + 100000.0       # 'future'


# ------------------------------------------------------------------------------------------------
# (a) scheduler runs
# ------------------------------------------------------------------------------------------------
def no_hardlinks(rec):
    """simulate a file system without hard links: os.link below the recorder's root raises EPERM
    (the pack then takes its two-rename fallback)"""
    import errno
    orig = rec.before

    def before(ev):
        if ev[0] == 'link':
            raise OSError(errno.EPERM, 'hard links not supported (simulated)')
        return orig(ev)
    rec.before = before


class Note:
    """markers the threads put into the scheduler's event log (thread, 'note', text)"""

    def __init__(self):
        self.s = None
        self.on_note = None

    def __call__(self, text):
        s = self.s
        if s is not None:
            t = s.by_ident.get(threading.get_ident())
            if t is not None:
                s.events.append((t.name, 'note', text))
                if self.on_note is not None:
                    self.on_note(t.name, text)


class DirectedScheduler(sched.Scheduler):
    """harness/sched.py's scheduler with an optional policy: a function of the scheduler (it reads the
    event log) naming the thread to prefer at this yield point, or None for the seeded random choice.
    Decisions are logged as usual, so a directed run replays from its decision list."""

    def __init__(self, *a, policy=None, **kw):
        sched.Scheduler.__init__(self, *a, **kw)
        self.policy = policy

    def _choose(self, cur):
        if self.policy is not None and self.schedule is None and self.steps < self.max_steps:
            en = [t for t in self.threads if self._enabled(t)]
            want = self.policy(self) if en else None
            if want is not None:
                for i, t in enumerate(en):
                    if t.name == want:
                        self.steps += 1
                        self.decisions.append(i)
                        return t
        return sched.Scheduler._choose(self, cur)


def policy_vote_during_copy(crole, n):
    """directed interleaving: let the packer reach its n-th hand-over of the commit lock in copyRest;
    then committer c1 begins and votes (stops right before its status-byte write); the packer copies the
    body and comes back for the lock; c1 finishes; the rest is random"""
    st = dict(stage=0, i=0, rel=0, acq=False)

    def policy(s):
        evs = s.events
        while st['i'] < len(evs):
            th, kind, label = evs[st['i']]
            st['i'] += 1
            if st['stage'] == 0:
                if th == 'p' and kind == 'acquired' and label == crole:
                    st['acq'] = True
                elif th == 'p' and kind == 'release' and label == crole and st['acq']:
                    st['rel'] += 1
                    if st['rel'] == n:
                        st['stage'] = 1
            elif st['stage'] == 1:
                if th == 'c1' and kind == 'note' and label == 'status-write':
                    st['stage'] = 2
            elif st['stage'] == 2:
                if th == 'p' and kind in ('acquire', 'block') and label == crole:
                    st['stage'] = 3
            elif st['stage'] == 3:
                if th == 'c1' and kind == 'release' and label == crole:
                    st['stage'] = 4
        return {0: 'p', 1: 'c1', 2: 'p', 3: 'c1'}.get(st['stage'])
    return policy


def staged_policy(stages):
    """stages: list of (thread to prefer, predicate(thread, kind, label) that ends the stage, on_end or None);
    after the last stage the seeded random choice takes over"""
    st = dict(stage=0, i=0)

    def policy(s):
        evs = s.events
        while st['i'] < len(evs) and st['stage'] < len(stages):
            ev = evs[st['i']]
            st['i'] += 1
            th, pred, on_end = stages[st['stage']]
            if pred(*ev):
                st['stage'] += 1
                if on_end is not None:
                    on_end()
        return stages[st['stage']][0] if st['stage'] < len(stages) else None
    return policy


def policy_fault_during_handover(crole, n, arm):
    """directed: the packer reaches its n-th hand-over of the commit lock in copyRest; committer c1 begins
    and votes (it owns the commit lock, in flight); the packer's next write to Data.fs.pack fails
    (`arm()` plants the fault) and the pack raises; committer c2 tries to begin while c1 is still in
    flight; then c1 finishes; the rest is random"""
    cnt = dict(acq=False, rel=0)

    def handed_over(th, kind, label):
        if th == 'p' and kind == 'acquired' and label == crole:
            cnt['acq'] = True
        elif th == 'p' and kind == 'release' and label == crole and cnt['acq']:
            cnt['rel'] += 1
            return cnt['rel'] == n
        return False
    return staged_policy([
        ('p', handed_over, None),
        ('c1', lambda th, kind, label: th == 'c1' and kind == 'note' and label == 'status-write', arm),
        ('p', lambda th, kind, label: th == 'p' and kind == 'note' and label.startswith('attempt-end'), None),
        ('c2', lambda th, kind, label: th == 'c2' and label == crole and kind in ('block', 'release'), None),
        ('c1', lambda th, kind, label: th == 'c1' and kind == 'release' and label == crole, None),
    ])


def policy_attempts_during_pack():
    """directed: the packer runs until it has created Data.fs.pack (flag set, pack in progress) and is
    paused there; thread q makes all its pack attempts; the rest is random"""
    return staged_policy([
        ('p', lambda th, kind, label: th == 'p' and kind == 'io' and label == 'create Data.fs.pack', None),
        ('q', lambda th, kind, label: th == 'q' and kind == 'note' and label == 'attempts-done', None),
    ])


def hook_vfs(rec, note):
    """like sched.vfs_hook, plus a note before a committer's one-byte status write"""
    def on_event(ev):
        s = sched._current
        if s is not None:
            if ev[0] == 'write' and ev[1] == 'Data.fs' and len(ev[3]) == 1:
                note('status-write')
            s.yield_point('io', '%s %s' % (ev[0], ev[1] if len(ev) > 1 else ''))
    rec.on_event = on_event


def install_hook_yields(fs):
    """extra yield points in windows that contain no lock or raw file operation: the index lookup of a load,
    the unlocked `_pos` read of the packer (getSize), emptying the reader pool.  Returns an undo function."""
    cls = type(fs)
    orig_lookup = cls._lookup_pos
    orig_getsize = fs.getSize
    pool = fs._files
    orig_empty = pool.empty

    def yp(label):
        s = sched._current
        if s is not None:
            s.yield_point('hook', label)

    def _lookup_pos(self, oid):
        yp('lookup_pos')
        r = orig_lookup(self, oid)
        yp('lookup_pos-done')
        return r

    def getSize():
        yp('getSize')
        r = orig_getsize()
        yp('getSize-done')
        return r

    def empty():
        yp('pool-empty')
        return orig_empty()
    cls._lookup_pos = _lookup_pos
    fs.getSize = getSize
    pool.empty = empty

    def undo():
        cls._lookup_pos = orig_lookup
    return undo


def api_reader(fs, oids, init_recs, n, out):
    """storage-level reader of every kind: load, loadBefore, loadSerial, getTid, history, iterator,
    record_iternext, undoLog, lastTransaction, len — records what it saw for the post-hoc oracle"""
    def f():
        maxb = b'\xff' * 8
        for i in range(n):
            for oid in oids:
                for call in ('load', 'loadBefore', 'getTid', 'history'):
                    try:
                        if call == 'load':
                            d, t = fs.load(oid, '')
                            out.append(('rev', call, oid, t, d))
                        elif call == 'loadBefore':
                            r = fs.loadBefore(oid, maxb)
                            out.append(('rev', call, oid, r[1], r[0]))
                            if r[2] is not None:
                                out.append(('err', call, 'end tid on the newest revision'))
                        elif call == 'getTid':
                            out.append(('tid', call, oid, fs.getTid(oid)))
                        else:
                            h = fs.history(oid, size=4)
                            ts = [e['tid'] for e in h]
                            if ts != sorted(ts, reverse=True) or not ts:
                                out.append(('err', call, 'history not newest-first / empty'))
                            for t in ts:
                                out.append(('tid', call, oid, t))
                    except Exception as e:      # noqa: B902
                        out.append(('exc', call, type(e).__name__))
            for (oid, tid), data in init_recs[-3:]:
                try:
                    out.append(('rev', 'loadSerial', oid, tid, fs.loadSerial(oid, tid)))
                except Exception as e:          # noqa: B902
                    out.append(('exc', 'loadSerial', type(e).__name__))
            try:
                last = None
                it = fs.iterator()
                try:
                    for t in it:
                        if last is not None and t.tid <= last:
                            out.append(('err', 'iterator', 'tids not increasing'))
                        last = t.tid
                        for x in t:
                            if x.data is not None:
                                out.append(('rev', 'iterator', x.oid, x.tid, x.data))
                finally:
                    it.close()
            except Exception as e:              # noqa: B902
                out.append(('exc', 'iterator', type(e).__name__))
            try:
                nxt, prev = None, None
                while True:
                    oid, tid, data, nxt = fs.record_iternext(nxt)
                    if prev is not None and oid <= prev:
                        out.append(('err', 'record_iternext', 'oids not increasing'))
                    prev = oid
                    out.append(('rev', 'record_iternext', oid, tid, data))
                    if nxt is None:
                        break
            except (POSKeyError, ValueError) as e:
                # which object?  (the walk stands at `nxt`, or at the first oid)
                out.append(('exc', 'record_iternext', type(e).__name__, nxt))
            except Exception as e:              # noqa: B902
                out.append(('exc', 'record_iternext', type(e).__name__))
            try:
                fs.undoLog(0, 4)
            except UndoError:
                out.append(('ok', 'undoLog-refused'))
            except Exception as e:              # noqa: B902
                out.append(('exc', 'undoLog', type(e).__name__))
            try:
                fs.lastTransaction(), len(fs), fs.getSize()
            except Exception as e:              # noqa: B902
                out.append(('exc', 'misc', type(e).__name__))
        return len(out)
    return f


def k_committer(fs, template, n, big, done):
    """storage-level two-phase commits of the less-travelled kinds while the pack runs: store of a new
    object, restore with a prev_txn hint (back pointer), deleteObject, an empty transaction, a record larger
    than 64 KiB.  `done` collects (tid, kind, oid, data or None) of every commit that returned."""
    from ZODB.Connection import TransactionMetaData

    def f():
        out = []
        mine = []           # [oid, tid, data] of objects this thread created (current state)
        for i in range(n):
            kind = ('store', 'restore', 'big' if big else 'store', 'delete', 'empty')[i % 5]
            t = TransactionMetaData(u'k', u'%s %d' % (kind, i))
            try:
                fs.tpc_begin(t)
                rec = None
                if kind in ('store', 'big'):
                    oid = fs.new_oid()
                    data = template + (b'x' * (70000 + 1000 * i) if kind == 'big' else b'')
                    fs.store(oid, z64, data, '', t)
                    rec = [oid, None, data]
                elif kind == 'restore' and mine and mine[-1][2] is not None:
                    oid = fs.new_oid()
                    src = mine[-1]
                    fs.restore(oid, fs._tid, src[2], '', src[1], t)     # same pickle: a back pointer
                    rec = [oid, None, src[2]]
                elif kind == 'delete' and mine and mine[0][2] is not None:
                    fs.deleteObject(mine[0][0], mine[0][1], t)
                    rec = [mine[0][0], None, None]
                fs.tpc_vote(t)
                tid = fs.tpc_finish(t)
                if rec is not None:
                    rec[1] = tid
                    if kind == 'delete':
                        mine[0] = rec
                    else:
                        mine.append(rec)
                    done.append((tid, kind, rec[0], rec[2]))
                else:
                    done.append((tid, 'empty', None, None))
                out.append(kind)
            except Exception as e:              # noqa: B902
                try:
                    fs.tpc_abort(t)
                except Exception:               # noqa: B902
                    pass
                src = mine[0] if kind == 'delete' and mine else None
                out.append('raised:%s:%s:%s' % (kind, type(e).__name__, src[1].hex() if src else e))
                if src is not None and isinstance(e, POSKeyError):
                    src[2] = None       # (collected by the pack: created at or before the pack time, unreachable)
        return out
    return f


def verify_extras(obs, fs, T, init_recs, api_out, kdone, final_dump):
    """oracle for the api reader and the storage-level committer"""
    pr = []
    ref = dict(init_recs)
    for t in final_dump:
        for oid, data in t[5]:
            ref[(oid, t[0])] = data
    tids_of = {}
    for (oid, tid) in ref:
        tids_of.setdefault(oid, set()).add(tid)
    for o in api_out:
        if o[0] == 'rev':
            _, call, oid, tid, data = o
            if ((oid, tid) in ref and ref[(oid, tid)] != data) or ((oid, tid) not in ref and tid > T):
                pr.append(('api-wrong:%s' % call, '%s returned a revision (%s, %s) that was never committed / with '
                           'other data' % (call, oid.hex()[-4:], tid.hex()[-6:])))
        elif o[0] == 'tid':
            _, call, oid, tid = o
            if tid > T and tid not in tids_of.get(oid, ()):
                pr.append(('api-wrong:%s' % call, '%s reports tid %s for %s which no committed revision has'
                           % (call, tid.hex()[-6:], oid.hex()[-4:])))
        elif o[0] == 'err':
            pr.append(('api-wrong:%s' % o[1], o[2]))
        elif o[0] == 'exc':
            # loadSerial of a revision at or before the pack time may be gone; everything else must work
            # (record_iternext raises POSKeyError at an object whose newest record is a deletion — with or
            #  without a pack; the storage-level committer deletes objects)
            if o[1] == 'record_iternext' and o[2] in ('POSKeyError', 'ValueError') and len(o) > 3 and o[3] is not None:
                # record_iternext reads the index and then loads without any lock: when the swap of a gc pack
                # falls in between, it raises for an object the pack has just collected (unreachable garbage,
                # outside C07's observables).  Counted, reported to the coordinator, not judged here.
                try:
                    fs.load(o[3], '')
                    gone = False
                except POSKeyError:
                    gone = True
                if gone:
                    obs['iternext_collected'] = obs.get('iternext_collected', 0) + 1
                    continue
            if not (o[1] == 'loadSerial' and o[2] == 'POSKeyError') and not (
                    o[1] == 'record_iternext' and o[2] == 'POSKeyError' and any(k[1] == 'delete' for k in kdone)):
                pr.append(('api-error:%s:%s' % (o[1], o[2]), 'storage call %s raised %s during the pack' % (o[1], o[2])))
    present = {t[0]: t for t in final_dump}
    lastk = {}
    for tid, kind, oid, data in kdone:
        if tid <= T:
            continue
        if tid not in present:
            pr.append(('lost-commit', 'the %s transaction %s committed at storage level is not stored' % (kind, tid.hex()[-6:])))
        elif oid is not None and (oid, data) not in present[tid][5]:
            pr.append(('wrong-data', 'the %s transaction %s does not hold its record' % (kind, tid.hex()[-6:])))
        if oid is not None:
            lastk[oid] = (tid, data)
    for oid, (tid, data) in lastk.items():
        try:
            got = fs.load(oid, '')
        except POSKeyError:
            got = None
        if (got if data is not None else None) != ((data, tid) if data is not None else None) or \
                (data is None and got is not None):
            pr.append(('wrong-data', 'object %s written by a %s commit loads %r' % (
                oid.hex()[-4:], 'delete' if data is None else 'store/restore', got and got[1].hex()[-6:])))
    return pr


def run_sched_case(P, tmp, schedule=None):
    """P: parameters (json-able).  Returns observation dict (json-able except bytes → hex)."""
    _install_read_hooks()
    root = os.path.join(tmp, 'sched')
    if os.path.exists(root):
        shutil.rmtree(root)
    os.makedirs(root)
    path = os.path.join(root, 'Data.fs')
    rec = vfs.Recorder(root)
    obs = dict(P=P)
    note = Note()
    with clock.scripted() as clk, sched.installed(), vfs.install(rec):
        fs, db, info = build_db(path, P, clk)
        returned = []          # (tid, who, writes) in return order
        T = [None]

        def packer(name, attempts=1):
            def f():
                outs = []
                for a in range(attempts):
                    t = pack_time(P, info, clk)
                    if T[0] is None or P.get('ptime') == 'mid':
                        T[0] = packtid(t)
                    else:
                        T[0] = max(T[0], packtid(t))
                    note('attempt-start')
                    try:
                        db.pack(t)
                        o = 'ok'
                    except FileStorageError as e:
                        o = 'FileStorageError:%s' % e
                    except Exception as e:      # noqa: B902
                        o = 'raised:%s:%s' % (type(e).__name__, e)
                    note('attempt-end ' + ('refused' if o == 'FileStorageError:Already packing' else
                                           'ok' if o == 'ok' else 'raised'))
                    outs.append(o)
                note('attempts-done')
                return outs[0] if attempts == 1 else outs
            return f

        def committer(k):
            def f():
                tm = transaction.TransactionManager()
                c = db.open(tm)
                out = []
                n = 0
                own = [(0, 0)]                    # stack of (v, seq) states of the own objects
                last_own_tid = None
                for i in range(P.get('commits', 3)):
                    v = 1000 * k + i
                    shared = (P.get('shared', 1) and (i + k) % 2 == 0)
                    do_undo = P.get('undo') and i == P.get('commits', 3) - 1 and last_own_tid
                    try:
                        tm.begin()
                        r = c.root()
                        if do_undo:
                            if k == 1:
                                try:
                                    db.undoLog(0, 3)
                                except UndoError:
                                    out.append('undolog-refused')
                            db.undo(base64.encodebytes(last_own_tid).rstrip(), tm.get())
                            note('commit-call')
                            tm.commit()
                            own.pop()
                            tid = fs.lastTransaction()
                            returned.append((None, k, 'undo'))
                            note('commit-returned')
                            out.append('undone')
                            last_own_tid = None
                            continue
                        n = own[-1][1] + 1
                        r['A%d' % k]['v'] = r['B%d' % k]['v'] = v
                        r['A%d' % k]['seq'] = r['B%d' % k]['seq'] = n
                        r['C%d' % k]['n'] = n
                        if P.get('pad'):
                            r['C%d' % k]['pad'] = ('%d.%d.' % (k, i)) * (P['pad'] // 4)
                        if shared:
                            r['A']['v'] = r['B']['v'] = v
                        note('commit-call')
                        tm.commit()
                        tid = r['C%d' % k]._p_serial
                        own.append((v, n))
                        returned.append((tid, k, dict(v=v, seq=n, shared=bool(shared))))
                        note('commit-returned')
                        last_own_tid = None if shared else tid
                        out.append('ok')
                    except ConflictError:
                        tm.abort()
                        note('commit-failed')
                        out.append('conflict')
                    except UndoError:
                        tm.abort()
                        note('commit-failed')
                        out.append('undoerror')
                    except Exception as e:      # noqa: B902
                        try:
                            tm.abort()
                        except Exception:       # noqa: B902
                            pass
                        note('commit-failed')
                        out.append('raised:%s:%s' % (type(e).__name__, e))
                c.close()
                return dict(out=out, own=own[-1])
            return f

        def reader():
            tm = transaction.TransactionManager()
            c = db.open(tm)
            out = []
            long = P.get('long_reader')

            def read_all(bound):
                try:
                    r = c.root()
                    vals = []
                    for a, b in (('A', 'B'), ('A1', 'B1'), ('A2', 'B2')):
                        x, y = r[a], r[b]
                        vals.append((x['v'], y['v'], x['seq'], y['seq']))
                    vals.append((r['C1']['n'], r['C2']['n']))
                    return vals
                except Exception as e:          # noqa: B902
                    return 'raised:%s' % type(e).__name__
            if long:                # ONE transaction: its snapshot may become older than the pack time
                tm.begin()
                bound = c._storage._start
                for i in range(P.get('reads', 4)):
                    out.append((bound.hex(), read_all(bound), 0))
                    c.cacheMinimize()
                tm.abort()
            else:
                for i in range(P.get('reads', 4)):
                    tm.begin()
                    bound = c._storage._start
                    out.append((bound.hex(), read_all(bound), i))
                    tm.abort()
                    c.cacheMinimize()
            c.close()
            return out

        rec.events.clear()
        init_dump = txn_dump(fs)
        init_tids = [t[0] for t in init_dump]
        init_recs = [((oid, t[0]), data) for t in init_dump for oid, data in t[5] if data is not None]
        c = db.open()
        watched = [z64] + [c.root()[n]._p_oid for n in ('A', 'B', 'C1')]
        template = fs.load(c.root()['C1']._p_oid, '')[0]
        c.close()
        api_out, kdone = [], []
        undo_hooks = install_hook_yields(fs) if P.get('hooks') else None
        hist_at = init_tids[-1] if (P.get('hist') and P.get('ptime', 'mid') == 'mid' and P.get('post', 2) >= 1) else None

        def hist_reader():
            c = db.open(at=hist_at)
            out = []
            try:
                for i in range(3):
                    try:
                        r = c.root()
                        out.append((r['A']['v'], r['B']['v']))
                    except Exception as e:      # noqa: B902
                        out.append('raised:%s' % type(e).__name__)
                    c.cacheMinimize()
            finally:
                c.close()
            return out
        twin = None
        if P.get('twin'):
            # a second, independent FileStorage + DB in the same process, packed and committed to at the same
            # time (class-level state shared between instances would show here)
            os.makedirs(os.path.join(root, 'twin'))
            tfs, tdb, tinfo = build_db(os.path.join(root, 'twin', 'Data.fs'),
                                       dict(keep_old=not P.get('keep_old', True), pre=2, post=1), clk)
            twin = dict(fs=tfs, db=tdb, t=tinfo['t_mid'], returned=[])

            def twin_packer():
                try:
                    tdb.pack(twin['t'])
                    return 'ok'
                except Exception as e:          # noqa: B902
                    return 'raised:%s:%s' % (type(e).__name__, e)

            def twin_committer():
                tm = transaction.TransactionManager()
                c = tdb.open(tm)
                out = []
                for i in range(2):
                    try:
                        tm.begin()
                        r = c.root()
                        r['A1']['v'] = r['B1']['v'] = 7000 + i
                        r['C1']['n'] = i + 1
                        tm.commit()
                        twin['returned'].append((r['C1']._p_serial, i + 1))
                        out.append('ok')
                    except Exception as e:      # noqa: B902
                        tm.abort()
                        out.append('raised:%s:%s' % (type(e).__name__, e))
                c.close()
                return out
        _READ_YIELD[0] = bool(P.get('read_yield'))
        policy = None
        crole = fs._commit_lock.role
        armed = [False]
        if P.get('directed') == 1 and P.get('post', 2) >= 1:
            policy = policy_vote_during_copy(crole, P.get('post', 2))
        elif P.get('directed') == 2 and P.get('post', 2) >= 1:
            import errno
            orig_before = rec.before

            def before(ev):
                # the planted fault: the packer's next raw write to Data.fs.pack fails with ENOSPC
                if armed[0] and ev[0] == 'write' and ev[1] == 'Data.fs.pack':
                    armed[0] = False
                    rec.events.append(('fault', rec.nmut) + ev[:2])
                    raise OSError(errno.ENOSPC, 'vfs injected fault (directed)')
                return orig_before(ev)
            rec.before = before
            # planted when c1 is about to write its status byte (event-driven, so a replay from the
            # decision list plants it at the same point)
            once = []

            def on_note(th, text):
                if th == 'c1' and text == 'status-write' and not once:
                    once.append(1)
                    armed[0] = True
            note.on_note = on_note
            policy = policy_fault_during_handover(crole, P.get('post', 2), None)
        elif P.get('directed') == 3:
            policy = policy_attempts_during_pack()
        s = DirectedScheduler(seed=P['seed'], schedule=schedule, stickiness=P.get('stick', 0.5), policy=policy)
        note.s = s
        hook_vfs(rec, note)
        s.spawn('p', packer('p'))
        for k in range(1, P.get('committers', 1) + 1):
            s.spawn('c%d' % k, committer(k))
        if P.get('reads', 4):
            s.spawn('r', reader)
        if P.get('second'):
            s.spawn('q', packer('q', attempts=int(P['second'])))
        if P.get('api'):
            s.spawn('a', api_reader(fs, watched, init_recs, int(P['api']), api_out))
        if P.get('kcommit'):
            s.spawn('k', k_committer(fs, template, int(P['kcommit']), P.get('pad', 0) >= 3000, kdone))
        if hist_at is not None:
            s.spawn('h', hist_reader)
        if twin is not None:
            s.spawn('p2', twin_packer)
            s.spawn('d1', twin_committer)
        try:
            res = s.run(timeout=60)
        finally:
            if undo_hooks is not None:
                undo_hooks()
        _READ_YIELD[0] = False
        rec.on_event = None
        note.s = None
        obs['deadlock'] = bool(res['deadlock'])
        obs['thread_errors'] = {k: repr(v) for k, v in res['errors'].items()}
        obs['results'] = res['results']
        obs['steps'] = res['steps']
        obs['decisions'] = res['decisions']
        obs['T'] = T[0].hex() if T[0] else None
        obs['returned'] = [(t.hex() if t else None, k, w) for t, k, w in returned]
        obs['init_tids'] = [t.hex() for t in init_tids]
        obs['events'] = res['events']
        obs['roles'] = dict(commit=fs._commit_lock.role, lock=fs._lock.role)
        problems = []
        if not res['deadlock']:
            try:
                Tb = T[0]
                extras = []
                if P.get('api') or P.get('kcommit'):
                    extras = verify_extras(obs, fs, Tb, init_recs, api_out, kdone, txn_dump(fs))
                    for o in (res['results'].get('k') or []):
                        if o.startswith('raised'):
                            f = o.split(':')
                            # deleting an unreachable object created at or before the pack time: gc took it
                            if f[1] == 'delete' and f[2] == 'POSKeyError' and len(f[3]) == 16 and \
                                    bytes.fromhex(f[3]) <= Tb:
                                continue
                            extras.append(('commit-error:%s' % f[2], 'storage-level %s' % o))
                if hist_at is not None:
                    want = (60 + P.get('post', 2) - 1,) * 2
                    for o in (res['results'].get('h') or ['missing']):
                        if tuple(o) != want if not isinstance(o, str) else True:
                            extras.append(('historical-reader', 'a historical connection after the pack time read %r, '
                                           'expected %r' % (o, want)))
                if twin is not None:
                    if res['results'].get('p2') != 'ok':
                        extras.append(('twin-pack-error', 'the pack of a second storage in the same process: %r'
                                       % (res['results'].get('p2'),)))
                    for o in (res['results'].get('d1') or ['missing']):
                        if o != 'ok':
                            extras.append(('twin-commit-error', 'commit to the second storage: %s' % o))
                    td = txn_dump(twin['fs'])
                    for tid, n in twin['returned']:
                        if tid not in [x[0] for x in td]:
                            extras.append(('twin-lost-commit', 'a commit to the second storage is not stored'))
                    e = index_vs_log(twin['fs'], td)
                    if e:
                        extras.append(('twin-index-inconsistent', e))
                    twin['db'].close()
                obs['api_calls'] = len(api_out)
                obs['ktids'] = [k[0].hex() for k in kdone]
                problems = extras + verify_sched(obs, fs, db, path, P, tmp)
            except Exception as e:      # noqa: B902
                problems = [('verify-raised:%s' % type(e).__name__, repr(e))]
        try:
            db.close()
        except Exception:               # noqa: B902
            pass
    obs['problems'] = problems
    return obs


def verify_sched(obs, fs, db, path, P, tmp):
    """the direct oracle of part (a): list of (symptom, text) — empty when the property held"""
    pr = []
    res = obs['results']
    T = bytes.fromhex(obs['T'])
    if obs['thread_errors']:
        pr.append(('thread-error', str(obs['thread_errors'])))
    # -- exceptions: only the allowed ones
    # -- the commit lock is exclusive: only its owner releases it, nobody else is admitted meanwhile
    owner = None
    crole = obs['roles']['commit']
    for th, kind, label in obs['events']:
        if label != crole or th in ('p2', 'd1'):        # (the twin storage's locks carry the same role name)
            continue
        if kind == 'acquired':
            if owner is not None and owner != th:
                pr.append(('commit-lock-shared', 'thread %s was admitted to the commit lock while %s is between '
                           'tpc_begin and tpc_finish' % (th, owner)))
            owner = th
        elif kind == 'release':
            if owner != th:
                pr.append(('commit-lock-released-by-non-owner', 'thread %s released the commit lock owned by %s'
                           % (th, owner)))
            owner = None
    q = res.get('q') if P.get('second') else []
    packs = [res.get('p')] + (q if isinstance(q, list) else [q])
    for x in packs:
        # sentence 3 of the property: a pack may fail, leaving the database usable and unchanged (checked
        # below like for every run).  A refusal needs a concurrent pack.
        if x == 'FileStorageError:Already packing' and not P.get('second'):
            pr.append(('pack-refused-without-concurrent-pack', str(packs)))
        elif x is None:
            pr.append(('pack-thread-died', str(packs)))
    if P.get('second') and all(str(x).startswith('FileStorageError') for x in packs):
        pr.append(('all-packs-refused', str(packs)))
    # a pack attempt made entirely while another thread's pack is between creating Data.fs.pack and
    # swapping it in (flag certainly set) must be refused — the first, the second and every later one
    busy = {}                       # thread -> [start index, end index or None] of its current busy window
    windows = []
    attempt = {}
    for i, (th, kind, label) in enumerate(obs['events']):
        if th in ('p', 'q'):
            if kind == 'io' and label == 'create Data.fs.pack':
                busy[th] = [i, None]
            elif th in busy and busy[th][1] is None and (
                    (kind == 'io' and label == 'rename Data.fs.pack') or
                    (kind == 'note' and label.startswith('attempt-end'))):
                busy[th][1] = i
                windows.append((th, busy[th][0], i))
            if kind == 'note' and label == 'attempt-start':
                attempt[th] = i
            elif kind == 'note' and label.startswith('attempt-end') and th in attempt:
                a0 = attempt.pop(th)
                for oth, w in busy.items():
                    if oth != th and w[0] < a0 and (w[1] is None or i < w[1]) and label != 'attempt-end refused':
                        pr.append(('pack-admitted-during-pack',
                                   'a pack attempt of thread %s made while thread %s was packing ended %r '
                                   '(results %r)' % (th, oth, label, packs)))
    nok = {}
    for k in range(1, P.get('committers', 1) + 1):
        cr = res.get('c%d' % k) or dict(out=['missing'], own=(0, 0))
        for o in cr['out']:
            if o.startswith('raised') or o == 'missing':
                pr.append(('commit-error:%s' % (o.split(':')[1] if ':' in o else o), o))
        nok[k] = cr['own']
    # -- readers: consistent pairs; errors only for snapshots at or before the pack time
    snap = {}
    for bound, vals, txn in (res.get('r') or []):
        if isinstance(vals, str):
            older = u64(bytes.fromhex(bound)) - 1 <= u64(T)
            if not (vals == 'raised:ReadConflictError' and older):
                pr.append(('reader-error:%s' % vals.split(':')[1], 'snapshot %s pack time %s: %s'
                           % (bound, T.hex(), vals)))
            continue
        for a in vals[:3]:
            if a[0] != a[1] or a[2] != a[3]:
                pr.append(('reader-inconsistent', 'snapshot %s saw %r' % (bound, vals)))
        if (vals[1][2], vals[2][2]) != tuple(vals[3]):
            pr.append(('reader-inconsistent', 'snapshot %s saw counters %r' % (bound, vals)))
        if snap.setdefault(txn, vals) != vals:
            pr.append(('reader-inconsistent', 'one transaction (snapshot %s) read %r and later %r'
                       % (bound, snap[txn], vals)))
    # -- every commit that returned is present, in order, with its data
    dump = txn_dump(fs)
    tids = [t[0] for t in dump]
    init = [bytes.fromhex(t) for t in obs['init_tids']]
    obs['final_tids'] = [t.hex() for t in tids]
    if tids != sorted(set(tids)):
        pr.append(('tids-not-increasing', str([t.hex() for t in tids])))
    if 'ok' not in packs and [t for t in init if t not in tids]:
        pr.append(('changed-by-failed-pack', 'no pack completed (%r) but transactions are gone' % (packs,)))
    ret = [(bytes.fromhex(t), k, w) for t, k, w in obs['returned'] if t]
    for tid, k, w in ret:
        if tid > T and tid not in tids:
            pr.append(('lost-commit', 'commit %s of committer %d returned but is not stored' % (tid.hex(), k)))
    known = set(bytes.fromhex(t) for t in obs['init_tids']) | set(t for t, _, _ in ret) | \
        set(bytes.fromhex(t) for t in obs.get('ktids', []))
    nundo = len([1 for t, _, w in obs['returned'] if w == 'undo'])
    phantom = [t for t in tids if t not in known]
    if len(phantom) > nundo:
        pr.append(('phantom-transaction', str([t.hex() for t in phantom])))
    for tid, k, w in ret:
        if tid > T and tid in tids:
            c = db.open(at=tid)
            try:
                r = c.root()
                got = (r['A%d' % k]['v'], r['B%d' % k]['v'], r['C%d' % k]['n'])
                if got != (w['v'], w['v'], w['seq']):
                    pr.append(('wrong-data', 'at %s committer %d wrote %r, stored %r' % (tid.hex(), k, w, got)))
                if w['shared'] and (r['A']['v'], r['B']['v']) != (w['v'], w['v']):
                    pr.append(('wrong-data', 'at %s shared pair %r' % (tid.hex(), (r['A']['v'], r['B']['v']))))
            finally:
                c.close()
    c = db.open()
    try:
        r = c.root()
        for k, own in nok.items():
            got = (r['A%d' % k]['v'], r['B%d' % k]['v'], r['A%d' % k]['seq'], r['C%d' % k]['n'])
            if got != (own[0], own[0], own[1], own[1]):
                pr.append(('lost-commit', 'final state of committer %d is %r, its last successful commit '
                           'wrote %r' % (k, got, own)))
    finally:
        c.close()
    e = index_vs_log(fs, dump)
    if e:
        pr.append(('index-inconsistent', e))
    # -- the packed file is equivalent to the unpacked one (Data.fs.old + later commits)
    old = path + '.old'
    if P.get('keep_old', True) and 'ok' in packs and os.path.exists(old) and not P.get('second') and \
            all(x == 'ok' for x in packs):
        ref = os.path.join(tmp, 'ref')
        if os.path.exists(ref):
            shutil.rmtree(ref)
        os.makedirs(ref)
        shutil.copy(old, os.path.join(ref, 'Data.fs'))
        fr = FileStorage(os.path.join(ref, 'Data.fs'), read_only=True)
        try:
            e = equiv_after_T(fs, fr, T)
            if e:
                pr.append(('not-equivalent', e))
        finally:
            fr.close()
    # -- still usable: a commit and another pack succeed
    try:
        c = db.open()
        c.root()['after'] = 1
        transaction.commit()
        c.close()
        db.pack(time.time())
    except Exception as e:              # noqa: B902
        transaction.abort()
        pr.append(('unusable-after:%s' % type(e).__name__, repr(e)))
    # -- close / reopen (with index, then full re-scan)
    live = txn_dump(fs)
    db.close()
    for variant in ('index', 'rescan'):
        if variant == 'rescan':
            for f in glob.glob(path + '.index*'):
                os.remove(f)
        f2 = FileStorage(path)
        try:
            d2 = txn_dump(f2)
            if d2 != live:
                pr.append(('reopen-differs', '%s: %d transactions, live had %d' % (variant, len(d2), len(live))))
            e = index_vs_log(f2, d2)
            if e:
                pr.append(('reopen-index-inconsistent', variant + ': ' + e))
        finally:
            f2.close()
    return pr


def sched_nontrivial(obs):
    """a commit completed during copyRest: a committer released the commit lock, having returned,
    between the packer's first acquisition of the commit lock and the swap"""
    role = obs['roles']['commit']
    phase = 0
    for th, kind, label in obs['events']:
        if th == 'p' and kind == 'acquired' and label == role and phase == 0:
            phase = 1
        elif th == 'p' and kind == 'io' and label == 'rename Data.fs.pack' and phase == 1:
            phase = 2
        elif phase == 1 and th.startswith('c') and kind == 'note' and label == 'commit-returned':
            return True
    return False


# ------------------------------------------------------------------------------------------------
# (b) crash cuts
# ------------------------------------------------------------------------------------------------
def record_pack(P, tmp):
    """run the scenario once under the recording VFS; returns dict(init, events, …)"""
    _install_read_hooks()
    root = os.path.join(tmp, 'rec')
    if os.path.exists(root):
        shutil.rmtree(root)
    os.makedirs(root)
    path = os.path.join(root, 'Data.fs')
    rec = vfs.Recorder(root)
    with clock.scripted() as clk, sched.installed(), vfs.install(rec):
        fs, db, info = build_db(path, P, clk)
        t = pack_time(P, info, clk)
        T = packtid(t)
        init = vfs.snapshot(root)
        rec.events.clear()
        committed = []
        if P.get('nolink'):
            no_hardlinks(rec)

        def packer():
            try:
                db.pack(t)
                return 'ok'
            except Exception as e:          # noqa: B902
                return 'raised:%s:%s' % (type(e).__name__, e)

        def committer():
            tm = transaction.TransactionManager()
            c = db.open(tm)
            for i in range(P.get('commits', 2)):
                try:
                    tm.begin()
                    r = c.root()
                    r['A1']['v'] = r['B1']['v'] = 2000 + i
                    r['C1']['n'] = i + 1
                    if P.get('pad'):
                        r['C1']['pad'] = ('1.%d.' % i) * (P['pad'] // 4)
                    if i % 2:
                        r['A']['v'] = r['B']['v'] = 2000 + i
                    tm.commit()
                    tid = r['C1']._p_serial
                    committed.append(tid)
                    rec.mark('ret %s' % tid.hex())
                except ConflictError:
                    tm.abort()
            c.close()

        s = sched.Scheduler(seed=P.get('seed', 0), stickiness=P.get('stick', 0.6))
        sched.vfs_hook(rec)
        s.spawn('p', packer)
        if P.get('commits', 2):
            s.spawn('c1', committer)
        res = s.run(timeout=60)
        rec.on_event = None
        evs = list(rec.events)
        if res['deadlock'] or res['errors'] or res['results'].get('p') != 'ok':
            try:
                db.close()
            except Exception:           # noqa: B902
                pass
            if res['deadlock']:
                raise SchedProblem('deadlock', 'deadlock while packing with one committer')
            if res['errors']:
                th, e = sorted(res['errors'].items())[0]
                raise SchedProblem('%s-error:%s' % ('pack' if th == 'p' else 'commit', type(e).__name__),
                                   'thread %s raised %r' % (th, e))
            raise SchedProblem('pack-error:%s' % str(res['results'].get('p')).split(':')[1],
                               'a pack concurrent with one plain committer failed: %s' % res['results'].get('p'))
        final = txn_dump(fs)
        rec.enabled = False
        db.close()
    return dict(init=init, events=evs, T=T, final=final, committed=committed, P=P)


class SchedProblem(Exception):
    def __init__(self, symptom, text):
        Exception.__init__(self, text)
        self.symptom, self.text = symptom, text


def classify_events(R):
    """positions of the swap operations in the event list"""
    evs = R['events']
    first = second = None
    for i, e in enumerate(evs):
        if e[0] in ('link', 'rename') and e[1] == 'Data.fs' and e[2] == 'Data.fs.old':
            first = i
        if e[0] == 'rename' and e[1] == 'Data.fs.pack' and e[2] == 'Data.fs':
            second = i
    return first, second


def open_image(img_dir, second_pack=False, hexed=False):
    """open the materialised image with the real FileStorage → (dump, problem-or-None); optionally run a
    SECOND pack on the reopened storage and check it against its own state before"""
    path = os.path.join(img_dir, 'Data.fs')
    clean_side_files(path)
    try:
        fs = FileStorage(path)
    except Exception as e:          # noqa: B902
        return None, 'open raised %s: %s' % (type(e).__name__, e)
    try:
        d = txn_dump(fs)
        e = index_vs_log(fs, d)
        if e:
            return d, 'index and log disagree: ' + e
        # the reopened storage accepts a commit
        try:
            if hexed:
                from ZODB.tests.hexstorage import HexStorage
                db = ZODB.DB(HexStorage(fs))
            else:
                db = ZODB.DB(fs)
            c = db.open()
            c.root()['reopened'] = 1
            transaction.commit()
            c.close()
        except Exception as e:      # noqa: B902
            transaction.abort()
            return d, 'commit after reopen raised %s: %s' % (type(e).__name__, e)
        if second_pack:
            try:
                before = dict((oid, fs.load(oid, '')) for oid in sorted(reachable_at(fs, b'\xff' * 8)))
                db.pack(time.time())
                d2 = txn_dump(fs)
                e = index_vs_log(fs, d2)
                if e:
                    return d, 'after a second pack of the reopened storage index and log disagree: ' + e
                after = dict((oid, fs.load(oid, '')) for oid in before)
                if after != before:
                    return d, 'a second pack of the reopened storage changed reachable current records'
            except Exception as e:  # noqa: B902
                return d, 'a second pack of the reopened storage raised %s: %s' % (type(e).__name__, e)
        return d, None
    finally:
        try:
            fs.close()
        except Exception:           # noqa: B902
            pass


def crash_references(R, tmp):
    """Ufull / Pfull: the complete unpacked and packed transaction lists of the recorded run, taken from
    the real files (pre-swap Data.fs + later commits; final Data.fs)"""
    first, second = classify_events(R)
    img = os.path.join(tmp, 'img-ref')
    vfs.materialize(R['init'], R['events'], first, None, img)
    path = os.path.join(img, 'Data.fs')
    clean_side_files(path)
    for f in glob.glob(path + '.index*'):
        os.remove(f)
    fs = FileStorage(path)
    try:
        U = txn_dump(fs)
    finally:
        fs.close()
    last = U[-1][0]
    U = U + [t for t in R['final'] if t[0] > last]
    return U, list(R['final'])


def crash_oracle(R, U, Pk, k, D, problem):
    """direct oracle of part (b) for the cut after k events: None, or what is wrong"""
    if D is None:
        return problem
    nret = len([e for e in R['events'][:k] if e[0] == 'mark' and e[1].startswith('ret ')])
    ctids = R['committed']
    ok = False
    for j in range(nret, len(ctids) + 1):
        bound = ctids[j - 1] if j else None
        for ref in (U, Pk):
            cand = [t for t in ref if t[0] not in ctids or (bound is not None and t[0] <= bound)]
            if D == cand:
                ok = True
    if not ok:
        what = 'EMPTY database' if not D else '%d transactions %s' % (len(D), [t[0].hex()[-6:] for t in D])
        return ('reopened database is neither the unpacked nor the packed one with the %d returned commit(s): %s'
                % (nret, what))
    return problem


def crash_signature(R, k):
    first, second = classify_events(R)
    if first is not None and second is not None and first < k <= second:
        return 'C08:crash-between-renames' + (':no-hardlinks' if R['P'].get('nolink') else '')
    if k <= first:
        last = R['events'][k - 1] if k else ('start',)
        return 'C08:crash-before-swap:%s' % ('pack-write' if last[0] in ('write', 'create') and
                                             str(last[1]).endswith('.pack') else
                                             'commit-returned' if last[0] == 'mark' else last[0])
    last = R['events'][k - 1]
    if last[0] == 'mark':
        return 'C08:crash-after-swap:commit-returned'
    return 'C08:crash-after-swap:%s-%s' % (last[0], str(last[1]).replace('Data.fs', '').strip('.') or 'data')


def model_events(R, U):
    """the recorded raw events as PackDisk model events; returns (lines, index map real k -> model cut)"""
    rank = {t[0]: i + 1 for i, t in enumerate(U)}
    first, second = classify_events(R)
    evs = R['events']
    img = dict(R['init'])
    lines = ['reset']
    # initial directory
    pre = [t for t in U if t[0] not in R['committed']]
    lines.append('file data db %s 0' % ','.join(str(rank[t[0]]) for t in pre))
    for name, mn in (('Data.fs.old', 'old'), ('Data.fs.index', 'index'), ('Data.fs.pack', 'pack')):
        if name in img:
            lines.append('file %s junk' % mn)
    kmap = [0]
    n = 0
    last_pack_write = max([i for i, e in enumerate(evs[:first]) if e[0] == 'write' and e[1] == 'Data.fs.pack'])
    idx_writes = [i for i, e in enumerate(evs) if e[0] == 'write' and e[1].endswith('index_tmp')]
    finished = []                   # transactions whose status byte was written before the swap
    per_event = []
    for i, e in enumerate(evs):
        out = []
        if e[0] == 'create' and e[1] == 'Data.fs.pack':
            out.append('ev put pack junk')
        elif e[0] == 'write' and e[1] == 'Data.fs.pack':
            out.append('PACKFINAL' if i == last_pack_write else 'ev put pack junk')
        elif e[0] == 'remove' and e[1] == 'Data.fs.old':
            out.append('ev remove old')
        elif e[0] == 'link' and e[1] == 'Data.fs' and e[2] == 'Data.fs.old':
            out.append('ev link data old')
        elif e[0] == 'rename' and e[1] == 'Data.fs' and e[2] == 'Data.fs.old':
            out.append('ev rename data old')
        elif e[0] == 'rename' and e[1] == 'Data.fs.pack':
            out.append('ev rename pack data')
        elif e[0] in ('create', 'write') and e[1].endswith('index_tmp'):
            out.append('ev put indexTmp junk' if not idx_writes or i != idx_writes[-1] else 'ev put indexTmp idx -')
        elif e[0] == 'remove' and e[1] == 'Data.fs.index':
            out.append('ev remove index')
        elif e[0] == 'rename' and e[1].endswith('index_tmp'):
            out.append('ev rename indexTmp index')
        elif e[0] == 'write' and e[1] == 'Data.fs':
            cur = img.get('Data.fs', b'')
            tid = cur[e[2] - 16:e[2] - 8] if e[2] >= 16 else b''
            if e[3] == b' ' and tid in rank and tid in R['committed']:
                out.append('ev finish %d' % rank[tid])
                if i < first:
                    finished.append(tid)
            else:
                out.append('ev vote')
        elif e[0] == 'trunc' and e[1] == 'Data.fs':
            out.append('ev abort')
        elif e[0] == 'mark' and e[1].startswith('ret '):
            out.append('ev ret %d' % rank[bytes.fromhex(e[1][4:])])
        vfs.apply_events(img, [e])
        per_event.append(out)
    final_pack = ','.join(str(rank[t[0]]) for t in R['final']
                          if t[0] in rank and (t[0] not in R['committed'] or t[0] in finished)) or '-'
    for out in per_event:
        out = ['ev put pack db %s 0' % final_pack if x == 'PACKFINAL' else x for x in out]
        lines += out
        n += len(out)
        kmap.append(n)
    return lines, kmap, rank


def run_crash_scenario(ck, P, tier_thorough, only_cut=None):
    """record one pack, enumerate cuts, judge each.  Returns number of cuts executed."""
    try:
        R = record_pack(P, ck.tmp)
    except SchedProblem as e:
        ck.case(dict(kind='crash', P=P, cut=None), False)
        ck.violation(sched_signature(e.symptom), e.text, dict(kind='crash', P=P))
        return 0
    U, Pk = crash_references(R, ck.tmp)
    first, second = classify_events(R)
    evs = R['events']
    # the packed file keeps every transaction after the pack time, identically and in order, and adds none
    if [t for t in Pk if t[0] > R['T']] != [t for t in U if t[0] > R['T']] or \
            [t[0] for t in Pk if t[0] not in set(u[0] for u in U)]:
        ck.violation('C08:packed-differs-after-packtime',
                     'the packed file does not hold exactly the transactions after the pack time of the unpacked '
                     'one: %s vs %s' % ([t[0].hex()[-6:] for t in Pk], [t[0].hex()[-6:] for t in U]),
                     dict(kind='crash', P=P))
    cuts = []
    if only_cut is not None:
        cuts = [tuple(only_cut)]
    else:
        for k in range(len(evs) + 1):
            cuts.append((k, None))
            if k < len(evs) and evs[k][0] == 'write' and (
                    evs[k][1] in ('Data.fs.pack', 'Data.fs') or evs[k][1].endswith('index_tmp')):
                n = len(evs[k][3])
                if n > 1:
                    if tier_thorough and evs[k][1] != 'Data.fs' and n <= 4096:
                        bs = range(1, n)
                    elif tier_thorough and evs[k][1] != 'Data.fs':
                        bs = sorted(set([1, n - 1] + [ck.rng.randrange(1, n) for _ in range(64)]))
                    else:
                        bs = sorted(set([1, n - 1] + [ck.rng.randrange(1, n) for _ in range(2)]))
                    cuts += [(k, b) for b in bs]
    try:
        lines, kmap, rank = model_events(R, U)
    except (KeyError, ValueError, IndexError):
        # the recorded run does not have the shape of a pack any more (the oracle below will say why)
        ck.count('crash-model-translation-failed')
        rank = {t[0]: i + 1 for i, t in enumerate(U)}
        lines, kmap = None, None
    queries = []
    img = os.path.join(ck.tmp, 'img')
    first_pack_write = min([i for i, e in enumerate(evs) if e[0] == 'write' and e[1] == 'Data.fs.pack'])
    during = any(e[0] == 'mark' for e in evs[first_pack_write:first])
    for (k, nb) in cuts:
        vfs.materialize(R['init'], evs, k, nb, img)
        D, problem = open_image(img, second_pack=(nb is None and (tier_thorough or k % 3 == 0)),
                                hexed=bool(P.get('hex')))
        verdict = crash_oracle(R, U, Pk, k, D, problem)
        nontriv = k > first_pack_write and during
        ck.case(dict(kind='crash', P=P, cut=[k, nb]), nontriv,
                sample=dict(kind='crash', P=P, cut=[k, nb], after=repr(evs[k - 1][:3]) if k else 'start',
                            reopened=[t[0].hex()[-6:] for t in (D or [])]) if nontriv else None)
        ck.count('crash-cut:' + ('byte' if nb is not None else 'boundary'))
        ck.count('crash-phase:' + ('before-swap' if k <= first else 'mid-swap' if k <= second else 'after-swap'))
        real = 'fail' if D is None else 'txns=%s created=%d' % (
            ','.join(str(rank.get(t[0], 0)) for t in D) or '-', 0 if D else 1)
        if verdict:
            ck.violation(crash_signature(R, k),
                         'pack crash image after %d events (%s)%s: %s' % (
                             k, repr(evs[k - 1][:3]) if k else 'start',
                             '' if nb is None else ' + %d bytes of the next write' % nb, verdict),
                         dict(kind='crash', P=P, cut=[k, nb]))
        elif lines is not None:
            queries.append((kmap[k], real, [k, nb]))
    if lines is not None:
        ck.model_jobs.append(dict(P=P, lines=lines, queries=queries))
    return len(cuts)


def check_disk_batch(ck):
    """[model] feed the event lists of ALL crash scenarios to ONE PackDisk driver process and compare its
    answer at every cut with what the real reopen gave (only cuts the direct oracle accepted)"""
    jobs = ck.model_jobs
    if not jobs:
        return
    allq = []
    for j in jobs:
        j['cuts'] = sorted(set(q[0] for q in j['queries']))
        allq += j['lines'] + ['open %d' % c for c in j['cuts']]
    out = run_driver('PackDisk', allq)
    pos = 0
    for j in jobs:
        o = out[pos + len(j['lines']):pos + len(j['lines']) + len(j['cuts'])]
        pos += len(j['lines']) + len(j['cuts'])
        ans = dict(zip(j['cuts'], o))
        ck.count('disk-model-scenarios')
        for mc, real, cut in j['queries']:
            if ans[mc] != real:
                ck.mismatch('PackDisk model and real reopen differ at cut %r: real %s model %s' % (
                    cut, real, ans[mc]), dict(kind='crash', P=j['P'], cut=cut))
                break


# ------------------------------------------------------------------------------------------------
# (c) failing pack
# ------------------------------------------------------------------------------------------------
def fault_run(P, tmp, fail_at, partial=0):
    """one pack with an injected OSError at the fail_at-th raw mutating operation.
    Returns (nops, observation dict)."""
    root = os.path.join(tmp, 'fault')
    if os.path.exists(root):
        shutil.rmtree(root)
    os.makedirs(root)
    path = os.path.join(root, 'Data.fs')
    rec = vfs.Recorder(root)
    o = dict(P=P, fail_at=fail_at)
    with clock.scripted() as clk, vfs.install(rec):
        fs, db, info = build_db(path, P, clk)
        t = pack_time(P, info, clk)
        U = txn_dump(fs)
        rec.events.clear()
        rec.nmut = 0
        if P.get('nolink'):
            no_hardlinks(rec)
        rec.fail_at, rec.fail_partial = fail_at, partial
        try:
            db.pack(t)
            o['pack'] = 'ok'
        except Exception as e:          # noqa: B902
            o['pack'] = 'raised:%s' % type(e).__name__
        rec.fail_at = None
        o['nops'] = rec.nmut
        fault = [e for e in rec.events if e[0] == 'fault']
        o['fault'] = list(fault[0][2:4]) if fault else None
        o['files'] = sorted(f for f in os.listdir(root))
        problems = []
        D = None
        try:
            D = txn_dump(fs)
        except Exception as e:          # noqa: B902
            problems.append(('unusable', 'iterating after the failed pack raised %s: %s' % (type(e).__name__, e)))
        if D is not None:
            o['state'] = 'U' if D == U else 'other'
            e = index_vs_log(fs, D)
            if e:
                problems.append(('unusable', 'index and log disagree: ' + e))
        # commit lock free? (a leaked lock would block forever: run in a thread with a timeout)
        box = {}

        def try_commit():
            tm = transaction.TransactionManager()
            try:
                c = db.open(tm)
                c.root()['afterfault'] = 1
                tm.commit()
                box['commit'] = 'ok'
                c.close()
            except Exception as e:      # noqa: B902
                box['commit'] = 'raised:%s:%s' % (type(e).__name__, e)
                try:
                    tm.abort()
                except Exception:       # noqa: B902
                    pass
        th = threading.Thread(target=try_commit, daemon=True)
        th.start()
        th.join(5)
        if th.is_alive():
            problems.append(('lock-held', 'a commit after the failed pack blocks (commit lock not released)'))
        elif box.get('commit') != 'ok':
            problems.append(('unusable', 'commit after the failed pack: %s' % box.get('commit')))
        if not th.is_alive():
            try:
                db.pack(time.time())
                o['pack2'] = 'ok'
            except FileStorageError as e:
                o['pack2'] = 'FileStorageError:%s' % e
                problems.append(('flag-kept' if 'Already' in str(e) else 'unusable',
                                 'the next pack raised %s' % e))
            except Exception as e:      # noqa: B902
                o['pack2'] = 'raised:%s' % type(e).__name__
                problems.append(('unusable', 'the next pack raised %s: %s' % (type(e).__name__, e)))
        o['problems'] = problems
        o['U'] = U
        o['D'] = D
        if not th.is_alive():
            try:
                db.close()
            except Exception:           # noqa: B902
                pass
    return o


def fault_oracle(o, Pref):
    """direct oracle of part (c): list of (symptom, text)"""
    pr = list(o['problems'])
    D, U = o['D'], o['U']
    if D is not None and D != U and (Pref is None or D != Pref):
        pr.append(('changed', 'after a pack that %s the database is neither unchanged nor the packed one '
                   '(%d transactions, had %d)' % ('raised' if o['pack'] != 'ok' else 'swallowed a failure',
                                                  len(D), len(U))))
    if o['pack'] != 'ok' and o['fault'] and o['fault'][0] in ('write', 'create') and \
            o['fault'][1] == 'Data.fs.pack' and 'Data.fs.pack' in o['files']:
        pr.append(('pack-file-left', 'a failing write to Data.fs.pack left the file behind'))
    return pr


def fault_signature(o, symptom):
    f = o['fault'] or ['none', 'none']
    if f[0] == 'rename' and f[1] == 'Data.fs.pack' and symptom in ('unusable', 'changed'):
        return 'C08:fault-between-renames'
    if f[0] == 'remove' and f[1] == 'Data.fs.old' and symptom == 'flag-kept':
        return 'C08:fault-remove-old-keeps-flag'
    return 'C08:fault-%s-%s:%s' % (f[0], str(f[1]).replace('Data.fs', '').strip('.') or 'data', symptom)


def run_fault_scenario(ck, P, only=None):
    base = fault_run(P, ck.tmp, None)
    if base['pack'] != 'ok' or base['problems']:
        ck.violation('C08:pack-without-fault-failed', 'a pack without injected fault: %r %r' % (
            base['pack'], base['problems']), dict(kind='fault', P=P, fail_at=None))
        return 0
    Pref = base['D']
    nops = base['nops']
    ks = [only] if only is not None else list(range(1, nops + 1))
    n = 0
    for k in ks:
        for partial in ((0,) if only is not None or k % 3 else (0, 7)):
            o = fault_run(P, ck.tmp, k, partial)
            n += 1
            pr = fault_oracle(o, Pref)
            nontriv = o['fault'] is not None and k > 2
            ck.case(dict(kind='fault', P=P, fail_at=k, partial=partial), nontriv,
                    sample=dict(kind='fault', P=P, fail_at=k, fault=o['fault'], pack=o['pack'],
                                state=o.get('state')) if nontriv else None)
            ck.count('fault-op:%s' % ('-'.join(str(x) for x in (o['fault'] or ['none']))))
            ck.count('fault-outcome:%s' % o['pack'])
            if pr:
                sym, text = pr[0]
                ck.violation(fault_signature(o, sym),
                             'OSError injected at raw operation %d (%s) of a pack: %s' % (k, o['fault'], text),
                             dict(kind='fault', P=P, fail_at=k, partial=partial))
    return n


# ------------------------------------------------------------------------------------------------
# (d) MappingStorage: the first sentence of the property is storage-generic
# ------------------------------------------------------------------------------------------------
def _mapping_setup(P, clk):
    from ZODB.MappingStorage import MappingStorage
    kind = P.get('kind', 'mapping')
    if kind == 'demo':
        from ZODB.DemoStorage import DemoStorage
        ms = DemoStorage()
    elif kind == 'mvccmapping':
        from ZODB.tests.MVCCMappingStorage import MVCCMappingStorage
        ms = MVCCMappingStorage()
    else:
        ms = MappingStorage()
    db = ZODB.DB(ms)
    c = db.open()
    r = c.root()
    for k in (1, 2):
        r['K%d' % k] = PersistentMapping(count=0)
    r['G'] = PersistentMapping(x=0)
    transaction.commit()
    for i in range(P.get('pre', 2)):
        r['G']['x'] = i + 1
        r['K1']['seed%d' % i] = PersistentMapping(v=i)
        r['K1']['count'] = i + 1
        transaction.commit()
    del r['G']
    transaction.commit()
    t_mid = clk.now + 0.5
    r['K2']['seed'] = PersistentMapping(v=0)
    r['K2']['count'] = 1
    transaction.commit()
    c.close()
    return ms, db, t_mid


def _mapping_verify(ms, db, returned, T, reader_out):
    """direct oracle: every returned commit is present, complete, and its new object loads"""
    pr = []
    txns = {}
    for t in ms.iterator():
        txns[t.tid] = set(r.oid for r in t)
    for tid, k, name, v, oid in returned:
        if tid not in txns:
            pr.append(('lost-commit', 'commit %s of committer %d returned but is not in the storage' % (tid.hex(), k)))
        elif oid not in txns[tid]:
            pr.append(('incomplete-transaction', 'transaction %s lost the record of the object it created (%s)'
                       % (tid.hex(), name)))
        try:
            if ms.loadBefore(oid, b'\xff' * 8) is None:
                raise POSKeyError(oid)
        except POSKeyError:
            pr.append(('lost-object', 'object %s created by a returned commit of committer %d does not load'
                       % (name, k)))
    c = db.open()
    try:
        r = c.root()
        for k in (1, 2):
            K = r['K%d' % k]
            names = [n for n in K.keys() if n != 'count']
            if K['count'] != len(names):
                pr.append(('wrong-data', 'container K%d counts %d, holds %d' % (k, K['count'], len(names))))
            for n in names:
                try:
                    K[n]['v']
                except POSKeyError:
                    pr.append(('lost-object', 'K%d[%r] is referenced but does not load (POSKeyError)' % (k, n)))
    finally:
        c.close()
    for bound, vals in reader_out:
        if isinstance(vals, str):
            older = T is not None and u64(bytes.fromhex(bound)) - 1 <= u64(T)
            if not (vals == 'raised:ReadConflictError' and older):
                pr.append(('reader-error:%s' % vals.split(':')[1], 'snapshot %s: %s' % (bound, vals)))
        elif not vals:
            pr.append(('reader-inconsistent', 'snapshot %s: a container count differs from its children' % bound))
    return pr


def run_mapping_sched(P, tmp, schedule=None):
    """1 packer (db.pack with gc) ∥ 1-2 committers creating NEW objects ∥ 1 reader on a MappingStorage under the
    scheduler; the reference-following callback of the gc sweep is an extra yield point"""
    obs = dict(P=P)
    note = Note()
    with clock.scripted() as clk, sched.installed():
        ms, db, t_mid = _mapping_setup(P, clk)
        real_refs = db.references

        def refs(p, oids=None):
            s = sched._current
            if s is not None:
                s.yield_point('gc', 'referencesf')
            return real_refs(p, oids)
        db.references = refs
        returned = []
        T = [None]

        def packer():
            t = t_mid if P.get('ptime') == 'mid' else clk.now + 0.5
            T[0] = packtid(t)
            note('attempt-start')
            try:
                db.pack(t)
                o = 'ok'
            except Exception as e:          # noqa: B902
                o = 'raised:%s:%s' % (type(e).__name__, e)
            note('attempt-end')
            return o

        def committer(k):
            def f():
                tm = transaction.TransactionManager()
                c = db.open(tm)
                out = []
                for i in range(P.get('commits', 3)):
                    name = 'n%d_%d' % (k, i)
                    try:
                        tm.begin()
                        K = c.root()['K%d' % k]
                        child = PersistentMapping(v=100 * k + i)
                        K[name] = child
                        K['count'] = K['count'] + 1
                        tm.commit()
                        returned.append((child._p_serial, k, name, 100 * k + i, child._p_oid))
                        note('commit-returned')
                        out.append('ok')
                    except ConflictError:
                        tm.abort()
                        out.append('conflict')
                    except Exception as e:      # noqa: B902
                        try:
                            tm.abort()
                        except Exception:       # noqa: B902
                            pass
                        out.append('raised:%s:%s' % (type(e).__name__, e))
                c.close()
                return out
            return f

        def reader():
            tm = transaction.TransactionManager()
            c = db.open(tm)
            out = []
            for i in range(P.get('reads', 3)):
                tm.begin()
                bound = getattr(c._storage, '_start', b'\xff' * 8)
                try:
                    ok = True
                    for k in (1, 2):
                        K = c.root()['K%d' % k]
                        names = [n for n in K.keys() if n != 'count']
                        for n in names:
                            K[n]['v']
                        ok = ok and K['count'] == len(names)
                    out.append((bound.hex(), ok))
                except Exception as e:          # noqa: B902
                    out.append((bound.hex(), 'raised:%s' % type(e).__name__))
                tm.abort()
                c.cacheMinimize()
            c.close()
            return out

        s = DirectedScheduler(seed=P['seed'], schedule=schedule, stickiness=P.get('stick', 0.5))
        note.s = s
        s.spawn('p', packer)
        for k in range(1, P.get('committers', 1) + 1):
            s.spawn('c%d' % k, committer(k))
        if P.get('reads', 3):
            s.spawn('r', reader)
        res = s.run(timeout=60)
        note.s = None
        obs.update(deadlock=bool(res['deadlock']), results=res['results'], steps=res['steps'],
                   decisions=res['decisions'])
        problems = []
        if res['errors']:
            problems.append(('thread-error', repr(res['errors'])))
        started = False
        obs['nontrivial'] = False
        for th, kind, label in res['events']:
            if th == 'p' and kind == 'note' and label == 'attempt-start':
                started = True
            elif started and kind == 'note' and label == 'commit-returned':
                obs['nontrivial'] = True
        if not res['deadlock']:
            for k in range(1, P.get('committers', 1) + 1):
                for o in (res['results'].get('c%d' % k) or ['missing']):
                    if o.startswith('raised') or o == 'missing':
                        problems.append(('commit-error:%s' % (o.split(':')[1] if ':' in o else o), o))
            if res['results'].get('p') != 'ok':
                problems.append(('pack-error', str(res['results'].get('p'))))
            try:
                problems += _mapping_verify(ms, db, returned, T[0], res['results'].get('r') or [])
            except Exception as e:          # noqa: B902
                problems.append(('verify-raised:%s' % type(e).__name__, repr(e)))
        db.close()
    obs['problems'] = problems
    return obs


def run_mapping_callback(P):
    """deterministic: a commit creating a new object is started from inside the reference-following callback of
    the gc sweep (helper thread, real locks).  On a storage that holds its lock for the whole pack the commit
    waits for the pack to end; either way it must be complete and loadable afterwards."""
    from ZODB.MappingStorage import MappingStorage      # noqa: F401
    with clock.scripted() as clk:
        ms, db, t_mid = _mapping_setup(P, clk)
        real_refs = db.references
        returned, box, helper = [], {}, []

        def commit_new():
            tm = transaction.TransactionManager()
            c = db.open(tm)
            try:
                K = c.root()['K1']
                child = PersistentMapping(v=777)
                K['during'] = child
                K['count'] = K['count'] + 1
                tm.commit()
                returned.append((child._p_serial, 1, 'during', 777, child._p_oid))
                box['commit'] = 'ok'
            except Exception as e:          # noqa: B902
                box['commit'] = 'raised:%s:%s' % (type(e).__name__, e)
                tm.abort()
            c.close()
        calls = [0]

        def refs(p, oids=None):
            calls[0] += 1
            if calls[0] == P.get('at', 2) and not helper:
                th = threading.Thread(target=commit_new, daemon=True)
                helper.append(th)
                th.start()
                th.join(0.3)
                box['finished_during_sweep'] = not th.is_alive()
            return real_refs(p, oids)
        db.references = refs
        t = t_mid if P.get('ptime') == 'mid' else clk.now + 0.5
        T = packtid(t)
        problems = []
        try:
            db.pack(t)
        except Exception as e:              # noqa: B902
            problems.append(('pack-error', '%s: %s' % (type(e).__name__, e)))
        for th in helper:
            th.join(10)
            if th.is_alive():
                problems.append(('lock-held', 'the commit started during the pack still blocks after it'))
        if not helper:
            problems.append(('callback-not-reached', 'the gc sweep made %d reference calls' % calls[0]))
        elif box.get('commit') != 'ok' and not problems:
            problems.append(('commit-error', str(box.get('commit'))))
        if not problems:
            problems += _mapping_verify(ms, db, returned, T, [])
        db.close()
    return dict(P=P, problems=problems, during=box.get('finished_during_sweep'))


def run_mapping_case(ck, case):
    P = case['P']
    if case.get('mode') == 'callback':
        o = run_mapping_callback(P)
        ck.case(dict(kind='mapping', mode='callback', P=P), True,
                sample=dict(kind='mapping', mode='callback', P=P, during=o['during']))
        ck.count('mapping-callback:commit-%s' % ('finished-during-sweep' if o['during'] else 'waited-for-pack'))
        if o['problems']:
            sym, text = o['problems'][0]
            ck.violation('C08:mapping:' + sym, 'commit started from the gc reference callback of '
                         'MappingStorage.pack: ' + text, dict(kind='mapping', mode='callback', P=P))
        return
    o = run_mapping_sched(P, ck.tmp, case.get('schedule'))
    ck.case(dict(kind='mapping', P=P), o['nontrivial'],
            sample=dict(kind='mapping', P=P, results=o['results']) if o['nontrivial'] else None)
    ck.count('mapping-sched-steps', o['steps'])
    for k, v in (o['results'] or {}).items():
        if k.startswith('c') and v:
            for x in v:
                ck.count('mapping-commit:%s' % x.split(':')[0])
    if o['deadlock']:
        ck.violation('C08:mapping:deadlock', 'deadlock while packing a MappingStorage',
                     dict(kind='mapping', P=P, schedule=o['decisions']))
    elif o['problems']:
        sym, text = o['problems'][0]
        ck.violation('C08:mapping:' + sym, 'MappingStorage pack under concurrent commits: ' + text,
                     dict(kind='mapping', P=P, schedule=o['decisions'], all_problems=o['problems'][:5]))


def gen_mapping_params(rng, i):
    return dict(seed=rng.randrange(10 ** 9), stick=rng.choice([0.0, 0.3, 0.6, 0.9]), committers=rng.choice([1, 2]),
                commits=rng.choice([2, 3, 4]), reads=rng.choice([0, 3]), ptime=rng.choice(['mid', 'now']),
                pre=rng.choice([1, 2, 3]), kind=['mapping', 'demo', 'mapping', 'mvccmapping'][i % 4])


# ------------------------------------------------------------------------------------------------
# (e) blobs: commits of NEW blob objects while the pack removes blob files and emptied directories
# ------------------------------------------------------------------------------------------------
def policy_blob_dir_race(crole):
    """directed: the packer swaps and releases the commit lock (it is about to clean the blob directory);
    committer c1 runs up to the mkdir of its new object's blob directory; the packer runs to its end; rest
    random"""
    seen = dict(swap=False)

    def swapped_and_released(th, kind, label):
        if th == 'p' and kind == 'io' and label == 'rename Data.fs.pack':
            seen['swap'] = True
        return seen['swap'] and th == 'p' and kind == 'release' and label == crole
    return staged_policy([
        ('p', swapped_and_released, None),
        ('c1', lambda th, kind, label: th == 'c1' and kind == 'io' and label.startswith('mkdir blobs/0x'), None),
        ('p', lambda th, kind, label: th == 'p' and kind == 'note' and label == 'attempt-end', None),
    ])


def open_blob_storage(root, P):
    """FileStorage with blobs along one construction path: constructor / ZODB.config, layout bushy / lawn,
    pack_keep_old, pack_gc; or a BlobStorage wrapper around a plain FileStorage"""
    path, bdir = os.path.join(root, 'Data.fs'), os.path.join(root, 'blobs')
    keep, gc = P.get('keep_old', True), P.get('pack_gc', True)
    if P.get('layout') == 'lawn' and not os.path.exists(bdir):
        os.makedirs(bdir)
        with _real_open(os.path.join(bdir, '.layout'), 'w') as f:
            f.write('lawn')
    if P.get('ctor') == 'config':
        from ZODB.config import databaseFromString
        db = databaseFromString(
            '<zodb>\n<filestorage>\npath %s\nblob-dir %s\npack-keep-old %s\npack-gc %s\n</filestorage>\n</zodb>\n'
            % (path, bdir, 'true' if keep else 'false', 'true' if gc else 'false'))
        return db.storage, db
    if P.get('ctor') == 'blobstorage':
        from ZODB.blob import BlobStorage
        fs = FileStorage(path, pack_keep_old=keep, pack_gc=gc)
        return fs, ZODB.DB(BlobStorage(bdir, fs))
    fs = FileStorage(path, blob_dir=bdir, pack_keep_old=keep, pack_gc=gc)
    return fs, ZODB.DB(fs)


def blob_data(k, i):
    if (k, i) == (2, 1):
        return b''                  # a zero-length blob
    return ('blob %d.%d ' % (k, i)).encode() * 5


def run_blob_sched(P, tmp, schedule=None):
    """FileStorage with a blob directory: 1 packer ∥ 1-2 committers storing blobs for NEW objects (and rewriting
    an existing blob) ∥ 1 reader, yield points at every lock operation and raw file-system call (mkdir, rmdir,
    rename, remove, link, writes)"""
    from ZODB.blob import Blob
    root = os.path.join(tmp, 'blob')
    if os.path.exists(root):
        shutil.rmtree(root)
    os.makedirs(root)
    path = os.path.join(root, 'Data.fs')
    rec = vfs.Recorder(root)
    note = Note()
    obs = dict(P=P)
    with clock.scripted() as clk, sched.installed(), vfs.install(rec):
        fs, db = open_blob_storage(root, P)
        c = db.open()
        r = c.root()
        for k in (1, 2):
            r['K%d' % k] = PersistentMapping()
        r['old'] = Blob(b'old blob, garbage at the pack time')
        transaction.commit()
        if P.get('keeper'):             # a second blob object that stays: parents never become empty
            r['keeper'] = Blob(b'kept blob')
            transaction.commit()
        with r['old'].open('w') as f:
            f.write(b'old blob, second revision')
        transaction.commit()
        del r['old']
        transaction.commit()
        t = clk.now + 0.5
        T = packtid(t)
        r['K1']['post'] = 1
        transaction.commit()
        c.close()
        returned = []

        def packer():
            note('attempt-start')
            try:
                db.pack(t)
                o = 'ok'
            except Exception as e:          # noqa: B902
                o = 'raised:%s:%s' % (type(e).__name__, e)
            note('attempt-end')
            return o

        def committer(k):
            def f():
                tm = transaction.TransactionManager()
                c = db.open(tm)
                out = []
                for i in range(P.get('commits', 2)):
                    name = 'b%d_%d' % (k, i)
                    try:
                        tm.begin()
                        K = c.root()['K%d' % k]
                        if i and P.get('rewrite') and i % 2:
                            name = 'b%d_%d' % (k, i - 1)
                            with K[name].open('w') as f:
                                f.write(blob_data(k, i))
                        else:
                            K[name] = Blob(blob_data(k, i))
                        tm.commit()
                        K[name]._p_activate()       # (a committed blob is a ghost until touched)
                        returned.append((K[name]._p_serial, k, name, blob_data(k, i)))
                        try:                        # storage-level reader of the blob just committed
                            with _real_open(db.storage.loadBlob(K[name]._p_oid, K[name]._p_serial), 'rb') as bf:
                                if bf.read() != blob_data(k, i):
                                    out.append('raised:loadBlob:wrong-data')
                        except Exception as e:      # noqa: B902
                            out.append('raised:loadBlob-%s:%s' % (type(e).__name__, e))
                        note('commit-returned')
                        out.append('ok')
                    except ConflictError:
                        tm.abort()
                        out.append('conflict')
                    except Exception as e:      # noqa: B902
                        try:
                            tm.abort()
                        except Exception:       # noqa: B902
                            pass
                        out.append('raised:%s:%s' % (type(e).__name__, e))
                c.close()
                return out
            return f

        def reader():
            tm = transaction.TransactionManager()
            c = db.open(tm)
            out = []
            for i in range(P.get('reads', 3)):
                tm.begin()
                try:
                    ok = True
                    for k in (1, 2):
                        K = c.root()['K%d' % k]
                        for n in [n for n in K.keys() if n.startswith('b')]:
                            with K[n].open('r') as f:
                                d = f.read()
                            ok = ok and (d == b'' or d.startswith(('blob %s.' % n[1]).encode()))
                    out.append(ok)
                except Exception as e:          # noqa: B902
                    out.append('raised:%s' % type(e).__name__)
                tm.abort()
                c.cacheMinimize()
            c.close()
            return out

        def second_packer():
            outs = []
            for a in range(int(P.get('second', 0))):
                note('q-attempt-start')
                try:
                    db.pack(t)
                    o = 'ok'
                except FileStorageError as e:
                    o = 'refused' if 'Already packing' in str(e) else 'raised:FileStorageError:%s' % e
                except Exception as e:          # noqa: B902
                    o = 'raised:%s:%s' % (type(e).__name__, e)
                note('q-attempt-end ' + o.split(':')[0])
                outs.append(o)
            note('attempts-done')
            return outs

        rec.events.clear()
        policy = None
        if P.get('directed') == 1:
            policy = policy_blob_dir_race(fs._commit_lock.role)
        elif P.get('directed') == 2:
            # the first pack is stopped inside its blob phase (after the swap, at its first file-system call
            # below the blob directory or its .old sibling); the second packer makes all its attempts then
            seen = dict(swap=False)

            def in_blob_phase(th, kind, label):
                if th == 'p' and kind == 'io' and label == 'rename Data.fs.pack':
                    seen['swap'] = True
                return seen['swap'] and th == 'p' and kind == 'io' and ' blobs' in label
            policy = staged_policy([
                ('p', in_blob_phase, None),
                ('q', lambda th, kind, label: th == 'q' and kind == 'note' and label == 'attempts-done', None)])
        s = DirectedScheduler(seed=P['seed'], schedule=schedule, stickiness=P.get('stick', 0.5), policy=policy)
        note.s = s
        hook_vfs(rec, note)
        s.spawn('p', packer)
        for k in range(1, P.get('committers', 1) + 1):
            s.spawn('c%d' % k, committer(k))
        if P.get('reads', 3):
            s.spawn('r', reader)
        if P.get('second'):
            s.spawn('q', second_packer)
        res = s.run(timeout=60)
        rec.on_event = None
        note.s = None
        obs.update(deadlock=bool(res['deadlock']), results=res['results'], steps=res['steps'],
                   decisions=res['decisions'])
        pr = []
        if res['errors']:
            pr.append(('thread-error', repr(res['errors'])))
        started, ended = False, False
        obs['nontrivial'] = False
        for th, kind, label in res['events']:
            if th == 'p' and kind == 'note':
                started, ended = started or label == 'attempt-start', ended or label == 'attempt-end'
            elif started and not ended and kind == 'note' and label == 'commit-returned':
                obs['nontrivial'] = True
        if not res['deadlock']:
            for k in range(1, P.get('committers', 1) + 1):
                for o in (res['results'].get('c%d' % k) or ['missing']):
                    if o.startswith('raised') or o == 'missing':
                        pr.append(('commit-error:%s' % (o.split(':')[1] if ':' in o else o),
                                   'the commit of a blob failed while a pack was running: ' + o))
            pres = res['results'].get('p')
            if pres != 'ok' and not (P.get('second') and pres == 'raised:FileStorageError:Already packing' and
                                     'ok' in (res['results'].get('q') or [])):
                # (with a second packer thread the first one may be the one that is refused)
                pr.append(('pack-error:%s' % str(pres).split(':')[1 if pres else 0], str(pres)))
            # a pack attempt made entirely while the first pack is between creating Data.fs.pack and its last
            # file-system call in the blob phase (flag certainly set) must be refused
            evs = res['events']
            w0 = [i for i, e in enumerate(evs) if e[0] == 'p' and e[1] == 'io' and e[2] == 'create Data.fs.pack']
            w1 = [i for i, e in enumerate(evs) if e[0] == 'p' and e[1] == 'io' and ' blobs' in e[2]]
            a0 = None
            for i, (th, kind, label) in enumerate(evs):
                if th == 'q' and kind == 'note' and label == 'q-attempt-start':
                    a0 = i
                elif th == 'q' and kind == 'note' and label.startswith('q-attempt-end') and a0 is not None:
                    if w0 and w1 and w0[0] < a0 and i < w1[-1] and label != 'q-attempt-end refused':
                        pr.append(('pack-admitted-during-pack', 'a second pack() arriving while the first pack was '
                                   'still running (blob phase included) ended %r instead of being refused'
                                   % label[14:]))
                    a0 = None
            for o in (res['results'].get('q') or []):
                if o.startswith('raised'):
                    pr.append(('pack-error:%s' % o.split(':')[1], 'second packer: ' + o))
            for o in (res['results'].get('r') or []):
                if o is not True:
                    pr.append(('reader-error:%s' % (o.split(':')[1] if isinstance(o, str) else 'wrong-data'),
                               'a reader of committed blobs got %r' % (o,)))
            try:
                pr += _blob_verify(fs, db, returned)
                if P.get('ctor') != 'blobstorage' and not pr:
                    pr += blob_files_vs_records(fs, os.path.join(root, 'blobs'))
                db.close()
                fs2, db2 = open_blob_storage(root, P)
                try:
                    pr += [('reopen-' + a, b) for a, b in _blob_verify(fs2, db2, returned)]
                finally:
                    db2.close()
            except Exception as e:          # noqa: B902
                pr.append(('verify-raised:%s' % type(e).__name__, repr(e)))
        try:
            db.close()
        except Exception:                   # noqa: B902
            pass
    obs['problems'] = pr
    return obs


def blob_files_vs_records(fs, bdir):
    """after all packs returned: the blob directory holds exactly the files of the blob revisions in Data.fs"""
    pr = []
    recs = set()
    for t in fs.iterator():
        for x in t:
            if x.data and fs.is_blob_record(x.data):
                recs.add((x.oid, x.tid))
    files = set()
    for dp, dns, fns in os.walk(bdir):
        if os.path.basename(dp) == 'tmp':
            dns[:] = []
            continue
        for fn in fns:
            if fn.endswith('.blob'):
                try:
                    files.add((fs.fshelper.getOIDForPath(dp), fs.fshelper.splitBlobFilename(os.path.join(dp, fn))[1]))
                except Exception:           # noqa: B902
                    files.add((dp, fn))
    for oid, tid in sorted(recs - files):
        pr.append(('blob-file-removed', 'the blob file of revision %s of object %s, still in Data.fs, is gone'
                   % (tid.hex()[-6:], oid.hex()[-4:])))
    for x in sorted(files - recs, key=repr):
        pr.append(('garbage-blob-file-left', 'after the pack(s) returned the blob directory still holds the file of '
                   'a packed-away revision: %r' % (tuple(y.hex()[-6:] if isinstance(y, bytes) else y for y in x),)))
    return pr


def _blob_verify(fs, db, returned):
    """every returned blob commit is stored and its blob file reads back"""
    pr = []
    tids = set(t.tid for t in fs.iterator())
    last = {}
    for tid, k, name, data in returned:
        if tid not in tids:
            pr.append(('lost-commit', 'blob commit %s of committer %d returned but is not stored' % (tid.hex(), k)))
        last[(k, name)] = data
    c = db.open()
    try:
        for (k, name), data in sorted(last.items()):
            try:
                with c.root()['K%d' % k][name].open('r') as f:
                    got = f.read()
                if got != data:
                    pr.append(('wrong-data', 'blob %s reads %r' % (name, got[:30])))
            except Exception as e:          # noqa: B902
                pr.append(('lost-blob', 'blob %s committed by committer %d cannot be read: %s: %s'
                           % (name, k, type(e).__name__, e)))
    finally:
        c.close()
    return pr


def run_blob_case(ck, case):
    P = case['P']
    o = run_blob_sched(P, ck.tmp, case.get('schedule'))
    ck.case(dict(kind='blob', P=P), o['nontrivial'],
            sample=dict(kind='blob', P=P, results=o['results']) if o['nontrivial'] else None)
    ck.count('blob-sched-steps', o['steps'])
    for k, v in (o['results'] or {}).items():
        if k.startswith('c') and v:
            for x in v:
                ck.count('blob-commit:%s' % x.split(':')[0])
    if o['deadlock']:
        ck.violation('C08:blob:deadlock', 'deadlock while packing a FileStorage with blobs',
                     dict(kind='blob', P=P, schedule=o['decisions']))
    elif o['problems']:
        sym, text = o['problems'][0]
        sig = 'C08:blob:' + sym
        if P.get('ctor') == 'blobstorage' and ('POSKeyError' in sym or 'lost-blob' in sym) and 'No blob file' in str(
                o['problems']):
            sig = 'C08:blobstorage-pack-removes-inflight-blob'
        ck.violation(sig, 'pack of a FileStorage with blobs under concurrent blob commits: ' + text,
                     dict(kind='blob', P=P, schedule=o['decisions'], all_problems=o['problems'][:5]))


def gen_blob_params(rng, i):
    P = _gen_blob_params(rng, i)
    if P['second']:
        P['directed'] = 2 if i % 2 else 0   # second pack() arriving inside the first pack's blob phase / random
    return P


def _gen_blob_params(rng, i):
    return dict(seed=rng.randrange(10 ** 9), stick=rng.choice([0.0, 0.3, 0.6, 0.9]), committers=rng.choice([1, 2]),
                commits=rng.choice([1, 2, 3]), reads=rng.choice([0, 2]), keep_old=rng.choice([True, False]),
                keeper=int(i % 4 == 3), rewrite=rng.choice([0, 1]), directed=int(i % 2 == 0),
                layout=['bushy', 'lawn'][i % 3 == 1], ctor=['direct', 'config', 'direct', 'blobstorage'][i % 4],
                pack_gc=bool(i % 5 != 4), second=[0, 2, 0, 0, 1][i % 5] if i % 4 != 3 else 0)
    


# ------------------------------------------------------------------------------------------------
# (f) connections opened BEFORE a pack keep working after it (storage-generic; natively-MVCC storages)
# ------------------------------------------------------------------------------------------------
def run_prepack_connection(P):
    """deterministic: connection c1 is opened before DB.pack() and stays open; after the pack it commits NEW
    objects; a connection created after the pack (c1 still open) must load them; so must the storage itself"""
    kind = P.get('kind', 'mvccmapping')
    tmp = None
    with clock.scripted() as clk:
        if kind == 'mvccmapping':
            from ZODB.tests.MVCCMappingStorage import MVCCMappingStorage
            st = MVCCMappingStorage()
        elif kind == 'mapping':
            from ZODB.MappingStorage import MappingStorage
            st = MappingStorage()
        else:
            import tempfile
            tmp = tempfile.mkdtemp(prefix='c08f-', dir=P.get('tmp'))
            st = FileStorage(os.path.join(tmp, 'Data.fs'))
        db = ZODB.DB(st)
        problems = []
        try:
            tm0 = transaction.TransactionManager()
            c0 = db.open(tm0)
            r = c0.root()
            r['K'] = PersistentMapping(count=0)
            r['G'] = PersistentMapping(x=0)
            tm0.commit()
            for i in range(P.get('pre', 2)):
                r['G']['x'] = i + 1
                r['K']['s%d' % i] = PersistentMapping(v=i)
                tm0.commit()
            del r['G']
            tm0.commit()
            tm1 = transaction.TransactionManager()
            c1 = db.open(tm1)               # opened before the pack, stays open
            c1.root()['K']['count']
            t = clk.now + 0.5
            r['K']['count'] = 1
            tm0.commit()
            if P.get('close_first'):
                c0.close()
            db.pack(t)
            created = []
            for i in range(P.get('after', 2)):
                tm1.begin()
                K = c1.root()['K']
                child = PersistentMapping(v=500 + i)
                K['after%d' % i] = child
                tm1.commit()
                created.append(('after%d' % i, 500 + i, child._p_oid))
            tm2 = transaction.TransactionManager()
            c2 = db.open(tm2)               # created after the pack, while c1 is still open
            for name, v, oid in created:
                try:
                    if c2.root()['K'][name]['v'] != v:
                        problems.append(('wrong-data', 'K[%r] has the wrong value in a new connection' % name))
                except POSKeyError:
                    problems.append(('lost-object', 'object %s committed after the pack through a connection opened '
                                     'before it does not load in a new connection (POSKeyError)' % name))
                base = getattr(db.storage, '_storage', db.storage)
                try:
                    if base.loadBefore(oid, b'\xff' * 8) is None:
                        raise POSKeyError(oid)
                except POSKeyError:
                    problems.append(('lost-object', 'the storage does not hold object %s committed after the pack'
                                     % name))
            c2.close()
            c1.close()
        except Exception as e:              # noqa: B902
            problems.append(('escaped:%s' % type(e).__name__, repr(e)))
        finally:
            try:
                db.close()
            except Exception:               # noqa: B902
                pass
            if tmp:
                shutil.rmtree(tmp, ignore_errors=True)
    return problems


def run_prepack_case(ck, case):
    P = dict(case['P'], tmp=ck.tmp)
    pr = run_prepack_connection(P)
    ck.case(dict(kind='prepack', P=case['P']), True, sample=dict(kind='prepack', P=case['P']))
    ck.count('prepack-connection:%s' % case['P'].get('kind'))
    if pr:
        ck.violation('C08:prepack-connection:%s:%s' % (case['P'].get('kind'), pr[0][0]),
                     'a connection opened before DB.pack() committed new objects after it: ' + pr[0][1], case)


# ------------------------------------------------------------------------------------------------
# (c') failing pack of a storage WITH blobs, then a later pack that tags nothing
# ------------------------------------------------------------------------------------------------
def blob_fault_run(P, tmp, fail_at):
    from ZODB.blob import Blob
    root = os.path.join(tmp, 'bfault')
    if os.path.exists(root):
        shutil.rmtree(root)
    os.makedirs(root)
    path = os.path.join(root, 'Data.fs')
    rec = vfs.Recorder(root)
    o = dict(fail_at=fail_at, problems=[])
    with clock.scripted() as clk, vfs.install(rec):
        fs, db = open_blob_storage(root, P)
        c = db.open()
        r = c.root()
        r['x'] = PersistentMapping(v=0)
        r['B'] = Blob(b'blob revision 1')
        transaction.commit()
        r['x']['v'] = 1
        transaction.commit()
        t0 = clk.now + 0.5                  # B's first revision is current here; x has a superseded one
        with r['B'].open('w') as f:
            f.write(b'blob revision 2')
        r['x']['v'] = 2
        transaction.commit()
        t1 = clk.now + 0.5                  # B's first revision is superseded here: a pack tags its file
        if P.get('garbage'):
            r['G'] = Blob(b'garbage blob')
            transaction.commit()
            del r['G']
            transaction.commit()
            t1 = clk.now + 0.5
        r['x']['v'] = 3
        transaction.commit()
        rec.events.clear()
        rec.nmut = 0
        rec.fail_at = fail_at
        try:
            db.pack(t1)
            o['pack'] = 'ok'
        except Exception as e:              # noqa: B902
            o['pack'] = 'raised:%s' % type(e).__name__
        rec.fail_at = None
        o['nops'] = rec.nmut
        fault = [e for e in rec.events if e[0] == 'fault']
        o['fault'] = list(fault[0][2:4]) if fault else None
        try:
            # a later pack to an EARLIER time: it frees x's first revision but tags no blob revision itself
            try:
                db.pack(t0)
                o['pack2'] = 'ok'
            except Exception as e:          # noqa: B902
                o['pack2'] = 'raised:%s' % type(e).__name__
                o['problems'].append(('unusable', 'a pack after the failed pack raised %s: %s' % (type(e).__name__, e)))
            # every blob record still in Data.fs has its file; the current blob reads
            for t in fs.iterator():
                for x in t:
                    if x.data and fs.is_blob_record(x.data):
                        try:
                            fs.loadBlob(x.oid, x.tid)
                        except POSKeyError:
                            o['problems'].append(('blob-file-removed', 'the blob file of revision %s of object %s, '
                                                  'still in Data.fs, is gone' % (x.tid.hex()[-6:], x.oid.hex()[-4:])))
            c.sync()
            with c.root()['B'].open('r') as f:
                if f.read() != b'blob revision 2':
                    o['problems'].append(('wrong-data', 'the current blob has wrong data'))
            c.root()['x']['v'] = 4
            transaction.commit()
        except Exception as e:              # noqa: B902
            transaction.abort()
            o['problems'].append(('unusable', 'after the failed pack: %s: %s' % (type(e).__name__, e)))
        try:
            db.close()
        except Exception:                   # noqa: B902
            pass
    return o


def run_blob_fault_scenario(ck, P, only=None):
    base = blob_fault_run(P, ck.tmp, None)
    if base['pack'] != 'ok' or base['problems']:
        ck.violation('C08:blob-pack-without-fault-failed', 'packs of a blob storage without injected fault: %r %r'
                     % (base['pack'], base['problems']), dict(kind='blobfault', P=P, fail_at=None))
        return
    for k in ([only] if only is not None else range(1, base['nops'] + 1)):
        o = blob_fault_run(P, ck.tmp, k)
        nontriv = o['fault'] is not None and o['pack'] != 'ok'
        ck.case(dict(kind='blobfault', P=P, fail_at=k), nontriv,
                sample=dict(kind='blobfault', P=P, fail_at=k, fault=o['fault'], pack=o['pack']) if nontriv else None)
        f = o['fault'] or ['none', 'none']
        cat = ('blobs.old' if str(f[1]).startswith('blobs.old') else '.removed' if str(f[1]).endswith('.removed')
               else 'blobs' if str(f[1]).startswith('blobs') else str(f[1]).replace('Data.fs', 'data'))
        ck.count('blobfault-op:%s-%s' % (f[0], cat))
        ck.count('blobfault-outcome:%s' % o['pack'])
        if o['problems']:
            sym, text = o['problems'][0]
            ck.violation('C08:blobfault-%s-%s:%s' % (f[0], cat, sym),
                         'OSError injected at raw operation %d (%s) of a pack of a storage with blobs, then a pack to '
                         'an earlier time: %s' % (k, o['fault'], text), dict(kind='blobfault', P=P, fail_at=k))


# ------------------------------------------------------------------------------------------------
# (g) close() of the storage while a pack runs
# ------------------------------------------------------------------------------------------------
def run_close_case(P, tmp, schedule=None):
    """packer ∥ committer ∥ a thread that closes the DB at a schedule-chosen moment.  Whatever the pack and
    the later commits answer, the files left behind must reopen to a database holding every commit that
    returned (after the pack time), with index and log agreeing, and accept a commit and a pack."""
    _install_read_hooks()
    root = os.path.join(tmp, 'close')
    if os.path.exists(root):
        shutil.rmtree(root)
    os.makedirs(root)
    path = os.path.join(root, 'Data.fs')
    rec = vfs.Recorder(root)
    note = Note()
    obs = dict(P=P)
    with clock.scripted() as clk, sched.installed(), vfs.install(rec):
        fs, db, info = build_db(path, P, clk)
        t = pack_time(P, info, clk)
        T = packtid(t)
        returned = []

        def packer():
            try:
                db.pack(t)
                return 'ok'
            except Exception as e:          # noqa: B902
                return 'raised:%s' % type(e).__name__

        def committer():
            tm = transaction.TransactionManager()
            out = []
            try:
                c = db.open(tm)
            except Exception as e:          # noqa: B902
                return ['raised:%s' % type(e).__name__]
            for i in range(P.get('commits', 3)):
                try:
                    tm.begin()
                    r = c.root()
                    r['A1']['v'] = r['B1']['v'] = 3000 + i
                    r['C1']['n'] = i + 1
                    tm.commit()
                    returned.append((r['C1']._p_serial, i + 1))
                    out.append('ok')
                except Exception as e:      # noqa: B902
                    out.append('raised:%s' % type(e).__name__)
                    try:
                        tm.abort()
                    except Exception:       # noqa: B902
                        pass
            return out

        def closer():
            s = sched._current
            for i in range(P.get('delay', 10)):
                if s is not None:
                    s.yield_point('hook', 'wait')
            try:
                db.close()
                return 'closed'
            except Exception as e:          # noqa: B902
                return 'raised:%s' % type(e).__name__

        rec.events.clear()
        s = DirectedScheduler(seed=P['seed'], schedule=schedule, stickiness=P.get('stick', 0.5))
        note.s = s
        hook_vfs(rec, note)
        s.spawn('p', packer)
        s.spawn('c1', committer)
        s.spawn('z', closer)
        res = s.run(timeout=5)      # (threads may block for real on a closed storage: not judged)
        rec.on_event = None
        note.s = None
        obs.update(deadlock=bool(res['deadlock']), results=res['results'], steps=res['steps'],
                   decisions=res['decisions'])
        pr = []
        # closing a storage that other threads are using has no contract of its own: threads may raise or
        # block (counted in evidence, not judged).  Judged: what is left on disk.
        obs['thread_errors'] = len(res['errors'])
        try:
            db.close()
        except Exception:                   # noqa: B902
            pass
    if True:
        try:
            clean_side_files(path)
            if not os.path.exists(path):
                pr.append(('no-data-file', 'after pack ∥ close there is no Data.fs (%s)' % sorted(os.listdir(root))))
            else:
                f2 = FileStorage(path)
                try:
                    d = txn_dump(f2)
                    tids = [x[0] for x in d]
                    for tid, n in returned:
                        if tid > T and tid not in tids:
                            pr.append(('lost-commit', 'commit %s returned before / while the storage was closed '
                                       'during a pack and is not in the reopened database' % tid.hex()[-6:]))
                    e = index_vs_log(f2, d)
                    if e:
                        pr.append(('index-inconsistent', 'reopened after pack ∥ close: ' + e))
                    db2 = ZODB.DB(f2)
                    c = db2.open()
                    c.root()['reopened'] = 1
                    transaction.commit()
                    c.close()
                    db2.pack(time.time())
                    e = index_vs_log(f2, txn_dump(f2))
                    if e:
                        pr.append(('index-inconsistent', 'after a pack of the reopened database: ' + e))
                finally:
                    f2.close()
        except Exception as e:              # noqa: B902
            transaction.abort()
            pr.append(('reopen-raised:%s' % type(e).__name__, 'reopening after pack ∥ close: %r' % (e,)))
    obs['problems'] = pr
    return obs


def run_close_family(ck, case):
    P = case['P']
    o = run_close_case(P, ck.tmp, case.get('schedule'))
    res = o['results'] or {}
    ck.case(dict(kind='close', P=P), res.get('p') != 'ok',
            sample=dict(kind='close', P=P, results=res) if res.get('p') != 'ok' else None)
    ck.count('close-pack-outcome:%s' % res.get('p'))
    if o['deadlock']:
        ck.count('close-threads-blocked-after-close')
    if o['problems']:
        sym, text = o['problems'][0]
        ck.violation('C08:close:' + sym, text, dict(kind='close', P=P, schedule=o['decisions'],
                                                    all_problems=o['problems'][:5]))


def gen_close_params(rng, i):
    return dict(seed=rng.randrange(10 ** 9), stick=rng.choice([0.3, 0.6, 0.9]), commits=rng.choice([2, 3]),
                delay=rng.choice([3, 10, 25, 40, 60, 90, 120]), keep_old=bool(i % 2), ptime='mid',
                pre=rng.choice([1, 2]), post=rng.choice([1, 2]))


# ------------------------------------------------------------------------------------------------
# (h) a reader whose snapshot is older than the pack time, after the pack COMPLETED (deterministic)
# ------------------------------------------------------------------------------------------------
def run_old_snapshot_reader(P, tmp):
    """connection c1 begins and holds object B only as a ghost; another connection commits newer revisions
    of B; db.pack(now) completes (B's revision of c1's snapshot is packed away); then c1 loads the ghost:
    a retryable ReadConflictError (or a correct read of its snapshot) — never another error"""
    kind = P.get('kind', 'file')
    d = None
    problems = []
    with clock.scripted() as clk:
        if kind == 'mapping':
            from ZODB.MappingStorage import MappingStorage
            db = ZODB.DB(MappingStorage())
        else:
            import tempfile
            d = tempfile.mkdtemp(prefix='c08h-', dir=tmp)
            fs, db = open_storage(os.path.join(d, 'Data.fs'), P)
        try:
            tm0 = transaction.TransactionManager()
            c0 = db.open(tm0)
            r = c0.root()
            r['A'], r['B'] = mk_pair(1, 1), mk_pair(1, 1)
            tm0.commit()
            tm1 = transaction.TransactionManager()
            c1 = db.open(tm1)
            tm1.begin()
            a = c1.root()['A']['v']             # loads root and A; B stays a ghost in c1
            ghost = c1.root()['B']
            for i in range(P.get('newer', 2)):
                r['B']['v'] = 10 + i
                r['B']['seq'] = 10 + i
                tm0.commit()
            if P.get('close_writer'):
                c0.close()
            db.pack(clk.now + 0.5)              # completes; B's first revision is superseded at the pack time
            try:
                got = (ghost['v'], ghost['seq'])
                if got != (1, 1) or a != 1:
                    problems.append(('wrong-data', 'a snapshot older than the pack time read B = %r (its snapshot '
                                     'holds (1, 1))' % (got,)))
                outcome = 'read'
            except ReadConflictError:
                outcome = 'ReadConflictError'
            except Exception as e:              # noqa: B902
                outcome = type(e).__name__
                problems.append(('reader-error:%s' % type(e).__name__, 'a reader whose snapshot is older than the '
                                 'pack time loaded a ghost after the pack completed and got %s instead of a '
                                 'retryable ReadConflictError: %s' % (type(e).__name__, e)))
            tm1.abort()
            tm1.begin()                         # the retry sees the current state
            try:
                if c1.root()['B']['v'] != 10 + P.get('newer', 2) - 1:
                    problems.append(('wrong-data', 'the retry after the conflict does not see the newest revision'))
            except Exception as e:              # noqa: B902
                problems.append(('retry-error:%s' % type(e).__name__, 'the retried transaction raised %r' % (e,)))
            tm1.abort()
            c1.close()
        except Exception as e:                  # noqa: B902
            outcome = 'escaped'
            problems.append(('escaped:%s' % type(e).__name__, repr(e)))
        finally:
            try:
                db.close()
            except Exception:                   # noqa: B902
                pass
            if d:
                shutil.rmtree(d, ignore_errors=True)
    return outcome, problems


def run_old_snapshot_case(ck, case):
    outcome, pr = run_old_snapshot_reader(case['P'], ck.tmp)
    ck.case(dict(kind='oldsnapshot', P=case['P']), True, sample=dict(kind='oldsnapshot', P=case['P'], outcome=outcome))
    ck.count('old-snapshot-reader:%s' % outcome)
    if pr:
        ck.violation('C08:old-snapshot-reader:%s' % pr[0][0], pr[0][1], case)


# ------------------------------------------------------------------------------------------------
# generators
# ------------------------------------------------------------------------------------------------
def gen_sched_params(rng, i):
    P = _gen_sched_params(rng, i)
    if i % 5 == 4:          # directed: a commit is voted while the packer copies, finished before it returns
        P.update(directed=1, ptime='mid', post=rng.choice([1, 2]), pad=rng.choice([3000, 9000, 9000]),
                 second=0)
    elif i % 10 == 3:       # directed: the pack fails (ENOSPC on .pack) while it has handed the commit lock to
        #                     a committer in flight; a second committer then wants to begin
        P.update(directed=2, ptime='mid', post=rng.choice([1, 2, 3]), committers=2, second=0, undo=0,
                 commits=rng.choice([2, 3]))
    elif i % 10 == 8:       # directed: three further pack attempts while the first pack is in progress
        P.update(directed=3, second=3)
    elif P.get('second') and i % 2:
        P['second'] = 3     # several attempts by the second packer thread, random schedule
    # generalisation pass: construction paths, wrappers, extra reader / committer kinds, hook yield points
    P.update(pack_gc=rng.choice([True, True, False]), ctor=rng.choice(['direct', 'direct', 'config']),
             hooks=rng.choice([0, 1]), hist=rng.choice([0, 1]))
    if P['ctor'] == 'direct':
        P['hex'] = rng.choice([0, 0, 1])
    if i % 3 == 1:
        P['api'] = rng.choice([1, 2])
    if i % 4 == 2 and not P.get('directed'):
        P['kcommit'] = rng.choice([3, 5, 6])
        if P.get('pad', 0) < 3000 and rng.random() < 0.5:
            P['pad'] = 3000     # makes the storage-level committer write a record larger than 64 KiB
    if i % 6 == 5 and not P.get('directed'):
        P['twin'] = 1
    if i % 7 == 6:
        P['pad'] = 70000        # DB-level commits larger than 64 KiB during copyRest (utils.cp chunking)
    return P


def _gen_sched_params(rng, i):
    return dict(seed=rng.randrange(10 ** 9), stick=rng.choice([0.0, 0.3, 0.5, 0.7, 0.9, 0.97]),
                committers=rng.choice([1, 2, 2]), commits=rng.choice([2, 3, 4]),
                shared=rng.choice([0, 1, 1]), undo=rng.choice([0, 0, 1]), reads=rng.choice([0, 3, 5]),
                second=rng.choice([0, 0, 0, 1]), keep_old=rng.choice([True, True, False]),
                ptime=rng.choice(['mid', 'mid', 'mid', 'now', 'future']), pre=rng.choice([1, 2, 3]),
                post=rng.choice([0, 1, 2, 4]), read_yield=rng.choice([0, 0, 1]),
                reopen=rng.choice([0, 0, 1]), long_reader=rng.choice([0, 1]),
                pad=rng.choice([0, 0, 3000, 9000]))


def gen_crash_params(rng, i):
    return dict(seed=rng.randrange(10 ** 9), stick=rng.choice([0.3, 0.6, 0.9]),
                commits=[2, 0, 3, 1, 2][i % 5], keep_old=bool(i % 2 == 0), prepack=int(i % 3 == 1),
                reopen=int(i % 4 == 2), ptime=['mid', 'mid', 'now', 'mid', 'future'][i % 5],
                pre=rng.choice([1, 2, 3]), post=rng.choice([1, 2, 3]), gsize=rng.choice([1, 3, 400]),
                pad=rng.choice([0, 0, 3000, 70000]), nolink=int(i % 8 == 7), pack_gc=bool(i % 3 != 2),
                ctor=['direct', 'config'][i % 2], hex=int(i % 4 == 2))


def gen_fault_params(rng, i):
    return dict(keep_old=bool(i % 2 == 0), prepack=int(i % 2 == 0 or i % 3 == 0), reopen=int(i % 3 == 1),
                ptime=['mid', 'now'][i % 2], pre=rng.choice([1, 2]), post=rng.choice([1, 2, 3]),
                gsize=rng.choice([1, 3]), nolink=int(i % 4 == 3), pack_gc=bool(i % 3 != 1),
                ctor=['direct', 'config'][i % 2], hex=int(i % 4 == 1))


# ------------------------------------------------------------------------------------------------
# running the sched family (optionally in worker processes)
# ------------------------------------------------------------------------------------------------
def sched_job(args):
    P, tmp, schedule = args
    os.makedirs(tmp, exist_ok=True)
    try:
        obs = run_sched_case(P, tmp, schedule)
    except InfraError:
        raise
    small = dict(P=P, deadlock=obs['deadlock'], problems=obs['problems'], results=obs['results'],
                 steps=obs['steps'], nontrivial=sched_nontrivial(obs), ndec=len(obs['decisions']),
                 returned=len(obs['returned']), T=obs['T'], api_calls=obs.get('api_calls', 0),
                 iternext_collected=obs.get('iternext_collected', 0))
    # [I] PackProto acceptance, computed where the full event log is available
    small['proto'] = None
    try:
        small['proto'] = proto_lines(obs)
    except Exception as e:          # noqa: B902
        small['proto_error'] = repr(e)
    if obs['deadlock'] or obs['problems']:
        small['decisions'] = obs['decisions']
    return small


def sched_job_safe(args):
    """sched_job, with an exception escaping from the real code (set-up, close) turned into a problem"""
    try:
        return sched_job(args)
    except InfraError:
        raise
    except Exception as e:          # noqa: B902
        try:
            transaction.abort()
        except Exception:           # noqa: B902
            pass
        return dict(P=args[0], deadlock=False, problems=[('escaped:%s' % type(e).__name__, repr(e))],
                    results={}, steps=0, nontrivial=False, ndec=0, returned=0, T=None, proto=None,
                    decisions=[])


def proto_lines(obs):
    """(lines, expectations) for Drivers/PackProto, or None when the run is outside the translation
    (second packer, undo, failed / no-op pack, or a commit finishing exactly while the packer takes
    its unlocked file_end snapshot, which the lock-event log cannot order)"""
    P = obs['P']
    res = obs['results']
    if P.get('second') or P.get('undo') or obs['deadlock'] or res.get('p') != 'ok' or obs['problems'] or \
            P.get('kcommit'):
        return None
    crole, lrole = obs['roles']['commit'], obs['roles']['lock']
    T = bytes.fromhex(obs['T'])
    init = [bytes.fromhex(t) for t in obs['init_tids']]
    hist = sorted(init + [bytes.fromhex(t) for t, _, _ in obs['returned'] if t])
    final = set(bytes.fromhex(t) for t in obs['final_tids'])
    Tr = len([t for t in hist if t <= T])
    n0 = len(init)
    evs = obs['events']
    sessions = {}        # thread -> outcomes of its successive commit-lock sessions
    cur = {}
    for th, kind, label in evs:
        if not th.startswith('c'):
            continue
        if kind == 'acquired' and label == crole:
            cur[th] = len(sessions.setdefault(th, []))
            sessions[th].append('abort')
        elif kind == 'note' and label == 'commit-returned' and th in cur:
            sessions[th][cur[th]] = 'finish'
    lines = ['reset %s' % (','.join(str(i + 1) for i in range(n0)) or '-')]
    nxt = n0 + 1
    cst = {}
    ph = 'idle'
    nfin = 0
    limbo = set()           # committers between their fsync and the release of the commit lock
    window = None           # [finishes at window start, ambiguous?]
    k = None
    for th, kind, label in evs:
        if th.startswith('c'):
            st = cst.setdefault(th, dict(n=-1, active=False, voted=False, rank=None))
            if kind == 'acquired' and label == crole:
                st['n'] += 1
                st.update(active=True, voted=False, rank=nxt)
                nxt += 1
                lines.append('begin %d' % st['rank'])
            elif kind == 'io' and label == 'write Data.fs' and st['active'] and not st['voted']:
                st['voted'] = True
                lines.append('vote')
            elif kind == 'io' and label == 'fsync Data.fs' and st['active']:
                limbo.add(th)
                if window is not None:
                    window[1] = True
            elif kind == 'release' and label == crole and st['active']:
                st['active'] = False
                limbo.discard(th)
                if window is not None:
                    window[1] = True
                if sessions[th][st['n']] == 'finish' and st['voted']:
                    lines.append('finish')
                    st['fin'] = st['rank']
                    nfin += 1
                else:
                    lines.append('abort')
                    nxt -= 1            # the tid was not used up in the model's numbering
            elif kind == 'note' and label == 'commit-returned':
                lines.append('ret %d' % st['fin'])
            continue
        if th != 'p':
            continue
        if kind == 'acquired' and label == lrole and ph == 'idle':
            ph = 'started'
            lines.append('packStart %d' % Tr)
        elif kind == 'release' and label == lrole and ph == 'started' and window is None:
            window = [nfin, bool(limbo)]        # file_end is read somewhere from here …
        elif kind == 'io' and label == 'create Data.fs.pack' and ph == 'started' and k is None:
            if window is None or window[1]:     # … to here
                return None
            k = len([t for t in hist[:n0 + window[0]] if t <= T])
            window = None
            kept = [i + 1 for i, t in enumerate(hist[:k]) if t in final]
            lines += ['scan %d' % k, 'bulkCopy %s' % (','.join(str(x) for x in kept) or '-')]
        elif kind == 'acquired' and label == crole and ph == 'started' and k is not None:
            ph = 'holds'
            lines.append('acquireCommit')
        elif kind == 'release' and label == crole and ph == 'holds':
            ph = 'body'
            lines += ['readHdr', 'releaseForBody']
        elif kind == 'acquired' and label == crole and ph == 'body':
            ph = 'holds'
            lines += ['copyBody', 'reacquire']
        elif kind == 'io' and ph == 'holds' and label in ('link Data.fs', 'rename Data.fs'):
            ph = 'mid'
            lines += ['readHdr', 'swapBegin']
        elif kind == 'io' and ph == 'mid' and label == 'rename Data.fs.pack':
            ph = 'swapped'
            lines.append('swapEnd')
        elif kind == 'release' and label == crole and ph == 'swapped':
            ph = 'released'
            lines.append('releaseCommit')
        elif kind == 'release' and label == lrole and ph == 'released':
            ph = 'done'
            lines.append('clearFlag')
    if ph != 'done':
        return None             # no-op pack (nothing freed): not translated
    nact = len(lines)
    lines.append('file')
    expect_file = ','.join(str(x) for x in (kept + list(range(k + 1, n0 + nfin + 1)))) or '-'
    return dict(lines=lines, nact=nact, expect_file=expect_file)


# ------------------------------------------------------------------------------------------------
def sched_signature(sym):
    return 'C08:sched:' + sym


_SHRUNK = [0]


def shrink_sched(P, decisions, tmp, symptom):
    """delta-debug the decision list (replay: exhausted schedule = keep running the current thread)"""
    _SHRUNK[0] += 1
    if _SHRUNK[0] > 2:
        return decisions
    def fails(dec):
        o = run_sched_case(P, tmp, schedule=list(dec))
        if symptom == 'deadlock':
            return o['deadlock']
        return any(s == symptom for s, _ in o['problems'])
    try:
        if not fails(decisions):
            return decisions
        return ddmin(decisions, fails, max_tests=60)
    except Exception:           # noqa: B902
        return decisions


def judge_sched(ck, small, proto_batch):
    P = small['P']
    ck.case(dict(kind='sched', P=P), small['nontrivial'],
            sample=dict(kind='sched', P=P, results=small['results'], steps=small['steps'])
            if small['nontrivial'] else None)
    ck.count('sched-steps', small['steps'])
    ck.count('sched-returned-commits', small['returned'])
    if small.get('api_calls'):
        ck.count('sched-api-reader-observations', small['api_calls'])
    if small.get('iternext_collected'):
        ck.count('record_iternext-POSKeyError-on-object-collected-by-the-swap', small['iternext_collected'])
    for key in ('ctor', 'hex', 'pack_gc', 'hooks', 'kcommit', 'hist'):
        if P.get(key) not in (None, 0, 'direct', True):
            ck.count('sched-dim:%s=%s' % (key, P.get(key)))
    for k, v in (small['results'] or {}).items():
        if k in ('p', 'q'):
            for x in (v if isinstance(v, list) else [v]):
                ck.count('pack-outcome:%s' % str(x)[:40])
        elif k.startswith('c') and v:
            for o in v['out']:
                ck.count('commit-outcome:%s' % o.split(':')[0])
        elif k == 'r' and v:
            for _, vals, _ in v:
                ck.count('read:%s' % (vals if isinstance(vals, str) else 'ok'))
    if small['nontrivial']:
        ck.count('sched-commit-during-copyRest')
    if small['deadlock']:
        dec = shrink_sched(P, small['decisions'], ck.tmp, 'deadlock')
        ck.violation(sched_signature('deadlock'), 'deadlock (no runnable thread) while packing under schedule '
                     'seed %d' % P['seed'], dict(kind='sched', P=P, schedule=dec))
    elif small['problems']:
        sym, text = small['problems'][0]
        dec = shrink_sched(P, small['decisions'], ck.tmp, sym)
        ck.violation(sched_signature(sym), text, dict(kind='sched', P=P, schedule=dec,
                                                      all_problems=small['problems'][:6]))
    elif small.get('proto'):
        proto_batch.append((P, small['proto']))
    elif small.get('proto_error'):
        ck.count('proto-translation-error')


def check_proto_batch(ck, batch):
    """[I] feed every translated run to the PackProto driver in ONE process"""
    if not batch:
        return
    lines = []
    for P, pr in batch:
        lines += pr['lines']
    out = run_driver('PackProto', lines)
    pos = 0
    for P, pr in batch:
        o = out[pos:pos + len(pr['lines'])]
        pos += len(pr['lines'])
        ck.count('proto-traces-checked')
        bad = [i for i in range(pr['nact']) if not o[i].startswith('ok')]
        if bad:
            i = bad[0]
            ck.mismatch('PackProto does not accept the real lock-event pattern: action %d %r answered %s'
                        % (i, pr['lines'][i], o[i]),
                        dict(kind='sched', P=P, actions=pr['lines'][:i + 1]))
        elif o[-1] != pr['expect_file']:
            ck.mismatch('PackProto ends with stored log %s, the real run with %s' % (o[-1], pr['expect_file']),
                        dict(kind='sched', P=P, actions=pr['lines']))


def load_corpus():
    cases = []
    for f in sorted(glob.glob(os.path.join(VERIF, 'corpus', 'C08', '*.json'))):
        with open(f) as fh:
            cases.append(json.load(fh)['case'])
    return cases


class Collector:
    """stands in for `Check` inside worker processes: same recording API, picklable result"""

    def __init__(self, seed, tmp, thorough):
        import random
        self.rng = random.Random('C08-col-%r' % (seed,))
        self.tmp, self.thorough = tmp, thorough
        self.cases, self.counts, self.violations, self.mismatches, self.model_jobs = [], {}, [], [], []
        self.proto = []

    def case(self, canonical, nontrivial, sample=None):
        self.cases.append((canonical, nontrivial, sample))

    def count(self, key, n=1):
        self.counts[key] = self.counts.get(key, 0) + n

    def violation(self, signature, what, case):
        if len(self.violations) < 20:
            self.violations.append((signature, what, case))

    def mismatch(self, what, case):
        if len(self.mismatches) < 20:
            self.mismatches.append((what, case))

    def result(self):
        return dict(cases=self.cases, counts=self.counts, violations=self.violations,
                    mismatches=self.mismatches, model_jobs=self.model_jobs, proto=self.proto)


def merge(ck, res):
    for canonical, nontrivial, sample in res['cases']:
        ck.case(canonical, nontrivial, sample)
    for k, v in res['counts'].items():
        ck.count(k, v)
    for sig, what, case in res['violations']:
        ck.violation(sig, what, case)
    for what, case in res['mismatches']:
        ck.mismatch(what, case)
    ck.model_jobs += res['model_jobs']
    ck.proto_batch += res['proto']


def run_script_case(ck, case):
    """a deterministic reproducer script of corpus/C08 run in a subprocess with and without -O; its own
    oracle (exit status) judges the real code"""
    import subprocess
    path = os.path.join(VERIF, 'corpus', 'C08', case['script'])
    for opt in case.get('opts', ([], ['-O'])):
        p = subprocess.run([sys.executable] + opt + [path] + list(case.get('args', [])), capture_output=True,
                           text=True, timeout=120,
                           cwd=ck.tmp)
        ck.case(dict(kind='script', script=case['script'], opt=opt, args=case.get('args')), True,
                sample=dict(kind='script', script=case['script'], opt=opt, out=p.stdout.strip()[-200:]))
        ck.count('script:%s:%s' % (case['script'], 'ok' if p.returncode == 0 else 'failed'))
        if p.returncode != 0:
            ck.violation(case.get('signature') or
                         'C08:%s:corrupt%s' % (case['script'][:-3].replace('_', '-'), '-under-O' if opt else ''),
                         '%s %s: %s' % (' '.join(['python'] + opt), case['script'],
                                        (p.stdout + p.stderr).strip()[-400:]),
                         dict(kind='script', script=case['script']))


def run_case(ck, case):
    """run one case; an exception of the real code escaping from a scenario (set-up pack, close, …) is
    reported as a violation with the case as replay, never as a harness crash"""
    import signal
    import traceback

    class CaseTimeout(BaseException):
        pass

    def on_alarm(signum, frame):
        raise CaseTimeout()
    timed = threading.current_thread() is threading.main_thread() and hasattr(signal, 'SIGALRM')
    if timed:       # a blocked step (leaked lock in a sequential scenario) becomes a verdict, not a hang
        old_handler = signal.signal(signal.SIGALRM, on_alarm)
        signal.alarm(600 if case.get('thorough') else 180)
    try:
        _run_case(ck, case)
    except InfraError:
        raise
    except CaseTimeout:
        ck.violation('C08:%s:timeout' % case['kind'], 'the case did not finish within its time limit (a step '
                     'blocks: leaked lock?)', case)
    except Exception as e:          # noqa: B902
        try:
            transaction.abort()
        except Exception:           # noqa: B902
            pass
        tb = traceback.extract_tb(e.__traceback__)
        where = [f for f in tb if '/ZODB/' in f.filename]
        ck.violation('C08:%s:escaped:%s' % (case['kind'], type(e).__name__),
                     'the scenario raised %s: %s (%s)' % (type(e).__name__, e, (
                         '%s:%d' % (os.path.basename(where[-1].filename), where[-1].lineno)) if where else
                         'harness'), case)
    finally:
        if timed:
            signal.alarm(0)
            signal.signal(signal.SIGALRM, old_handler)


def _run_case(ck, case):
    kind = case['kind']
    if kind == 'sched':
        small = sched_job_safe((case['P'], os.path.join(ck.tmp, 'w0'), case.get('schedule')))
        judge_sched(ck, small, ck.proto)
    elif kind == 'crash':
        run_crash_scenario(ck, case['P'], case.get('thorough', ck.thorough), only_cut=case.get('cut'))
    elif kind == 'fault':
        run_fault_scenario(ck, case['P'], only=case.get('fail_at'))
    elif kind == 'script':
        run_script_case(ck, case)
    elif kind == 'mapping':
        run_mapping_case(ck, case)
    elif kind == 'blob':
        run_blob_case(ck, case)
    elif kind == 'prepack':
        run_prepack_case(ck, case)
    elif kind == 'close':
        run_close_family(ck, case)
    elif kind == 'oldsnapshot':
        run_old_snapshot_case(ck, case)
    elif kind == 'blobfault':
        run_blob_fault_scenario(ck, case['P'], only=case.get('fail_at'))
    else:
        raise InfraError('unknown case kind %r' % kind)


def case_job(args):
    """one case in a worker process (or inline): returns the collector's result"""
    case, seed, tmp, thorough = args
    tmp = os.path.join(tmp, 'w%d' % os.getpid())
    os.makedirs(tmp, exist_ok=True)
    col = Collector(seed, tmp, thorough)
    run_case(col, case)
    return col.result()


def main(argv=None):
    import tempfile
    if 'TMPDIR' not in os.environ and os.path.isdir('/dev/shm') and os.access('/dev/shm', os.W_OK):
        tempfile.tempdir = '/dev/shm'       # thousands of commits fsync their scratch Data.fs
    ck = Check('C08', argv)
    ck.extra['modules'] = ['Props.C08', 'Drivers.PackDisk', 'Drivers.PackProto']
    ck.run_gate(ck.extra['modules'], ['Props.C08'])
    ck.model_jobs, ck.proto_batch = [], []
    if ck.replay_path:
        with open(ck.replay_path) as f:
            rp = json.load(f)
        if rp.get('case') is None:
            raise InfraError('replay file carries no case')
        cases = [rp['case']]
    else:
        cases = load_corpus()
        nsched = 200 if not ck.thorough else 5000
        ncrash = 8 if not ck.thorough else 100
        nfault = 4 if not ck.thorough else 24
        cases += [dict(kind='sched', P=gen_sched_params(ck.rng, i)) for i in range(nsched)]
        cases += [dict(kind='crash', P=gen_crash_params(ck.rng, i), thorough=bool(ck.thorough and i < 40))
                  for i in range(ncrash)]
        cases += [dict(kind='fault', P=gen_fault_params(ck.rng, i)) for i in range(nfault)]
        nblob = 40 if not ck.thorough else 1000
        cases += [dict(kind='blob', P=gen_blob_params(ck.rng, i)) for i in range(nblob)]
        cases += [dict(kind='blobfault', P=dict(keep_old=ko, garbage=g, layout=['bushy', 'lawn'][int(ko)],
                                                 ctor=['config', 'direct'][int(ko)]))
                  for ko in (True, False) for g in ((0, 1) if ck.thorough else (ko,))]
        cases += [dict(kind='prepack', P=dict(kind=kd, pre=pre, after=2, close_first=cf))
                  for kd in ('mvccmapping', 'mapping', 'file') for pre in (1, 3) for cf in (0, 1)]
        cases += [dict(kind='oldsnapshot', P=dict(kind=kd, newer=nw, close_writer=cw, ctor=ct, hex=hx))
                  for kd, ct, hx in (('file', 'direct', 0), ('file', 'config', 0), ('file', 'direct', 1),
                                     ('mapping', 'direct', 0))
                  for nw in (1, 2) for cw in (0, 1)]
        cases += [dict(kind='close', P=gen_close_params(ck.rng, i)) for i in range(12 if not ck.thorough else 400)]
        nmap = 40 if not ck.thorough else 1500
        cases += [dict(kind='mapping', P=gen_mapping_params(ck.rng, i)) for i in range(nmap)]
        cases += [dict(kind='mapping', mode='callback', P=dict(ptime=pt, pre=pre, at=at))
                  for pt in ('mid', 'now') for pre in (1, 3) for at in (1, 2, 4)]
    jobs = [(c, (ck.seed, i), ck.tmp, ck.thorough) for i, c in enumerate(cases)]
    if ck.thorough and len(jobs) > 1:
        import multiprocessing as mp
        # long jobs (crash scenarios with every byte cut) first
        order = sorted(range(len(jobs)), key=lambda i: (jobs[i][0]['kind'] != 'crash',
                                                        not jobs[i][0].get('thorough'), i))
        with mp.Pool(min(16, os.cpu_count() or 2)) as pool:
            for res in pool.imap_unordered(case_job, [jobs[i] for i in order], chunksize=1):
                merge(ck, res)
    else:
        for j in jobs:
            merge(ck, case_job(j))
    check_proto_batch(ck, ck.proto_batch)
    check_disk_batch(ck)
    ck.finish(
        rule='(a) seeded (every fifth: directed vote-during-copy) schedules of 1 packer + 1-2 committers (+ undo) + reader (+ second packer) at '
             'lock-operation and raw file-I/O granularity, varying stickiness, pack time (mid / now / future), '
             'keep_old, read yield points; non-trivial = a commit returned between the packer\'s first '
             'acquisition of the commit lock and the swap (during copyRest).  (b) every event boundary (+ sampled, '
             'thorough: every, byte cut of .pack / .index_tmp writes) of recorded packs with commits in the '
             'middle; non-trivial = cut after the first .pack write of a pack during which a commit returned.  '
             '(c) OSError at every raw mutating operation of a pack; non-trivial = fault after the .pack file '
             'exists.  distinct by hash of the parameters (+ cut / fault index)',
        assumptions=['crash model: the image is a prefix of the ISSUED raw operations plus a byte prefix of the '
                     'next write (no reordering by the OS; .pack is not fsynced before the swap)',
                     'the recovery of a torn commit tail (read_index) is C01\'s subject: PackDisk abstracts a data '
                     'file to its complete transactions + a torn flag',
                     'a saved index is a cache (C09): PackDisk.openDir ignores it; the harness still opens every '
                     'image WITH the index found in it and checks index/log agreement',
                     'what a pack may drop at or before the pack time is C07\'s subject: PackProto keeps any '
                     'sublist of the transactions below packpos',
                     'readers read objects that stay reachable; snapshot semantics of values are C02\'s subject',
                     'oracle-only (no Lean model): MappingStorage / DemoStorage / MVCCMappingStorage packs, blob '
                     'directory races, BlobStorage wrapper, pack concurrent with close() (judged on the files left '
                     'behind only), storage-level API reader and restore / deleteObject commits',
                     'record_iternext raising POSKeyError / ValueError for an object the swap of a gc pack has just '
                     'collected (lockless index read + load; unreachable garbage only) is counted in the histogram, '
                     'not judged',
                     'swap via os.link + os.replace (repaired in /repo while this check was built); the two-rename fallback (no hard links) keeps the '
                     'between-renames window: Props.C08.pack_crash_between_renames_loses_data'])


if __name__ == '__main__':
    try:
        main()
    except InfraError as e:
        print('INFRA-ERROR', e)
        sys.exit(2)
