"""C13, storage-level histories: tpc_begin / storeBlob / store / vote / finish / abort at every phase /
foreign tpc_abort / undo / pack driven directly on FileStorage(blob_dir) and
BlobStorage(blob_dir, MappingStorage()).  Generator + runner + direct oracle (a ledger)."""
import os

from c13_lib import Env, p64, u64, errname, copy_to_fresh, FinishBoom

Z64 = b'\0' * 8


# ---------------------------------------------------------------- generator
def _gen_case(rng, flavor=None, size=None):
    flavor = flavor or rng.choice(['fs', 'fs', 'fs', 'wrap', 'wrap', 'wrapfs'])
    size = size or rng.choice([6, 10, 16, 24])
    ops = []
    slots = ['a', 'b', 'c']
    committed = set()      # slots with a committed revision (symbolic, optimistic)
    ntx = 0
    for _ in range(size):
        r = rng.random()
        if r < 0.72:
            # one transaction
            body = []
            used = set()
            for _ in range(rng.choice([1, 1, 2, 3])):
                s = rng.choice([x for x in slots if x not in used] or slots)
                if s in used:
                    continue
                used.add(s)
                q = rng.random()
                if q < 0.7:
                    data = gen_data(rng)
                    stale = rng.random() < 0.06 and s in committed
                    body.append(['blob', s, data, 1 if stale else 0])
                elif q < 0.8:
                    body.append(['plain', 'p%d' % rng.randrange(2), rng.randrange(5)])
                elif q < 0.88:
                    body.append([rng.choice(['unlink', 'unlink', 'relink']), s])
                elif flavor != 'wrap' and ntx > 0 and q < 0.97:
                    body = [['undo', rng.randrange(1, 4)]]
                    if rng.random() < 0.4:
                        # multi-undo: further, older transactions undone in the same transaction
                        body += [['undo', 1] for _ in range(rng.choice([1, 1, 2]))]
                    used = set(slots)
                    break
                else:
                    body.append(['missingblob', s])
            if rng.random() < 0.12:
                body.insert(rng.randrange(len(body) + 1), ['fabort'])
            if rng.random() < 0.15:
                # meanwhile a second blob storage of the process commits or aborts a blob transaction
                body.insert(rng.randrange(len(body) + 1), ['other', rng.choice(['finish', 'finish', 'abort'])])
            end = rng.random()
            ops.append(['begin'])
            ops += body
            if end < 0.55:
                ops += [['vote'], ['finish']]
                committed |= {b[1] for b in body if b[0] == 'blob'}
                ntx += 1
                if body and body[0][0] == 'undo' and rng.random() < 0.5:
                    # make the undo revision non-current and pack after it: its file has to go with it
                    if rng.random() < 0.4:
                        ops += [['begin'], ['undo', 1], ['vote'], ['finish']]
                    ops += [['begin']] + [['blob', s2, gen_data(rng), 0] for s2 in sorted(committed)[:2]] + \
                        [['vote'], ['finish'], ['pack', rng.choice([0, 0, 1]), rng.choice([0, 1])]]
            elif end < 0.75:
                ops += [['abort']]                      # abort before vote
            elif end < 0.92:
                ops += [['vote']]
                if rng.random() < 0.3:
                    ops += [['fabort']]
                if flavor == 'wrap' and rng.random() < 0.5:
                    ops += [['failfinish']]             # the wrapped storage's tpc_finish raises
                ops += [['abort']]                      # abort after vote
            else:
                ops += [['vote'], ['fabort'], ['finish']]
                committed |= {b[1] for b in body if b[0] == 'blob'}
                ntx += 1
        elif r < 0.9 and ntx > 0:
            if flavor != 'wrap' and rng.random() < 0.25:
                ops.append(['reopen'])
            if flavor != 'wrap' and rng.random() < 0.3:
                ops.append(['failpack', rng.choice([0, 1, 1])])      # abandoned pack (disk full), then …
            ops.append(['pack', rng.randrange(0, 6), rng.choice([0, 1, 1])])
        else:
            ops.append(['fabort'])
    return dict(level='st', flavor=flavor, keep_old=rng.random() < 0.4, copy=rng.random() < 0.25, ops=ops)


def gen_case(rng, flavor=None, size=None):
    from c13_db import add_construction
    c = _gen_case(rng, flavor, size)
    add_construction(c, rng)
    return c


def gen_data(rng):
    """blob payload as a compact string: hex, or 'R<len>:<seed>' for a long pseudo-random one"""
    r = rng.random()
    if r < 0.08:
        return ''
    if r < 0.9:
        return bytes(rng.randrange(97, 123) for _ in range(rng.randrange(1, 9))).hex()
    return 'R%d:%d' % (rng.choice([25, 100, 9000, 65536, 65537, 70000, 70000, 200000]), rng.randrange(1000))


def decode_data(s):
    if s.startswith('R'):
        import random
        n, seed = s[1:].split(':')
        return random.Random(int(seed)).randbytes(int(n))
    return bytes.fromhex(s)


# ---------------------------------------------------------------- runner + oracle
class Ledger:
    """the harness's own account of what must be in the blob directory"""

    def __init__(self):
        self.files = {}        # (oid, tid) -> bytes   committed blob revisions not yet packed away
        self.hist = {}         # oid -> [(tid, bytes | None)]   every committed revision (None: no blob data)
        self.txns = []         # [(tid, [oid…])]
        self.packed_to = 0
        self.gone = set()      # revisions a pack removed

    def prev_bytes(self, oid, tid):
        """(known, bytes) of the revision of oid before tid; known False if a pack removed it"""
        older = [(t, b) for t, b in self.hist.get(oid, []) if t < tid]
        if not older:
            return True, None
        t, b = older[-1]
        if (oid, t) in self.gone:
            return False, None
        return True, b


def run_case(case, root, ck=None):
    """returns dict(lines, real, problems=[(signature, what)], nontrivial, stats)"""
    from ZODB.Connection import TransactionMetaData
    from ZODB.blob import Blob
    from ZODB.tests.MinPO import MinPO
    from ZODB.tests.StorageTestBase import zodb_pickle
    from ZODB.serialize import referencesf, ObjectWriter
    from ZODB.TimeStamp import TimeStamp
    from base64 import encodebytes
    import clock

    flavor = case['flavor']
    problems = []
    stats = {}

    def cnt(k):
        stats[k] = stats.get(k, 0) + 1

    def bad(sig, what):
        if len(problems) < 12 and sum(1 for s0, _ in problems if s0 == sig) < 2:
            problems.append((sig, what))

    nontrivial = False
    nomodel = [False]
    dupkeys = set()
    others = [0]
    with clock.scripted():
        env = Env(os.path.join(root, 'db'), flavor, keep_old=case.get('keep_old', False), pack_gc=True,
                  layout=case.get('layout'), via_config=bool(case.get('cfg')), oid_base=case.get('oid_base', 0))
        S = env.storage
        L = Ledger()
        blob_pickle = ObjectWriter().serialize(Blob())   # what Connection stores (is_blob_record)
        oid_of = {}
        txn = None
        pending = None          # dict oid -> bytes|None|'plain'
        linked = set()          # committed: oids the root object references
        linked_p = None         # the same inside the transaction in progress
        root_hist = []          # [(tid, linked before that txn)] for txns that stored the root
        failed = False
        undone = []
        phase = None
        foreign_seen = False
        try:
            def oid(slot):
                if slot not in oid_of:
                    oid_of[slot] = S.new_oid()
                return oid_of[slot]

            def root_pickle(oids):
                root = MinPO(0)
                root.value = []
                for o in sorted(oids):
                    stub = MinPO(0)
                    stub._p_oid = p64(o)
                    root.value.append(stub)
                return zodb_pickle(root)

            def cur_serial(o):
                h = L.hist.get(u64(o))
                return p64(h[-1][0]) if h else Z64

            def check(after):
                """files on disk vs ledger (+ the transaction in progress)"""
                files, stray = env.scan()
                if stray:
                    bad('C13:stray-file', 'unexpected files in the blob directory after %s: %r' % (after, stray))
                tid_now = u64(env.base._tid) if txn is not None else None
                for k, b in list(L.files.items()):
                    if k not in files:
                        if after == 'pack':
                            dup = flavor == 'fs' and k in dupkeys
                            unloadable = False
                            if flavor == 'wrapfs':
                                # _packUndoing keeps a file iff loadSerial(oid, tid) succeeds.  A record that the base
                                # pack kept ONLY as the target of a back pointer from after the pack time is listed by
                                # the iterator but cannot be loaded any more (no prev chain leads to it): its file goes
                                try:
                                    S.loadSerial(p64(k[0]), p64(k[1]))
                                except Exception:
                                    unloadable = True
                            if unloadable:
                                cnt('wrapfs:pack-removed-file-of-unloadable-back-pointer-target')
                                del L.files[k]
                                L.gone.add(k)
                            elif dup:
                                # the transaction holds a superseded duplicate record of this revision (multi-undo):
                                # fspack's is_dup test misses duplicates kept through a back pointer from after
                                # the pack time (corpus/C13/repro_pack_duplicate_undo_record.py)
                                bad('C13:pack-removes-blob-of-duplicated-record', 'pack removed the blob file of kept '
                                    'revision %r: its transaction holds a superseded duplicate record' % (k,))
                                nomodel[0] = True
                            else:
                                bad('C13:nonundo-pack-removes-kept-blob' if flavor == 'wrap' else
                                    'C13:pack-removes-kept-blob:undo-capable-base' if flavor == 'wrapfs' else
                                    'C13:pack-removes-kept-blob',
                                    'pack removed the blob file of revision %r whose record is kept' % (k,))
                            if flavor == 'wrap' or dup:
                                del L.files[k]         # report once, no cascade
                                L.gone.add(k)
                        elif foreign_seen:
                            bad('C13:foreign-abort-removes-blob', 'blob file %r missing after %s' % (k, after))
                        else:
                            bad('C13:committed-blob-missing', 'blob file %r missing after %s' % (k, after))
                    elif files[k] != b:
                        bad('C13:blob-bytes-differ', 'blob file %r holds %r, written %r (after %s)'
                            % (k, files[k][:40], b[:40], after))
                for k in files:
                    if k in L.files:
                        continue
                    if txn is not None and k[1] == tid_now:
                        continue
                    if flavor == 'wrapfs' and k in {(o, t) for o, t, kd in env.records() if kd == 'none'}:
                        # by design of the legacy wrapper: undoing a creation keeps a copy of the blob under the
                        # undo tid "in case a user wishes to undo this undo" (the record is an un-creation)
                        cnt('wrapfs:uncreation-keeps-copy')
                        continue
                    if env.intruder_aborted:
                        bad('C13:abort-before-vote-leaves-blob', 'blob file %r of a transaction that began while another '
                            'one was in tpc_finish (dirty list reset outside the commit lock) and was then aborted is '
                            'left in the blob directory' % (k,))
                    elif after == 'pack':
                        bad('C13:pack-keeps-removed-blob', 'file %r of a revision removed by pack is still there' % (k,))
                    elif after.startswith('abort'):
                        bad('C13:abort-%s-leaves-blob' % ('after-vote' if after == 'abort-voted' else 'before-vote'),
                            'blob file %r of the aborted transaction left in the blob directory' % (k,))
                    else:
                        bad('C13:file-without-record', 'blob file %r without committed record after %s' % (k, after))
                if txn is not None and not failed and pending is not None:
                    for o, b in pending.items():
                        if isinstance(b, bytes):
                            k = (o, tid_now)
                            if k not in files:
                                bad('C13:foreign-abort-removes-blob' if foreign_seen else 'C13:inflight-blob-missing',
                                    'blob file %r of the transaction in progress is gone after %s' % (k, after))
                            elif files[k] != b:
                                bad('C13:blob-bytes-differ', 'in-flight blob %r holds %r' % (k, files[k][:40]))

            def guard(line_idx):
                """raw-event guards on the observation of the last boundary call"""
                ev = env.real[line_idx].split('|')[1]
                for e in filter(None, ev.split(',')):
                    tag, _, rest = e.partition(':') if not e.startswith('mv>') and not e.startswith('ln>') \
                        else (e[:3], ':', e[3:])
                    k = tuple(int(x) for x in rest.split(':')[:2]) if rest and rest[0].isdigit() else None
                    if tag in ('cr', 'wr', 'tr', 'ow') and k in L.files:
                        bad('C13:committed-file-written', 'raw %s on committed blob file %r' % (tag, k))
                    if tag in ('mv>', 'ln>') and k in L.files:
                        bad('C13:rename-onto-committed', 'rename onto existing committed blob file %r' % (k,))

            for op in case['ops']:
              try:
                  kind = op[0]
                  cnt('op:' + kind)
                  n_before = len(env.lines)
                  if kind == 'begin':
                      if txn is not None:
                          continue
                      txn = TransactionMetaData()
                      S.tpc_begin(txn)
                      pending, failed, phase, foreign_seen = {}, False, 'begun', False
                      undone = []
                      linked_p = set(linked)
                      check('begin')
                  elif kind in ('unlink', 'relink'):
                      if txn is None or phase != 'begun' or op[1] not in oid_of:
                          continue
                      o = u64(oid_of[op[1]])
                      if kind == 'unlink':
                          linked_p.discard(o)
                      elif o in L.hist and L.hist[o][-1][1] is not None and (o, L.hist[o][-1][0]) not in L.gone:
                          linked_p.add(o)        # (never link an object a pack has dropped: dangling reference)
                  elif kind in ('blob', 'plain', 'missingblob', 'undo'):
                      if txn is None or phase != 'begun' or failed:
                          continue               # after a raising call the transaction is only aborted
                      try:
                          if kind == 'blob':
                              o = oid(op[1])
                              if u64(o) in pending:
                                  continue
                              data = decode_data(op[2])
                              tmp = os.path.join(S.temporaryDirectory(), 'w%d.tmp' % len(env.lines))
                              with open(tmp, 'wb') as f:
                                  f.write(data)
                              base = cur_serial(o)
                              if op[3] and base != Z64:
                                  base = p64(u64(base) - 1)
                              S.storeBlob(o, base, blob_pickle, tmp, '', txn)
                              pending[u64(o)] = data
                              linked_p.add(u64(o))
                              if u64(o) in L.hist:
                                  nontrivial = True          # a blob is rewritten
                          elif kind == 'missingblob':
                              o = oid(op[1])
                              if u64(o) in pending:
                                  continue
                              tmp = os.path.join(S.temporaryDirectory(), 'nosuch%d.tmp' % len(env.lines))
                              S.storeBlob(o, cur_serial(o), blob_pickle, tmp, '', txn)
                          elif kind == 'plain':
                              o = oid(op[1])
                              if u64(o) in pending:
                                  continue
                              S.store(o, cur_serial(o), zodb_pickle(MinPO(op[2])), '', txn)
                              pending[u64(o)] = 'plain'
                              linked_p.add(u64(o))
                          else:
                              # several undo() calls in one transaction (multi-undo, newest first) are allowed
                              cands = [t for t in L.txns if t[0] > L.packed_to
                                       and (not undone or t[0] < min(undone))]
                              if not cands or (pending and not undone):
                                  continue
                              utid, uoids = cands[-min(op[1], len(cands))]
                              newvals = {}
                              for o in uoids:
                                  known, b = L.prev_bytes(o, utid)
                                  newvals[o] = b if known else 'unknown'
                              if undone and any(o in pending and (pending[o] == 'unknown' or newvals[o] == 'unknown' or
                                                                   (isinstance(pending[o], bytes)
                                                                    and not isinstance(newvals[o], bytes)))
                                                for o in uoids):
                                  # excluded: a later undo of the same transaction un-creates an object whose
                                  # blob copy an earlier one has already put in place (the code leaves that file)
                                  cnt('skip:multi-undo-uncreates')
                                  continue
                              S.undo(encodebytes(p64(utid)).rstrip(), txn)
                              nontrivial = True              # undone
                              if undone:
                                  cnt('multi-undo')
                                  if any(o in pending for o in uoids):
                                      cnt('multi-undo:same-object-twice')
                              undone.append(utid)
                              if flavor == 'wrapfs':
                                  # the legacy proxy finds the blobs to copy by the files named after the UNDONE tid; the
                                  # copy it keeps for an un-creation is deleted by any pack, and a redo then commits a
                                  # blob record without a file (corpus/C13/repro_legacy_proxy_redo_after_pack.py)
                                  on_disk = env.scan()[0]
                                  for o in uoids:
                                      undone_val = [b2 for t2, b2 in L.hist.get(o, []) if t2 == utid]
                                      if isinstance(newvals[o], bytes) and undone_val and undone_val[0] is None \
                                              and (o, utid) not in on_disk \
                                              and on_disk.get((o, u64(env.base._tid))) != newvals[o]:
                                          bad('C13:legacy-proxy-redo-after-pack-loses-blob', 'redo of the un-creation %r after a pack: the wrapper copied no blob file '
                                              'for the restored revision' % ((o, utid),))
                                          newvals[o] = 'unknown'
                              pending.update(newvals)
                              for t, before in root_hist:
                                  if t == utid:
                                      linked_p = set(before)
                      except Exception as e:
                          failed = True
                          cnt(errname(e))
                          if pending:
                              nontrivial = nontrivial or any(isinstance(b, bytes) for b in pending.values())
                      check(kind)
                  elif kind == 'vote':
                      if txn is None or failed or phase != 'begun':
                          continue
                      if 0 not in pending and (linked_p != linked or 0 not in L.hist):
                          try:
                              S.store(Z64, cur_serial(Z64), root_pickle(linked_p), '', txn)
                              pending[0] = 'plain'
                          except Exception as e:
                              failed = True
                              cnt(errname(e))
                              continue
                      S.tpc_vote(txn)
                      phase = 'voted'
                      check('vote')
                  elif kind == 'finish':
                      if txn is None or failed or phase != 'voted':
                          continue
                      tid = u64(S.tpc_finish(txn))
                      for o, b in pending.items():
                          if b == 'unknown':
                              # undo across a pack boundary: take what the storage wrote
                              k = (o, tid)
                              fl, _ = env.scan()
                              b = fl.get(k)
                          L.hist.setdefault(o, []).append((tid, b if isinstance(b, bytes) else None))
                          if isinstance(b, bytes):
                              L.files[(o, tid)] = b
                      L.txns.append((tid, sorted(pending)))
                      if 0 in pending:
                          root_hist.append((tid, set(linked)))
                      linked = set(linked_p)
                      txn, pending = None, None
                      check('finish')
                      if env.intruder_aborted:
                          check('abort')         # a transaction begun during the finish and aborted: no file
                  elif kind == 'failfinish':
                      if txn is None or failed or phase != 'voted' or flavor != 'wrap':
                          continue
                      env.fail_next_finish()
                      try:
                          S.tpc_finish(txn)
                          bad('C13:harness', 'injected finish failure did not fire')
                      except FinishBoom:
                          pass
                      finally:
                          env.clear_finish_failure()
                      failed = True                    # not committed: the caller aborts
                      if pending and any(isinstance(b, bytes) for b in pending.values()):
                          nontrivial = True
                      check('finish-failed')
                  elif kind == 'abort':
                      if txn is None:
                          continue
                      if pending and any(isinstance(b, bytes) for b in pending.values()):
                          nontrivial = True                  # the txn fails after storeBlob
                      voted = phase == 'voted'
                      S.tpc_abort(txn)
                      txn, pending = None, None
                      check('abort-voted' if voted else 'abort')
                  elif kind == 'fabort':
                      S.tpc_abort(TransactionMetaData())
                      foreign_seen = True
                      check('foreign-abort')
                  elif kind == 'other':
                      # a complete two-phase commit with a blob on a SECOND blob storage of this process, while our
                      # transaction is (or is not) in progress: the two must not share any state (dirty list)
                      n = env.other_transaction(root, 'wrap' if flavor == 'fs' else 'fs', op[1])
                      others[0] += 1 if op[1] == 'finish' else 0
                      if n != others[0]:
                          bad('C13:other-storage-blob-files', 'the second storage holds %d blob files for %d committed '
                              'revisions' % (n, others[0]))
                      check('other-storage')
                  elif kind == 'reopen':
                      if txn is not None or flavor == 'wrap':
                          continue
                      env.reopen()
                      S = env.storage
                      check('reopen')
                  elif kind == 'failpack':
                      if txn is not None or not L.txns or flavor == 'wrap':
                          continue
                      tt = TimeStamp(p64(L.txns[-1][0])).timeTime() + 0.5
                      env.fail_next_pack()
                      try:
                          if flavor == 'fs':
                              S.pack(tt, referencesf, gc=bool(op[1]))
                          else:
                              S.pack(tt, referencesf)
                          cnt('failpack:nothing-to-pack')
                      except OSError:
                          cnt('failpack:abandoned')
                      except Exception as e:
                          cnt('failpack:' + errname(e))
                      finally:
                          env.clear_pack_failure()
                      if env.lines and env.lines[-1].startswith('pack '):      # it returned: nothing to pack
                          L.packed_to = max(L.packed_to, int(env.lines[-1].split()[1]))
                      check('pack-failed')            # nothing was packed: nothing may have changed
                  elif kind == 'pack':
                      if txn is not None or not L.txns:
                          continue
                      tids = [t for t, _ in L.txns]
                      i = min(op[1], len(tids))
                      # pack time: just after the i-th newest transaction (0: after everything)
                      tt = TimeStamp(p64(tids[-1 - i] if i < len(tids) else tids[0])).timeTime()
                      tt = tt + 0.5 if i < len(tids) else tt - 0.5
                      seen_k = set()
                      for o, t, kd in env.records():
                          if (o, t) in seen_k:
                              dupkeys.add((o, t))      # superseded duplicate record (multi-undo)
                          seen_k.add((o, t))
                      try:
                          if flavor == 'fs':
                              S.pack(tt, referencesf, gc=bool(op[2]))
                          else:
                              S.pack(tt, referencesf)
                      except Exception as e:
                          cnt('pack:' + errname(e))
                      recs = {(o, t) for o, t, kd in env.records()}
                      blobrecs = {(o, t) for o, t, kd in env.records() if kd == 'blob'}
                      removed = [k for k in L.files if k not in blobrecs]
                      for k in removed:
                          del L.files[k]
                          L.gone.add(k)
                          nontrivial = True                  # packed
                      if flavor == 'wrap' and env.lines and env.lines[-1].startswith('pack '):
                          on_disk = env.scan()[0]
                          cnt('wrap-pack:' + ('exact' if all(k in on_disk for k in L.files) else
                                              'removes-file-of-kept-revision'))
                      for o, h in L.hist.items():
                          for t, b in h:
                              if (o, t) not in recs:
                                  L.gone.add((o, t))
                      if env.lines and env.lines[-1].startswith('pack '):
                          L.packed_to = max(L.packed_to, int(env.lines[-1].split()[1]))
                      check('pack')
                  for i in range(n_before, len(env.lines)):
                      guard(i)
              except Exception as e:
                import traceback
                tb = traceback.extract_tb(e.__traceback__)
                where = '%s:%d' % (os.path.basename(tb[-1].filename), tb[-1].lineno) if tb else '?'
                bad('C13:operation-raised', 'op %r raised %s: %s (at %s)' % (op, type(e).__name__, str(e)[:120], where))
                break
            if txn is not None:
                try:
                    S.tpc_abort(txn)
                except Exception:
                    pass
                txn, pending = None, None
                check('abort')
            extra = ([], [])
            if case.get('copy'):
                cl, cr, cp = copy_to_fresh(env, root, dict(L.files))
                extra = (cl, cr)
                for sg, w in cp:
                    bad(sg, w)
                cnt('copy')
        finally:
            env.close()
    if nomodel[0]:
        # the model keeps one record per oid and transaction: it does not follow this history
        return dict(lines=[], real=[], problems=problems, nontrivial=nontrivial, stats=stats, tie=env.tie_breaks)
    if flavor == 'wrapfs':
        # oracle only: the wrapper's own undo (BlobStorage.undo) and _packUndoing are not driven through the model
        return dict(lines=[], real=[], problems=problems, nontrivial=nontrivial, stats=stats, tie=env.tie_breaks)
    return dict(lines=['reset ' + flavor] + env.lines + extra[0], real=['ok'] + env.real + extra[1],
                problems=problems, tie=env.tie_breaks,
                nontrivial=nontrivial, stats=stats)
