"""C13, histories through DB / Connection: Blob(), open('w'/'a'/'r+'), consumeFile, other persistent
objects in the same transaction, savepoints + rollback, commit, abort, failed commit at each phase
(a second resource manager raising in tpc_begin / commit / tpc_vote, sorted before or after the
connection; ConflictError from another connection), undo / redo (db.undo), pack (keep-old on/off,
gc on/off, pack time before / between / after revisions), unlink + relink ("garbage at T but
rewritten after T").  Generator + runner + direct oracle (ledger + per-connection view)."""
import os
from base64 import encodebytes

from c13_lib import Env, p64, u64, errname, copy_to_fresh, FinishBoom
from c13_st import gen_data, decode_data

SLOTS = ['b0', 'b1', 'b2']


# ---------------------------------------------------------------- generator
def gen_sp_case(rng, flavor):
    """savepoint-heavy programs: writes / savepoints / rollbacks (also repeated and to older savepoints) on
    one or two blobs, some of them created inside the transaction"""
    ops = []
    small = lambda: bytes(rng.randrange(97, 123) for _ in range(rng.randrange(0, 6))).hex()   # noqa: E731
    have = []
    if rng.random() < 0.7:
        ops += [['new', 'b0', small()], ['commit', None]]
        have.append('b0')
    for _ in range(rng.choice([1, 2, 3])):
        nsp = 0
        for _ in range(rng.randrange(4, 14)):
            r = rng.random()
            if r < 0.12 and len(have) < 2:
                s = 'b1' if 'b0' in have else 'b0'
                ops.append(['new', s, small()])
                have.append(s)
            elif r < 0.5 and have:
                ops.append(['write', rng.choice(have), rng.choice(['w', 'a', 'r+']), small()])
            elif r < 0.53 and have:
                ops.append(['badconsume', rng.choice(have), rng.choice(['missing', 'dir', 'copyfail'])])
            elif r < 0.56 and have:
                ops.append(['consume', rng.choice(have), small()])
            elif r < 0.8:
                ops.append(['sp'])
                nsp += 1
            elif nsp:
                ops.append(['rollback', rng.randrange(nsp)])
            elif r < 0.9:
                ops.append(['plain', rng.randrange(5)])
        ops.append(rng.choice([['commit', None], ['commit', None, 'min'], ['commit', None, 'min'], ['abort'],
                               ['failcommit', 'vote', 0]]))
        have = [s for s in have]          # optimistic
    ops.append(['commit', None])
    return dict(level='db', flavor=flavor, keep_old=False, gc=True, copy=False, ops=ops)


def _gen_case(rng, flavor=None, size=None):
    flavor = flavor or rng.choice(['fs', 'fs', 'fs', 'wrap', 'wrap', 'wrapfs'])
    if rng.random() < 0.2:
        return gen_sp_case(rng, flavor)
    size = size or rng.choice([8, 14, 22, 32])
    ops = []
    # symbolic view (optimistic; the runner skips what turns out not to apply)
    com = {}                       # slot -> 'linked' | 'unlinked'   committed
    cur = {}                       # the same inside the transaction
    created = set()
    sps = []
    clean = True
    ncommit = 0

    def end_txn(ok):
        nonlocal com, cur, clean
        if ok:
            com = dict(cur)
        cur = dict(com)
        created.clear()
        del sps[:]
        clean = True

    for _ in range(size):
        r = rng.random()
        linked = [s for s in SLOTS if cur.get(s) == 'linked']
        free = [s for s in SLOTS if s not in cur]
        if linked and rng.random() < 0.07:
            q = rng.random()
            s = rng.choice(linked)
            if q < 0.3:
                ops.append(['move', s])                      # the blob moves to another container (and back)
                clean = False
            elif q < 0.5:
                ops.append(['modes', s])                     # readers / writer handles, committed(), open('c')
                clean = False
            elif q < 0.75:
                free2 = [x for x in SLOTS if x not in cur]
                if free2:
                    d2 = rng.choice(free2)
                    ops.append(['expimp', s, d2])            # exportFile + importFile of the blob
                    cur[d2] = 'linked'
                    created.add(d2)
                    clean = False
            else:
                ops.append(['cache', rng.choice(['min', 'gc', 'sync'])])
            continue
        if r < 0.14 and free:
            s = rng.choice(free)
            ops.append(['new', s, gen_data(rng)])
            cur[s] = 'linked'
            created.add(s)
            clean = False
        elif r < 0.40 and linked:
            ops.append(['write', rng.choice(linked), rng.choice(['w', 'w', 'a', 'a', 'r+']), gen_data(rng)])
            clean = False
        elif r < 0.45 and linked:
            if rng.random() < 0.3:
                # a consumeFile that fails, the program goes on with the blob
                ops.append(['badconsume', rng.choice(linked), rng.choice(['missing', 'missing', 'dir', 'copyfail'])])
            else:
                ops.append(['consume', rng.choice(linked), gen_data(rng)] + (['exdev'] if rng.random() < 0.3 else []))
                clean = False
        elif r < 0.47 and clean and flavor != 'wrap' and ncommit and rng.random() < 0.25:
            ops.append(['reopen'])
        elif r < 0.47 and clean and rng.random() < 0.4:
            # commit attempted with the blob still open for writing (ValueError), close, abort, retry
            s = rng.choice(SLOTS)
            ops.append(['openretry', s, gen_data(rng)])
            if s not in cur:
                cur[s] = 'linked'
            end_txn(True)
            ncommit += 1
        elif r < 0.485:
            ops.append(['mdbwrite', rng.choice(['w', 'a', 'r+']), gen_data(rng)])   # only in multi-database cases
            clean = False
        elif r < 0.50:
            ops.append(['plain', rng.randrange(9)])
            clean = False
        elif r < 0.55:
            cands = [s for s in linked if (s not in created and s in com) or (s in created and rng.random() < 0.5)]
            back = [s for s in SLOTS if cur.get(s) == 'unlinked']
            if back and (not cands or rng.random() < 0.5):
                s = rng.choice(back)
                ops.append(['relink', s])
                cur[s] = 'linked'
                clean = False
            elif cands:
                s = rng.choice(cands)
                ops.append(['unlink', s])
                cur[s] = 'unlinked'
                clean = False
        elif r < 0.61 and [s for s in SLOTS if com.get(s) == 'linked']:
            q = rng.random()
            if q < 0.6:
                ops.append(['c1write', rng.choice([s for s in SLOTS if com.get(s) == 'linked']),
                            rng.choice(['w', 'a', 'r+']), gen_data(rng)])
            elif q < 0.85:
                ops.append(['c1commit'])
            else:
                ops.append(['c1abort'])
        elif r < 0.66:
            ops.append(['sp'])
            sps.append((dict(cur), set(created)))
        elif r < 0.70 and sps:
            i = rng.randrange(len(sps))
            ops.append(['rollback', i])
            cur, cr = dict(sps[i][0]), set(sps[i][1])
            created.clear()
            created.update(cr)
            del sps[i + 1:]
        elif r < 0.79:
            il = None
            cl = [s for s in SLOTS if com.get(s) == 'linked']
            if cl and rng.random() < 0.25:
                il = [rng.choice(cl), gen_data(rng)]
            ops.append(['commit', il] + (['exdev'] if rng.random() < 0.06 else []))
            end_txn(True)
            ncommit += 1
        elif r < 0.83:
            ops.append(['abort'])
            end_txn(False)
        elif r < 0.89:
            if flavor == 'wrap' and rng.random() < 0.3:
                ops.append(['failfinish'])              # the wrapped storage's tpc_finish raises
            else:
                ops.append(['failcommit', rng.choice(['begin', 'commit', 'commit', 'vote', 'vote']),
                            rng.choice([0, 0, 1])])
            end_txn(False)
        elif r < 0.91:
            # raw fault (OSError) at the k-th mutating file operation of the commit; may or may not fail it
            ops.append(['faultcommit', rng.randrange(1, 9)])
            end_txn(True)
            ncommit += 1
        elif r < 0.96 and ncommit and flavor != 'wrap':
            if not clean:
                ops.append(['commit', None])
                end_txn(True)
            ops.append(['undo', rng.choice([1, 1, 1, 2, 3])] + ([rng.choice([1, 1, 2])] if rng.random() < 0.35 else []))
            # the symbolic view may now be off (un-creation, relinking): forget what is uncertain
            clean = True
            if rng.random() < 0.5:
                # make the undo (and maybe a redo) revision non-current, then pack after it
                if rng.random() < 0.4:
                    ops.append(['undo', 1])
                for s in [x for x in SLOTS if cur.get(x) == 'linked'][:2]:
                    ops.append(['write', s, rng.choice(['w', 'a']), gen_data(rng)])
                ops.append(['commit', None])
                end_txn(True)
                ops.append(['pack', rng.choice([0, 0, 1])])
        elif ncommit:
            if not clean:
                ops.append(['commit', None])
                end_txn(True)
            if flavor != 'wrap' and rng.random() < 0.3:
                ops.append(['failpack'])                    # abandoned pack (disk full), then …
            ops.append(['pack', rng.randrange(0, 6)] + (['days'] if rng.random() < 0.2 else []))
            clean = True
    ops.append(['commit', None])
    return dict(level='db', flavor=flavor, keep_old=rng.random() < 0.4, gc=rng.random() < 0.7,
                copy=rng.random() < 0.2, ops=ops)


OID_BASES = [0, 0, 0, 0xfffe, 0xffff, 2 ** 32 + 5, 0x00ff00ff00fe, 0x7fffffffffffff00, 2 ** 63 + 0xfd]


def add_construction(c, rng):
    """construction paths: blob directory layout (pre-existing directory with a marker), the storage built by
    ZODB.config from text, non-default DB options, oids with 0xff / 0x00 bytes and beyond 2^16 / 2^32 / 2^63"""
    c['layout'] = rng.choice([None, None, 'lawn', 'bushy'])
    c['cfg'] = rng.random() < 0.3
    c['oid_base'] = rng.choice(OID_BASES)
    if c.get('level') == 'db':
        c['dbo'] = rng.choice([None, None, dict(pool_size=1, cache_size=1, historical_pool_size=1),
                               dict(large_record_size=10, cache_size=3, historical_cache_size=1),
                               dict(pool_size=2, cache_size_bytes=200, historical_timeout=1)])


def gen_case(rng, flavor=None, size=None):
    c = _gen_case(rng, flavor, size)
    add_construction(c, rng)
    c['mdb'] = rng.random() < 0.25          # a multi-database group with a second blob database
    if c['flavor'] == 'fs':
        # a record-transforming wrapper (hexstorage) between the DB and the FileStorage
        c['hex'] = rng.random() < 0.3
        # at the end: first read of every blob through a fresh DemoStorage over this storage
        c['demo'] = rng.random() < 0.3
    return c


def apply_mode(mode, cur, data):
    """what a Python file opened with `mode` on a copy of `cur` holds after write(data)"""
    if mode == 'w':
        return data
    if mode == 'a':
        return cur + data
    return data + cur[len(data):]          # 'r+': overwrite from offset 0


class Boom(Exception):
    pass


class FailRM:
    """a second resource manager that makes the commit fail at a chosen phase"""

    def __init__(self, phase, first, hook):
        self.phase, self.first, self.hook = phase, first, hook

    def sortKey(self):
        return '!' if self.first else '~~~~'

    def _maybe(self, phase):
        if phase == self.phase:
            self.hook(phase)
            raise Boom(phase)

    def tpc_begin(self, txn):
        self._maybe('begin')

    def commit(self, txn):
        self._maybe('commit')

    def tpc_vote(self, txn):
        self._maybe('vote')

    def tpc_finish(self, txn):
        pass

    def tpc_abort(self, txn):
        pass

    def abort(self, txn):
        pass


# ---------------------------------------------------------------- runner + oracle
def run_case(case, root):
    import transaction
    from persistent.mapping import PersistentMapping
    from ZODB.blob import Blob
    from ZODB.TimeStamp import TimeStamp
    import clock

    flavor = case['flavor']
    problems, stats = [], {}
    nontrivial = [False]

    def cnt(k):
        stats[k] = stats.get(k, 0) + 1

    def bad(sig, what):
        if len(problems) < 12 and sum(1 for s0, _ in problems if s0 == sig) < 2:
            problems.append((sig, what))

    import tempfile as _tempfile
    _saved_tempdir = _tempfile.tempdir
    _tempfile.tempdir = root            # new Blob objects keep their first working file in the temp directory
    with clock.scripted():
        import warnings
        warnings.simplefilter('ignore')
        env = Env(os.path.join(root, 'db'), flavor, keep_old=case.get('keep_old', False),
                  pack_gc=case.get('gc', True), hex=bool(case.get('hex')), layout=case.get('layout'),
                  via_config=bool(case.get('cfg')), oid_base=case.get('oid_base', 0), db_opts=case.get('dbo'))
        try:
            mdb = None
            if case.get('mdb'):
                # a second database with its own blob storage (the other kind) in the same multi-database group:
                # transactions may span both (oracle only for the second one)
                import ZODB
                import ZODB.blob
                from ZODB.FileStorage import FileStorage as _FS
                from ZODB.MappingStorage import MappingStorage as _MS
                dbs = {}
                env.db_opts.update(databases=dbs, database_name='main')
                od = os.path.join(root, 'mdb')
                os.makedirs(od)
                ost = (ZODB.blob.BlobStorage(os.path.join(od, 'blobs'), _MS()) if flavor == 'fs' else
                       _FS(os.path.join(od, 'Data.fs'), blob_dir=os.path.join(od, 'blobs')))
                mdb = dict(db=ZODB.DB(ost, databases=dbs, database_name='other'), dir=os.path.join(od, 'blobs'),
                           committed=None, nrev=0)
            db = env.open_db()
            tm0 = transaction.TransactionManager()
            c0 = db.open(tm0)
            r0 = c0.root()
            r0['p'] = PersistentMapping()
            tm0.commit()
            scratch = os.path.join(root, 'scratch')
            os.makedirs(scratch)

            objs = {}                   # slot -> Blob object of connection 0
            files = {}                  # ledger: (oid, tid) -> bytes of committed, unpacked blob revisions
            hist = {}                   # oid -> [(tid, bytes | None)]
            gone = set()
            txns = []                   # dict(tid, oids={oid: slot}, root_before=dict|None)
            packed_to = [0]
            C = dict(bytes={}, linked={})        # committed: slot -> bytes ; slot -> oid
            V = dict(bytes={}, linked=set(), dirty=set(), created=set(), root=False, since_sp=set())
            sps = []                    # [(savepoint, snapshot)]
            faulted = [False]
            nbad = [0]
            slot_oid = {}
            dupkeys = set()
            oid_hint = {}
            # a second long-lived connection with its own uncommitted working copies
            tm1 = transaction.TransactionManager()
            c1 = db.open(tm1)
            W1 = dict(bytes={}, objs={}, snap_bytes={}, snap_linked={})
            F0, F1 = set(), set()       # oids committed by others since connection 0's / 1's transaction began
            ev_mark = [len(env.rec.events), 0]

            objlayer = not any(isinstance(x, str) and x.startswith('R') for o in case['ops'] for x in o
                               if o[0] in ('new', 'write', 'consume', 'c1write')) and \
                not any(o[0] == 'commit' and o[1] and o[1][1].startswith('R') for o in case['ops'])

            def hexs(b):
                return b.hex() if b else '-'

            def emit(line, obs):
                if objlayer:
                    env._emit(line, obs)

            def reset_view():
                emit('sp.reset', 'ok')
                for sl in sorted(C['bytes']):
                    emit('obj.load %s %s' % (sl[1], hexs(C['bytes'][sl])), 'ok')
                V['since_sp'] = set()
                V['owork'] = None
                V['base'] = dict(C['bytes'])      # what the base storage shows this connection's snapshot
                V['bytes'] = dict(C['bytes'])
                V['linked'] = set(C['linked'])
                V['dirty'], V['created'], V['root'] = set(), set(), False
                del sps[:]

            def snap():
                return (dict(V['bytes']), set(V['linked']), set(V['dirty']), set(V['created']), V['root'],
                        V.get('owork'))

            def commit0():
                """commit connection 0's transaction (it may span the second database)"""
                try:
                    tm0.commit()
                except BaseException:
                    V['owork'] = None
                    raise
                if mdb is not None and V.get('owork') is not None:
                    mdb['committed'] = V['owork']
                    mdb['nrev'] += 1
                    nontrivial[0] = nontrivial[0] or mdb['nrev'] > 1
                V['owork'] = None

            def check_other_db(after):
                if mdb is None:
                    return
                n = sum(1 for dp, _, fn in os.walk(mdb['dir']) for f2 in fn if f2.endswith('.blob'))
                if n != mdb['nrev']:
                    bad('C13:second-database-blob-files', 'the second database of the group holds %d blob files for %d '
                        'committed revisions (after %s)' % (n, mdb['nrev'], after))
                if mdb['committed'] is not None:
                    tmx = transaction.TransactionManager()
                    cx = mdb['db'].open(tmx)
                    try:
                        got = read_blob(cx.root()['x'])
                        if got != mdb['committed']:
                            bad('C13:second-database-wrong-bytes', 'second database reads %r, committed %r (after %s)'
                                % (got[:40], mdb['committed'][:40], after))
                    except Exception as e:
                        bad('C13:read-error', 'reading the blob of the second database after %s raised %s: %s'
                            % (after, type(e).__name__, str(e)[:100]))
                    finally:
                        tmx.abort()
                        cx.close()

            def prev_bytes(oid, tid):
                older = [(t, b) for t, b in hist.get(oid, []) if t < tid]
                if not older:
                    return True, None
                t, b = older[-1]
                if (oid, t) in gone:
                    return False, None
                return True, b

            def read_blob(b):
                with b.open('r') as f:
                    return f.read()

            def at(rt, slot):
                """the blob of a slot: held by the root, or (after a 'move') by the mapping root['p']"""
                return rt[slot] if slot in rt else rt['p'][slot]

            def guard():
                """no raw write / truncate / create / writable open on, and no rename onto, a file that is a
                committed blob file at this moment"""
                evs = env.rec.events[ev_mark[0]:]
                opens = env.blobfile_opens[ev_mark[1]:]
                ev_mark[0], ev_mark[1] = len(env.rec.events), len(env.blobfile_opens)
                for e in evs:
                    if e[0] in ('create', 'write', 'trunc'):
                        k = env.blob_key(e[1])
                        if k in files:
                            bad('C13:committed-file-written', 'raw %s on committed blob file %r' % (e[0], k))
                    elif e[0] in ('rename', 'link') and e[2]:
                        k = env.blob_key(e[2])
                        if k in files:
                            bad('C13:rename-onto-committed', '%s onto committed blob file %r' % (e[0], k))
                for path, mode in opens:
                    k = env.blob_key(path)
                    if k in files and mode != 'r':
                        bad('C13:committed-file-written', 'committed blob file %r opened with mode %r' % (k, mode))

            def check_disk(after, inflight=False):
                got, stray = env.scan()
                if stray:
                    bad('C13:stray-file', 'unexpected files in the blob directory after %s: %r' % (after, stray))
                for k, b in list(files.items()):
                    if k not in got:
                        if after == 'pack':
                            dup = flavor == 'fs' and k in dupkeys
                            unloadable = False
                            if flavor == 'wrapfs':
                                # _packUndoing keeps a file iff loadSerial(oid, tid) succeeds.  A record that the base
                                # pack kept ONLY as the target of a back pointer from after the pack time is listed by
                                # the iterator but cannot be loaded any more (no prev chain leads to it): its file goes
                                try:
                                    env.storage.loadSerial(p64(k[0]), p64(k[1]))
                                except Exception:
                                    unloadable = True
                            if unloadable:
                                cnt('wrapfs:pack-removed-file-of-unloadable-back-pointer-target')
                                del files[k]
                                gone.add(k)
                            elif dup:
                                # superseded duplicate record in a multi-undo transaction, kept through a back pointer
                                # from after the pack time (corpus/C13/repro_pack_duplicate_undo_record.py)
                                bad('C13:pack-removes-blob-of-duplicated-record', 'pack removed the blob file of kept '
                                    'revision %r: its transaction holds a superseded duplicate record' % (k,))
                                faulted[0] = True          # the model (one record per oid and transaction) does not follow
                            else:
                                bad('C13:nonundo-pack-removes-kept-blob' if flavor == 'wrap' else
                                    'C13:pack-removes-kept-blob:undo-capable-base' if flavor == 'wrapfs' else
                                    'C13:pack-removes-kept-blob',
                                    'pack removed the blob file of revision %r whose record is kept' % (k,))
                            if flavor == 'wrap' or dup:
                                # open finding (keep-only-the-latest pack of the non-undo wrapper): take the
                                # loss into the ledger so that it is reported once, not at every later check
                                del files[k]
                                gone.add(k)
                        else:
                            bad('C13:committed-blob-missing', 'blob file %r missing after %s' % (k, after))
                    elif got[k] != b:
                        bad('C13:blob-bytes-differ', 'blob file %r holds %r, written %r (after %s)'
                            % (k, got[k][:40], b[:40], after))
                for k in got:
                    if k not in files and not inflight:
                        if flavor == 'wrapfs' and k in {(o, t) for o, t, kd in env.records() if kd == 'none'}:
                            # by design of the legacy wrapper: undoing a creation keeps a copy of the blob under the
                            # undo tid "in case a user wishes to undo this undo" (the record is an un-creation)
                            cnt('wrapfs:uncreation-keeps-copy')
                            continue
                        if env.intruder_aborted:
                            bad('C13:abort-before-vote-leaves-blob', 'blob file %r of a transaction that began while '
                                'another one was in tpc_finish (dirty list reset outside the commit lock) and was then '
                                'aborted is left in the blob directory' % (k,))
                        elif after == 'pack':
                            bad('C13:pack-keeps-removed-blob',
                                'file %r of a revision removed by pack is still there' % (k,))
                        elif after.startswith('failcommit') or after in ('abort', 'conflict', 'undo-failed', 'c1abort'):
                            sig = 'C13:abort-before-vote-leaves-blob'
                            if after in ('failcommit-vote-0', 'failcommit-finish'):
                                sig = 'C13:abort-after-vote-leaves-blob'
                            bad(sig, 'blob file %r of the failed/aborted transaction is left in the blob '
                                'directory (after %s)' % (k, after))
                        else:
                            bad('C13:file-without-record', 'blob file %r without committed record after %s'
                                % (k, after))

            def check_other_connection(after):
                """a fresh connection sees exactly the committed bytes, never uncommitted ones"""
                tmx = transaction.TransactionManager()
                cx = db.open(tmx)
                try:
                    rx = cx.root()
                    for slot in sorted(C['linked']):
                        try:
                            data = read_blob(at(rx, slot))
                        except Exception as e:
                            bad('C13:read-error', 'reading committed blob %s in a second connection after %s '
                                'raised %s: %s' % (slot, after, type(e).__name__, str(e)[:120]))
                            continue
                        want = C['bytes'][slot]
                        try:
                            with at(rx, slot).open('c') as f:          # the committed file itself
                                data_c = f.read()
                            if data_c != data:
                                bad('C13:second-connection-wrong-bytes', "open('c') of %s reads %r, open('r') %r"
                                    % (slot, data_c[:40], data[:40]))
                        except Exception as e:
                            bad('C13:read-error', "open('c') of committed blob %s after %s raised %s: %s"
                                % (slot, after, type(e).__name__, str(e)[:120]))
                        if data != want:
                            mine = V['bytes'].get(slot)
                            sig = 'C13:uncommitted-visible' if data == mine and mine != want else \
                                'C13:second-connection-wrong-bytes'
                            bad(sig, 'second connection read %r for %s after %s, committed %r'
                                % (data[:40], slot, after, want[:40]))
                finally:
                    tmx.abort()
                    cx.close()

            def check_own_view(after):
                for slot in sorted(V['linked']):
                    b = objs.get(slot)
                    if b is None:
                        continue
                    try:
                        data = read_blob(b)
                    except Exception as e:
                        bad('C13:read-error', 'reading blob %s in its own connection after %s raised %s: %s'
                            % (slot, after, type(e).__name__, str(e)[:120]))
                        continue
                    if data != V['bytes'][slot]:
                        sig = 'C13:savepoint-rollback-keeps-later-blob-bytes' if after == 'rollback' else \
                            'C13:working-copy-bytes'
                        bad(sig, 'connection reads %r for %s after %s, expected %r'
                            % (data[:40], slot, after, V['bytes'][slot][:40]))

            def check_c1_view(after):
                for slot, want in sorted(W1['bytes'].items()):
                    try:
                        data = read_blob(W1['objs'][slot])
                    except Exception as e:
                        bad('C13:read-error', 'second connection reading its working copy of %s after %s raised %s: %s'
                            % (slot, after, type(e).__name__, str(e)[:120]))
                        continue
                    if data != want:
                        bad('C13:working-copy-bytes', 'second connection reads %r for its working copy of %s after %s, '
                            'expected %r' % (data[:40], slot, after, want[:40]))

            def c1_drop():
                tm1.abort()
                W1['bytes'].clear()
                W1['objs'].clear()

            def check_history(after):
                """historical snapshots: db.open(at=tid) reads the bytes of the revision current then"""
                done = 0
                for t in reversed(txns):
                    if done >= 2 or t['tid'] <= packed_to[0]:
                        break
                    linked = t['linked_after']
                    if not linked:
                        continue
                    done += 1
                    cx = db.open(at=p64(t['tid']))
                    try:
                        rx = cx.root()
                        for slot, oid in sorted(linked.items()):
                            revs = [(tt, b) for tt, b in hist.get(oid, []) if tt <= t['tid']]
                            if not revs or revs[-1][1] is None or (oid, revs[-1][0]) in gone:
                                continue
                            try:
                                data = read_blob(at(rx, slot))
                            except Exception as e:
                                bad('C13:historical-read-error', 'snapshot at %d: reading %s raised %s: %s (after %s)'
                                    % (t['tid'], slot, type(e).__name__, str(e)[:100], after))
                                continue
                            if data != revs[-1][1]:
                                bad('C13:historical-bytes-differ', 'snapshot at %d reads %r for %s, that revision '
                                    'was written as %r' % (t['tid'], data[:40], slot, revs[-1][1][:40]))
                    finally:
                        cx.close()

            def boundary(after):
                guard()
                if env.intruder_aborted:
                    check_disk('abort')        # a transaction begun during a finish and aborted: no file
                check_disk(after)
                check_other_connection(after)
                check_own_view(after)
                check_c1_view(after)
                check_history(after)
                check_other_db(after)
                left = [x for x in env.tmp_listing() if x.startswith('savepoints')]
                if left:
                    cnt('tmp-leftover-savepoint-dir')

            last_tid = [u64(db.lastTransaction())]

            def committed(tid, undo_of=None):
                """update ledger + committed view after a successful commit of connection 0"""
                last_tid[0] = tid
                oids = {}
                root_before = dict(C['linked']) if (V['root'] or undo_of is not None and
                                                    any(u['root_before'] is not None for u in undo_of)) else None
                if undo_of is None:
                    for slot in sorted(V['dirty'] | V['created']):
                        b = objs.get(slot)
                        if b is None and slot in V['linked']:
                            try:
                                b = objs[slot] = at(r0, slot)      # references were dropped before the commit
                            except KeyError:
                                b = None
                        if b is not None and b._p_oid is not None:
                            oid = u64(b._p_oid)
                        elif b is None and slot in oid_hint:
                            oid = oid_hint[slot]
                        else:
                            continue
                        data = V['bytes'][slot]
                        if oid in hist:
                            nontrivial[0] = True              # a blob is rewritten
                        files[(oid, tid)] = data
                        hist.setdefault(oid, []).append((tid, data))
                        C['bytes'][slot] = data
                        oids[oid] = slot
                        slot_oid[slot] = oid
                    for s2 in V['linked']:
                        if s2 not in objs:
                            try:
                                objs[s2] = at(r0, s2)
                            except KeyError:
                                pass
                    C['linked'] = {s: u64(objs[s]._p_oid) for s in V['linked'] if s in objs
                                   and objs[s]._p_oid is not None}
                else:
                    nontrivial[0] = True                      # undone
                    vals = {}                                 # the LAST undo of an object decides its bytes
                    for u in undo_of:
                        for oid, slot in u['oids'].items():
                            known, b = prev_bytes(oid, u['tid'])
                            if not known:
                                b = env.scan()[0].get((oid, tid))
                            if flavor == 'wrapfs' and isinstance(b, bytes):
                                # the legacy proxy's redo of an un-creation whose kept copy a pack has deleted commits a
                                # blob record without a file (corpus/C13/repro_legacy_proxy_redo_after_pack.py)
                                undone_val = [b2 for t2, b2 in hist.get(oid, []) if t2 == u['tid']]
                                on_disk = env.scan()[0]
                                if undone_val and undone_val[0] is None and (oid, u['tid']) not in on_disk \
                                        and on_disk.get((oid, tid)) != b:
                                    bad('C13:legacy-proxy-redo-after-pack-loses-blob', 'redo of the un-creation %r after a pack: the wrapper copied no blob file for '
                                        'the restored revision' % ((oid, u['tid']),))
                                    b = on_disk.get((oid, tid))      # (what is there is taken into the ledger: no cascade)
                            vals[oid] = (slot, b)
                        if u['root_before'] is not None:
                            C['linked'] = dict(u['root_before'])
                    for oid, (slot, b) in vals.items():
                        hist.setdefault(oid, []).append((tid, b))
                        oids[oid] = slot
                        slot_oid[slot] = oid
                        if b is not None:
                            files[(oid, tid)] = b
                            C['bytes'][slot] = b
                        else:
                            C['bytes'].pop(slot, None)
                    # an undo can bring back a root that references an object a previous undo has un-created
                    # (C06's subject): a dangling reference, nothing to read there
                    for slot, oid in list(C['linked'].items()):
                        if hist.get(oid) and hist[oid][-1][1] is None:
                            del C['linked'][slot]
                            C['bytes'].pop(slot, None)
                            cnt('undo:dangling-reference')
                    # a slot may name another object now (creation undone, an earlier object of the slot redone)
                    for slot, oid in C['linked'].items():
                        if hist.get(oid) and hist[oid][-1][1] is not None:
                            C['bytes'][slot] = hist[oid][-1][1]
                txns.append(dict(tid=tid, oids=oids, root_before=root_before, linked_after=dict(C['linked'])))
                reset_view()
                # identity of the objects now linked (observation of identity only)
                for slot in list(objs):
                    if slot not in C['bytes']:
                        del objs[slot]
                c0.sync()
                for slot, oid in C['linked'].items():
                    if slot in objs and objs[slot]._p_oid != p64(oid):
                        del objs[slot]                      # the slot names another object now
                for slot in C['linked']:
                    if slot not in objs:
                        try:
                            objs[slot] = at(r0, slot)
                        except KeyError:
                            pass

            def aborted():
                for slot in list(V['created']):
                    objs.pop(slot, None)
                reset_view()
                for slot in C['linked']:
                    if slot not in objs:
                        try:
                            objs[slot] = at(r0, slot)
                        except KeyError:
                            pass

            def free_slot(slot):
                return slot not in objs

            def mid_commit(phase):
                guard()
                check_disk('mid-' + phase, inflight=True)
                check_other_connection('mid-' + phase)

            def interloper(slot, data):
                tmi = transaction.TransactionManager()
                ci = db.open(tmi)
                try:
                    b = at(ci.root(), slot)
                    with b.open('w') as f:
                        f.write(data)
                    tmi.commit()
                    guard()
                    tid = u64(db.lastTransaction())
                    last_tid[0] = tid
                    oid = C['linked'][slot]
                    F1.add(oid)
                    files[(oid, tid)] = data
                    hist.setdefault(oid, []).append((tid, data))
                    C['bytes'][slot] = data
                    txns.append(dict(tid=tid, oids={oid: slot}, root_before=None,
                                     linked_after=dict(C['linked'])))
                    nontrivial[0] = True
                finally:
                    ci.close()

            reset_view()
            for op in case['ops']:
                kind = op[0]
                try:
                    if kind == 'new':
                        slot = op[1]
                        if not free_slot(slot) or slot in V['linked']:
                            cnt('skip')
                            continue
                        data = decode_data(op[2])
                        b = Blob()
                        with b.open('w') as f:
                            f.write(data)
                        emit('obj.new %s' % slot[1], 'ok')
                        emit('obj.write %s w %s' % (slot[1], hexs(data)), hexs(read_blob(b)))
                        V['since_sp'].add(slot)
                        r0[slot] = b
                        objs[slot] = b
                        V['bytes'][slot] = data
                        V['linked'].add(slot)
                        V['created'].add(slot)
                        V['root'] = True
                    elif kind == 'badconsume':
                        # consumeFile that FAILS (the application catches the error and goes on): the blob must be
                        # exactly what it was — committed data, or its uncommitted working copy
                        slot = op[1]
                        if slot not in objs or slot not in V['linked']:
                            cnt('skip')
                            continue
                        import errno
                        import ZODB.utils
                        b = objs[slot]
                        how = op[2]
                        nbad[0] += 1
                        src = os.path.join(scratch, 'nosuch%d' % nbad[0])
                        real_rename, real_cp = os.rename, ZODB.utils.cp
                        if how != 'missing':
                            if how == 'dir':
                                os.makedirs(src)                   # a directory, reached through the copy fall-back
                            else:
                                with open(src, 'wb') as f:
                                    f.write(b'never to be seen')

                            def rename_exdev1(a_, b_2, *aa, **kk):
                                if a_ == src:
                                    raise OSError(errno.EXDEV, 'Invalid cross-device link (injected)')
                                return real_rename(a_, b_2, *aa, **kk)
                            os.rename = rename_exdev1
                            if how == 'copyfail':                  # the copy dies after the target was created
                                def cp_fail(*aa, **kk):
                                    raise OSError(errno.ENOSPC, 'No space left on device (injected)')
                                ZODB.utils.cp = cp_fail
                        try:
                            try:
                                b.consumeFile(src)
                                bad('C13:consume-file', 'consumeFile of a %s source did not fail' % how)
                            except Exception:
                                cnt('badconsume:' + how)
                        finally:
                            os.rename, ZODB.utils.cp = real_rename, real_cp
                            if os.path.isdir(src):
                                os.rmdir(src)
                            elif os.path.exists(src):
                                os.remove(src)
                        guard()
                        check_disk(kind)
                        check_own_view(kind)
                        f = None
                    elif kind in ('write', 'consume'):
                        slot = op[1]
                        if slot not in objs or slot not in V['linked']:
                            cnt('skip')
                            continue
                        b = objs[slot]
                        if kind == 'write':
                            data = decode_data(op[3])
                            with b.open(op[2]) as f:
                                f.write(data)
                            V['bytes'][slot] = apply_mode(op[2], V['bytes'][slot], data)
                            emit('obj.write %s %s %s' % (slot[1], op[2], hexs(data)), hexs(read_blob(b)))
                        else:
                            data = decode_data(op[2])
                            fn = os.path.join(scratch, 'consume%d' % len(env.rec.events))
                            with open(fn, 'wb') as f:
                                f.write(data)
                            if len(op) > 3 and op[3] == 'exdev':
                                # the file to consume lives on another file system: rename fails, copy + remove
                                import errno
                                real_rename = os.rename

                                def rename_once(a_, b_2, *aa, **kk):
                                    if a_ == fn:
                                        os.rename = real_rename
                                        raise OSError(errno.EXDEV, 'Invalid cross-device link (injected)')
                                    return real_rename(a_, b_2, *aa, **kk)
                                os.rename = rename_once
                                try:
                                    b.consumeFile(fn)
                                finally:
                                    os.rename = real_rename
                                cnt('consume:exdev')
                            else:
                                b.consumeFile(fn)
                            if os.path.exists(fn):
                                bad('C13:consume-file', 'the consumed file is still there')
                            V['bytes'][slot] = data
                            emit('obj.consume %s %s' % (slot[1], hexs(data)), hexs(read_blob(b)))
                        V['dirty'].add(slot)
                        V['since_sp'].add(slot)
                    elif kind == 'plain':
                        r0['p']['k'] = op[1]
                    elif kind == 'unlink':
                        slot = op[1]
                        if slot not in V['linked'] or (slot not in C['bytes'] and slot not in V['created']):
                            cnt('skip')
                            continue
                        if slot in V['created']:
                            cnt('unlink:created-in-this-transaction')
                        if slot in r0:
                            del r0[slot]
                        else:
                            del r0['p'][slot]
                        V['linked'].discard(slot)
                        V['root'] = True
                    elif kind == 'move':
                        slot = op[1]
                        if slot not in V['linked'] or slot not in objs:
                            cnt('skip')
                            continue
                        if slot in r0:                      # root -> the mapping below it, or back
                            r0['p'][slot] = r0[slot]
                            del r0[slot]
                        else:
                            r0[slot] = r0['p'][slot]
                            del r0['p'][slot]
                        V['root'] = True
                    elif kind == 'cache':
                        if op[1] == 'min':
                            c0.cacheMinimize()
                        elif op[1] == 'gc':
                            c0.cacheGC()
                        elif not (V['dirty'] or V['created'] or V['root'] or V.get('owork') is not None):
                            c0.sync()
                            F0.clear()
                            reset_view()
                        check_own_view('cache')
                    elif kind == 'modes':
                        slot = op[1]
                        if slot not in V['linked'] or slot not in objs or slot in V['dirty'] or slot in V['created'] \
                                or slot not in C['bytes']:
                            cnt('skip')
                            continue
                        from ZODB.interfaces import BlobError
                        b = objs[slot]
                        want = V['bytes'][slot]

                        def refused(what, fn2):
                            try:
                                h = fn2()
                            except BlobError:
                                return
                            except Exception as e:
                                bad('C13:blob-api', '%s raised %s instead of BlobError' % (what, type(e).__name__))
                                return
                            try:
                                h.close()
                            except Exception:
                                pass
                            bad('C13:blob-api', '%s was not refused' % what)
                        h1, h2 = b.open('r'), b.open('r')           # several readers at once
                        try:
                            if h1.read() != want or h2.read() != want:
                                bad('C13:working-copy-bytes', 'two readers of %s do not both read the committed bytes' % slot)
                            refused("open('w') while readers are open", lambda: b.open('w'))
                        finally:
                            h1.close()
                            h2.close()
                        with open(b.committed(), 'rb') as f:        # the committed file's name
                            if f.read() != want:
                                bad('C13:blob-bytes-differ', 'committed() of %s names a file with other bytes' % slot)
                        with b.open('c') as f:
                            if f.read() != want:
                                bad('C13:blob-bytes-differ', "open('c') of %s reads other bytes" % slot)
                        h1 = b.open('a')                            # a writer: working copy = copy of the committed data
                        try:
                            refused("open('r') while a writer is open", lambda: b.open('r'))
                            refused("a second writer", lambda: b.open('w'))
                        finally:
                            h1.close()
                        refused('committed() with uncommitted changes', lambda: open(b.committed(), 'rb'))
                        refused("open('c') with uncommitted changes", lambda: b.open('c'))
                        try:
                            type('SubBlob', (Blob,), {})()
                            bad('C13:blob-api', 'a Blob subclass could be instantiated')
                        except TypeError:
                            pass
                        h1 = h2 = None
                        V['dirty'].add(slot)
                        V['since_sp'].add(slot)
                        emit('obj.write %s a -' % slot[1], hexs(read_blob(b)))
                    elif kind == 'expimp':
                        src, dst = op[1], op[2]
                        if src not in C['linked'] or src not in V['linked'] or src in V['dirty'] or src not in objs \
                                or dst in objs or dst in V['linked']:
                            cnt('skip')
                            continue
                        fn = os.path.join(scratch, 'export%d' % len(env.rec.events))
                        with open(fn, 'wb') as f:
                            c0.exportFile(objs[src]._p_oid, f)
                        with open(fn, 'rb') as f:
                            nb = c0.importFile(f)         # (takes a savepoint: everything changed so far is stored)
                        for sl in sorted(V['since_sp']):
                            if sl in objs:
                                emit('sp.store %s 1' % sl[1], 'ok')
                        V['since_sp'] = set()
                        if not isinstance(nb, Blob):
                            bad('C13:import-export', 'importFile of an exported blob returned %r' % (type(nb),))
                            continue
                        r0[dst] = nb
                        objs[dst] = nb
                        V['bytes'][dst] = V['bytes'][src]
                        V['linked'].add(dst)
                        V['created'].add(dst)
                        V['root'] = True
                        # the import stored the copy in the savepoint storage
                        emit('obj.new %s' % dst[1], 'ok')
                        emit('obj.write %s w %s' % (dst[1], hexs(V['bytes'][dst])), hexs(read_blob(nb)))
                        emit('sp.store %s 1' % dst[1], 'ok')
                        nb = None
                    elif kind == 'relink':
                        slot = op[1]
                        if slot in V['linked'] or slot not in objs or slot not in C['bytes']:
                            cnt('skip')
                            continue
                        r0[slot] = objs[slot]
                        V['linked'].add(slot)
                        V['root'] = True
                    elif kind == 'sp':
                        sp = tm0.savepoint()
                        for sl in sorted(V['since_sp']):
                            if sl in objs:
                                emit('sp.store %s 1' % sl[1], 'ok')
                        V['since_sp'] = set()
                        emit('sp.take %d' % len(sps), 'ok')
                        sps.append((sp, snap()))
                        guard()
                        check_disk('savepoint')
                        check_own_view('savepoint')
                    elif kind == 'rollback':
                        if op[1] >= len(sps):
                            cnt('skip')
                            continue
                        sp, sn = sps[op[1]]
                        del sps[op[1] + 1:]
                        sp.rollback()
                        for slot in V['created'] - sn[3]:
                            objs.pop(slot, None)
                        V['bytes'], V['linked'], V['dirty'], V['created'], V['root'] = \
                            dict(sn[0]), set(sn[1]), set(sn[2]), set(sn[3]), sn[4]
                        V['owork'] = sn[5]
                        V['since_sp'] = set()
                        emit('sp.rollback %d' % op[1], 'ok')
                        for sl in sorted(V['linked']):
                            if sl in objs:
                                try:
                                    got = hexs(read_blob(objs[sl]))
                                except Exception as e:
                                    got = errname(e)
                                emit('sp.load %s %s' % (sl[1], hexs(V['base'].get(sl, b''))), got)
                        guard()
                        check_disk('rollback')
                        check_own_view('rollback')
                    elif kind == 'commit':
                        conflict = any(s2 in objs and objs[s2]._p_oid is not None and u64(objs[s2]._p_oid) in F0
                                       for s2 in V['dirty'])
                        if op[1] is not None:
                            slot, data = op[1][0], decode_data(op[1][1])
                            if slot in C['linked'] and slot in C['bytes']:
                                interloper(slot, data)
                                conflict = conflict or slot in V['dirty']
                                if slot not in V['dirty'] and slot in V['bytes']:
                                    V['bytes'][slot] = data
                        stored_blob = bool(V['dirty'] | V['created'])
                        mine = {u64(objs[s2]._p_oid) for s2 in V['dirty'] if s2 in objs and objs[s2]._p_oid}
                        exdev_real = None
                        if len(op) > 2 and op[2] == 'exdev':
                            # the temp area and the blob directory on different file systems: every rename INTO the
                            # committed area fails with EXDEV, rename_or_copy_blob copies instead (oracle only)
                            import errno
                            exdev_real = os.rename
                            bd = env.blob_dir + os.sep

                            def rename_exdev(a_, b_2, *aa, **kk):
                                b3 = os.path.realpath(os.fspath(b_2))
                                if b3.startswith(bd) and not b3.startswith(bd + 'tmp' + os.sep):
                                    raise OSError(errno.EXDEV, 'Invalid cross-device link (injected)')
                                return exdev_real(a_, b_2, *aa, **kk)
                            os.rename = rename_exdev
                            faulted[0] = True
                            cnt('commit:exdev')
                        if len(op) > 2 and op[2] == 'min':
                            # drop every reference to the blob objects and minimise the cache before the commit:
                            # what a savepoint has stored must be committed from the savepoint storage alone
                            for s2, o2 in objs.items():
                                if o2._p_oid is not None:
                                    oid_hint[s2] = u64(o2._p_oid)
                            objs.clear()
                            b = f = fh = sp = None
                            import gc
                            c0.cacheMinimize()
                            gc.collect()
                            cnt('commit:minimized')
                        try:
                            try:
                                commit0()
                            finally:
                                if exdev_real is not None:
                                    os.rename = exdev_real
                        except Exception as e:
                            guard()
                            F0.clear()
                            cnt('commit:' + errname(e))
                            tm0.abort()
                            if stored_blob:
                                nontrivial[0] = True
                            aborted()
                            boundary('conflict')
                            if not conflict:
                                bad('C13:unexpected-commit-failure', 'commit raised %s: %s' % (type(e).__name__, str(e)[:100]))
                            continue
                        if conflict:
                            bad('C13:lost-conflict', 'commit succeeded although another connection had committed '
                                'the same blob')
                        guard()
                        F0.clear()
                        F1.update(mine)
                        tid = u64(db.lastTransaction())
                        if tid > last_tid[0]:
                            committed(tid)
                        else:
                            reset_view()                      # nothing was written: no storage transaction
                        boundary('commit')
                    elif kind == 'abort':
                        tm0.abort()
                        F0.clear()
                        aborted()
                        boundary('abort')
                    elif kind == 'failcommit':
                        stored_blob = bool(V['dirty'] | V['created'])
                        rm = FailRM(op[1], bool(op[2]), mid_commit)
                        tm0.get().join(rm)
                        try:
                            commit0()
                            bad('C13:harness', 'failing resource manager did not fail the commit')
                        except Boom:
                            pass
                        except Exception as e:
                            cnt('failcommit:' + errname(e))
                        tm0.abort()
                        F0.clear()
                        if stored_blob and not (op[1] == 'begin' or (op[1] == 'commit' and op[2])):
                            nontrivial[0] = True              # fails after storeBlob
                        aborted()
                        boundary('failcommit-%s-%d' % (op[1], op[2]))
                    elif kind == 'openretry':
                        slot = op[1]
                        if V['dirty'] or V['created'] or V['root'] or (slot in objs and slot not in V['linked']):
                            cnt('skip')
                            continue
                        tm0.abort()
                        F0.clear()
                        reset_view()                  # new snapshot: what other connections committed meanwhile is seen
                        if slot in objs and slot not in V['linked']:
                            cnt('skip')
                            continue
                        data = decode_data(op[2])
                        fresh = slot not in objs
                        if fresh:
                            b = Blob()
                            fh = b.open('w')
                            want = data
                        else:
                            b = objs[slot]
                            fh = b.open('a')
                            want = V['bytes'][slot] + data
                        try:
                            fh.write(data)
                            if fresh:
                                r0[slot] = b
                            try:
                                commit0()
                                bad('C13:commit-with-open-blob', 'commit succeeded although the blob was open for writing')
                            except ValueError:
                                cnt('openretry:refused')
                        finally:
                            fh.close()
                        tm0.abort()
                        F0.clear()
                        reset_view()                  # (again a new snapshot)
                        if not fresh:
                            want = V['bytes'][slot] + data
                        guard()
                        check_disk('abort')
                        # retry: the same data, the blob closed this time
                        if fresh:
                            r0[slot] = b
                            objs[slot] = b
                            V['linked'].add(slot)
                            V['created'].add(slot)
                            V['root'] = True
                            emit('obj.new %s' % slot[1], 'ok')
                        else:
                            check_own_view('abort')          # the working copy of the refused attempt is gone
                            with b.open('a') as f:
                                f.write(data)
                            V['dirty'].add(slot)
                        V['bytes'][slot] = want
                        commit0()
                        guard()
                        if objs[slot]._p_oid is not None:
                            F1.add(u64(objs[slot]._p_oid))     # committed by connection 0 while connection 1 may be at work
                        committed(u64(db.lastTransaction()))
                        boundary('commit')
                    elif kind == 'failfinish':
                        if flavor != 'wrap' or mdb is not None:
                            cnt('skip')
                            continue
                        stored_blob = bool(V['dirty'] | V['created'])
                        env.fail_next_finish()
                        try:
                            commit0()
                            cnt('failfinish:nothing-to-commit')
                        except FinishBoom:
                            if stored_blob:
                                nontrivial[0] = True          # fails after storeBlob (finish phase)
                        except Exception as e:
                            cnt('failfinish:' + errname(e))
                        finally:
                            env.clear_finish_failure()
                        tm0.abort()
                        F0.clear()
                        aborted()
                        boundary('failcommit-finish')
                    elif kind == 'faultcommit':
                        stored_blob = bool(V['dirty'] | V['created'])
                        mine = {u64(objs[s2]._p_oid) for s2 in V['dirty'] if s2 in objs and objs[s2]._p_oid}
                        expect_conflict = any(o in F0 for o in mine)
                        env.rec.nmut, env.rec.fail_at = 0, op[1]
                        nfault = sum(1 for e in env.rec.events if e[0] == 'fault')
                        try:
                            try:
                                commit0()
                                ok = True
                            finally:
                                env.rec.fail_at = None
                        except Exception as e:
                            ok = False
                            cnt('faultcommit:' + errname(e))
                            tm0.abort()
                        fevs = [e for e in env.rec.events if e[0] == 'fault'][nfault:]
                        fired = bool(fevs)
                        if fired:
                            faulted[0] = True
                            cnt('fault-fired')
                        if fired and not ok and fevs[0][2] in ('remove', 'rmdir'):
                            # the commit had failed for another reason (conflict) and the injected fault hit a REMOVE of
                            # the abort's own clean-up: a failing abort is not among the property's failure points —
                            # clear what it could not remove, not judged
                            cnt('fault:hit-cleanup-of-abort')
                            for k in [k for k in env.scan()[0] if k not in files]:
                                try:
                                    os.remove(env.storage.fshelper.getBlobFilename(p64(k[0]), p64(k[1])))
                                except OSError:
                                    pass
                        guard()
                        F0.clear()
                        if ok:
                            F1.update(mine)
                            tid = u64(db.lastTransaction())
                            if tid > last_tid[0]:
                                committed(tid)
                            else:
                                reset_view()
                            boundary('commit')
                        else:
                            if stored_blob:
                                nontrivial[0] = True
                            aborted()
                            boundary('failcommit-fault')
                            if not fired and not expect_conflict:
                                bad('C13:unexpected-commit-failure', 'commit failed without an injected fault')
                    elif kind == 'c1write':
                        slot = op[1]
                        if not W1['bytes']:
                            tm1.abort()                       # new snapshot for connection 1
                            F1.clear()
                            W1['snap_bytes'], W1['snap_linked'] = dict(C['bytes']), dict(C['linked'])
                        if slot not in W1['snap_linked'] or slot not in W1['snap_bytes']:
                            cnt('skip')
                            continue
                        data = decode_data(op[3])
                        b = W1['objs'].get(slot)
                        if b is None:
                            b = W1['objs'][slot] = at(c1.root(), slot)
                        base = W1['bytes'].get(slot, W1['snap_bytes'][slot])
                        with b.open(op[2]) as f:
                            f.write(data)
                        W1['bytes'][slot] = apply_mode(op[2], base, data)
                        guard()
                        check_disk(kind)
                        check_c1_view(kind)
                        check_own_view(kind)
                        check_other_connection(kind)
                    elif kind == 'c1abort':
                        c1_drop()
                        boundary('c1abort')
                    elif kind == 'c1commit':
                        if not W1['bytes']:
                            cnt('skip')
                            continue
                        oids1 = {slot: W1['snap_linked'][slot] for slot in W1['bytes']}
                        conflict = any(o in F1 for o in oids1.values())
                        try:
                            tm1.commit()
                        except Exception as e:
                            guard()
                            cnt('c1commit:' + errname(e))
                            c1_drop()
                            nontrivial[0] = True              # fails after storeBlob (or at its store)
                            boundary('conflict')
                            if not conflict:
                                bad('C13:unexpected-commit-failure', 'second connection: commit raised %s: %s'
                                    % (type(e).__name__, str(e)[:100]))
                            continue
                        guard()
                        if conflict:
                            bad('C13:lost-conflict', 'second connection committed over a newer revision of the blob')
                        tid = u64(db.lastTransaction())
                        last_tid[0] = tid
                        for slot, oid in oids1.items():
                            data = W1['bytes'][slot]
                            files[(oid, tid)] = data
                            hist.setdefault(oid, []).append((tid, data))
                            if C['linked'].get(slot) == oid or (slot in objs and objs[slot]._p_oid == p64(oid)):
                                C['bytes'][slot] = data
                            F0.add(oid)
                            nontrivial[0] = True              # rewritten
                        txns.append(dict(tid=tid, oids={o: s2 for s2, o in oids1.items()}, root_before=None,
                                         linked_after=dict(C['linked'])))
                        W1['bytes'].clear()
                        W1['objs'].clear()
                        boundary('c1commit')
                    elif kind == 'undo':
                        cands = [t for t in txns if t['tid'] > packed_to[0]]
                        if flavor == 'wrap' or not cands or V['dirty'] or V['created'] or V['root']:
                            cnt('skip')               # MappingStorage has no undo
                            continue
                        i0 = len(cands) - min(op[1], len(cands))
                        extra = op[2] if len(op) > 2 else 0
                        us = [cands[i] for i in range(i0, max(i0 - extra, 0) - 1, -1)]     # newest first
                        if len(us) > 1:
                            # excluded multi-undos: a later undo un-creates an object whose blob copy an earlier one
                            # of the same transaction has put in place (the code leaves that file), or a revision
                            # to restore was packed away
                            pend, skip = {}, False
                            for u in us:
                                for oid in u['oids']:
                                    known, b = prev_bytes(oid, u['tid'])
                                    if not known or (isinstance(pend.get(oid), bytes) and b is None):
                                        skip = True
                                    pend[oid] = b
                            if skip:
                                cnt('skip:multi-undo-uncreates')
                                continue
                        c1_drop()
                        tm0.abort()
                        F0.clear()
                        ids = [encodebytes(p64(u['tid'])).rstrip() for u in us]
                        if len(ids) == 1:
                            db.undo(ids[0], tm0.get())
                        else:
                            db.undoMultiple(ids, tm0.get())
                        try:
                            commit0()
                        except Exception as e:
                            cnt('undo:' + errname(e))
                            tm0.abort()
                            aborted()
                            boundary('undo-failed')
                            continue
                        guard()
                        if len(us) > 1:
                            cnt('multi-undo')
                            seen_o = [o for u in us for o in u['oids']]
                            if len(seen_o) != len(set(seen_o)):
                                cnt('multi-undo:same-object-twice')
                        committed(u64(db.lastTransaction()), undo_of=us)
                        boundary('undo')
                    elif kind == 'mdbwrite':
                        if mdb is None:
                            cnt('skip')
                            continue
                        data = decode_data(op[2])
                        co = c0.get_connection('other')
                        ro = co.root()
                        cur = V.get('owork')
                        if cur is None:
                            cur = mdb['committed']
                        if 'x' not in ro:
                            ob = Blob()
                            with ob.open('w') as f:
                                f.write(data)
                            ro['x'] = ob
                            V['owork'] = data
                        else:
                            with ro['x'].open(op[1]) as f:
                                f.write(data)
                            V['owork'] = apply_mode(op[1], cur or b'', data)
                        got = read_blob(ro['x'])
                        if got != V['owork']:
                            bad('C13:working-copy-bytes', 'blob of the second database reads %r, expected %r'
                                % (got[:40], V['owork'][:40]))
                        ob = ro = co = None
                        check_other_db(kind)
                    elif kind == 'reopen':
                        if flavor == 'wrap' or case.get('mdb') or V['dirty'] or V['created'] or V['root']:
                            cnt('skip')
                            continue
                        # close the database and open the same files again (saved index, same blob directory)
                        tm0.abort()
                        F0.clear()
                        c1_drop()
                        b = f = fh = sp = None
                        objs.clear()
                        c0.close()
                        c1.close()
                        env.reopen()
                        db = env.open_db()
                        tm0 = transaction.TransactionManager()
                        c0 = db.open(tm0)
                        r0 = c0.root()
                        tm1 = transaction.TransactionManager()
                        c1 = db.open(tm1)
                        for slot in C['linked']:
                            objs[slot] = at(r0, slot)
                        for slot in C['bytes']:
                            if slot not in objs and slot in slot_oid:
                                try:
                                    objs[slot] = c0.get(p64(slot_oid[slot]))
                                except Exception:
                                    pass                    # un-created / packed away meanwhile
                        reset_view()
                        boundary('reopen')
                    elif kind == 'failpack':
                        if flavor == 'wrap' or not txns or V['dirty'] or V['created'] or V['root']:
                            cnt('skip')
                            continue
                        tm0.abort()
                        F0.clear()
                        c1_drop()
                        tt = TimeStamp(p64(txns[-1]['tid'])).timeTime() + 0.5
                        env.fail_next_pack()
                        try:
                            if len(op) > 2 and op[2] == 'days':
                                db.pack(tt + 3 * 86400, days=3)      # the same pack time, spelled differently
                            else:
                                db.pack(tt)
                            cnt('failpack:nothing-to-pack')
                        except OSError:
                            cnt('failpack:abandoned')
                        except Exception as e:
                            cnt('failpack:' + errname(e))
                        finally:
                            env.clear_pack_failure()
                        if env.lines and env.lines[-1].startswith('pack '):  # it returned: nothing to pack
                            packed_to[0] = max(packed_to[0], int(env.lines[-1].split()[1]))
                        reset_view()                        # (the abort above gave connection 0 a new snapshot)
                        boundary('pack-failed')             # nothing was packed: nothing may have changed
                    elif kind == 'pack':
                        if not txns or V['dirty'] or V['created'] or V['root']:
                            cnt('skip')
                            continue
                        tm0.abort()
                        F0.clear()
                        c1_drop()
                        tids = [t['tid'] for t in txns]
                        i = min(op[1], len(tids))
                        tt = TimeStamp(p64(tids[-1 - i] if i < len(tids) else tids[0])).timeTime()
                        tt = tt + 0.5 if i < len(tids) else tt - 0.5
                        seen_k = set()
                        for o, t, kd in env.records():
                            if (o, t) in seen_k:
                                dupkeys.add((o, t))      # superseded duplicate record (multi-undo)
                            seen_k.add((o, t))
                        try:
                            db.pack(tt)
                        except Exception as e:
                            cnt('pack:' + errname(e))
                        recs = env.records()
                        allrecs = {(o, t) for o, t, kd in recs}
                        blobrecs = {(o, t) for o, t, kd in recs if kd == 'blob'}
                        for k in [k for k in files if k not in blobrecs]:
                            del files[k]
                            gone.add(k)
                            nontrivial[0] = True              # packed
                        if flavor == 'wrap' and env.lines and env.lines[-1].startswith('pack '):
                            on_disk = env.scan()[0]
                            cnt('wrap-pack:' + ('exact' if all(k in on_disk for k in files) else
                                                'removes-file-of-kept-revision'))
                        for o, h in hist.items():
                            for t, b in h:
                                if (o, t) not in allrecs:
                                    gone.add((o, t))
                        if env.lines and env.lines[-1].startswith('pack '):
                            packed_to[0] = max(packed_to[0], int(env.lines[-1].split()[1]))
                        # C07's carve-out (NoResurrection): an object that was garbage at the pack time and not
                        # written after it is dropped even if a later transaction links it again; the
                        # reference dangles, records AND files are gone together — nothing left to read
                        for slot, oid in list(C['linked'].items()):
                            if hist.get(oid) and all((oid, t) in gone for t, _ in hist[oid]):
                                cnt('pack:dropped-relinked-garbage')
                                del C['linked'][slot]
                                C['bytes'].pop(slot, None)
                                objs.pop(slot, None)
                        # objects whose every revision is gone cannot be linked again
                        for slot in list(objs):
                            b = objs[slot]
                            oid = u64(b._p_oid) if b._p_oid else None
                            if slot not in C['linked'] and oid is not None and \
                                    all((oid, t) in gone for t, _ in hist.get(oid, [])):
                                del objs[slot]
                                C['bytes'].pop(slot, None)
                        reset_view()
                        boundary('pack')
                    cnt('op:' + kind)
                    if kind in ('new', 'write', 'consume', 'plain', 'unlink', 'relink'):
                        guard()
                        check_disk(kind)
                        check_own_view(kind)
                        check_other_connection(kind)
                except Exception as e:
                    # no operation of a generated program raises on the unchanged tree: whatever this is, the
                    # blob could not be read / written / committed as the property demands
                    import traceback
                    tb = traceback.extract_tb(e.__traceback__)
                    where = '%s:%d' % (os.path.basename(tb[-1].filename), tb[-1].lineno) if tb else '?'
                    bad('C13:operation-raised', 'op %r raised %s: %s (at %s)' % (op, type(e).__name__, str(e)[:120], where))
                    break
            try:
                tm0.abort()
                tm1.abort()
            except Exception:
                pass
            extra = ([], [])
            if case.get('copy'):
                cl, cr, cp = copy_to_fresh(env, root, dict(files))
                extra = (cl, cr)
                for sg, w in cp:
                    bad(sg, w)
                cnt('copy')
            if case.get('demo') and flavor == 'fs' and not problems:
                # a fresh DemoStorage over this storage: the FIRST read of every blob goes through the base's
                # blob files (the demo has no blob directory of its own yet); a rewrite inside the demo stays
                # in the demo, the base's blob directory is untouched
                import tempfile
                from ZODB.DemoStorage import DemoStorage
                import ZODB
                saved_tmp = tempfile.tempdir
                tempfile.tempdir = root
                try:
                    demo = DemoStorage(base=env.top)
                    dbd = ZODB.DB(demo)
                    tmd = transaction.TransactionManager()
                    cd = dbd.open(tmd)
                    try:
                        rd = cd.root()
                        for slot in sorted(C['linked']):
                            try:
                                got = read_blob(at(rd, slot))
                            except Exception as e:
                                bad('C13:demo-first-read', 'first read of blob %s through a fresh DemoStorage raised '
                                    '%s: %s' % (slot, type(e).__name__, str(e)[:100]))
                                continue
                            if got != C['bytes'][slot]:
                                bad('C13:demo-first-read', 'DemoStorage reads %r for %s, committed %r'
                                    % (got[:40], slot, C['bytes'][slot][:40]))
                        for slot in sorted(C['linked'])[:1]:
                            if problems:
                                break
                            with at(rd, slot).open('a') as f:
                                f.write(b'!demo')
                            tmd.commit()
                            if read_blob(at(rd, slot)) != C['bytes'][slot] + b'!demo':
                                bad('C13:demo-first-read', 'blob %s rewritten inside the DemoStorage reads wrong bytes' % slot)
                        if not problems and C['linked']:
                            slot = sorted(C['linked'])[0]
                            d2 = demo.push()                   # a further layer on top, then popped again
                            db2 = ZODB.DB(d2)
                            tm2 = transaction.TransactionManager()
                            c2 = db2.open(tm2)
                            try:
                                want2 = C['bytes'][slot] + b'!demo'
                                if read_blob(at(c2.root(), slot)) != want2:
                                    bad('C13:demo-first-read', 'pushed DemoStorage layer reads wrong bytes for %s' % slot)
                                with at(c2.root(), slot).open('w') as f:
                                    f.write(b'layer2')
                                tm2.commit()
                                if read_blob(at(c2.root(), slot)) != b'layer2':
                                    bad('C13:demo-first-read', 'blob rewritten in the pushed layer reads wrong bytes')
                            finally:
                                tm2.abort()
                                c2.close()
                            d2.pop()
                            tmd.abort()
                            cd.sync()
                            if read_blob(at(cd.root(), slot)) != want2:
                                bad('C13:demo-first-read', 'after pop the lower DemoStorage layer reads wrong bytes')
                            c2 = db2 = d2 = None
                        cnt('demo')
                    finally:
                        tmd.abort()
                        cd.close()
                    check_disk('demo')
                except Exception as e:
                    bad('C13:demo-first-read', 'DemoStorage over the blob storage: %s: %s' % (type(e).__name__, str(e)[:120]))
                finally:
                    tempfile.tempdir = saved_tmp
                    f = cd = rd = dbd = demo = None
        finally:
            if mdb is not None:
                try:
                    mdb['db'].close()
                except Exception:
                    pass
            env.close()
    _tempfile.tempdir = _saved_tempdir
    if faulted[0]:
        # the model has no raw-fault operation: a faulted history is judged by the oracle alone
        return dict(lines=[], real=[], problems=problems, nontrivial=nontrivial[0], stats=stats,
                    tie=env.tie_breaks)
    if flavor == 'wrapfs':
        # oracle only: the wrapper's own undo (BlobStorage.undo) and _packUndoing are not driven through the model
        return dict(lines=[], real=[], problems=problems, nontrivial=nontrivial[0], stats=stats, tie=env.tie_breaks)
    return dict(lines=['reset ' + flavor] + env.lines + extra[0], real=['ok'] + env.real + extra[1],
                problems=problems, tie=env.tie_breaks,
                nontrivial=nontrivial[0], stats=stats)
