"""Shared machinery of the C03 / C10 checks: wire codec between pickled records and the model's
trees, hand-made pickles for every reference format, storage factory, the storage-level runner
(2PC calls with explicit serials, blocked `tpc_begin` probes) and a recorder of the storage calls a
real Connection makes."""
import io
import os
import struct
import sys
import threading

sys.path.insert(0, os.path.dirname(os.path.abspath(__file__)))
import c10_classes as K  # noqa: E402


def p64(n):
    return struct.pack('>Q', n)


def u64(b):
    if isinstance(b, str):
        b = b.encode('latin-1')
    return struct.unpack('>Q', b)[0]


# ------------------------------------------------------------------ trees on the Python side
class Ref:
    """description of a persistent reference inside a generated state: fmt + fields
       fmt: c (oid, K) | o oid | m (db, oid, K) | n (db, oid) | w oid | x (oid, db) | l oid
       K = ('g', cid) global class | ('t', cid) (module, name) tuple"""

    def __init__(self, fmt, *fields):
        self.fmt, self.fields = fmt, fields

    def wire(self):
        def f(x):
            return ('%s%d' % x) if isinstance(x, tuple) else str(x)
        return 'r' + self.fmt + ','.join(f(x) for x in self.fields) + '.'


DBNAMES = {'': 0, 'main': 1, 'other': 5, 'third': 6}
DBNAME_OF = {v: k for k, v in DBNAMES.items()}


def tree_wire(t):
    """generated tree (ints, 2-tuples, Ref) -> wire string of the pickled state"""
    if isinstance(t, Ref):
        return t.wire()
    if isinstance(t, tuple):
        assert len(t) == 2
        return 'p' + tree_wire(t[0]) + tree_wire(t[1])
    return 'a%d.' % t


def rec_wire(cid, args, tree):
    return '%d/%d/%s' % (cid, args, tree_wire(tree))



def _parse_k(s, i):
    j = i + 1
    while j < len(s) and s[j].isdigit():
        j += 1
    return (s[i], int(s[i + 1:j])), j


def _parse_tree(s, i):
    c = s[i]
    if c == 'a':
        j = s.index('.', i)
        return int(s[i + 1:j]), j + 1
    if c == 'p':
        a, i = _parse_tree(s, i + 1)
        b, i = _parse_tree(s, i)
        return (a, b), i
    if c == 'r':
        j = s.index('.', i)
        fmt, body = s[i + 1], s[i + 2:j]
        fields = []
        for part in body.split(','):
            if part[0] in 'gt':
                fields.append((part[0], int(part[1:])))
            else:
                fields.append(int(part))
        return Ref(fmt, *fields), j + 1
    raise ValueError('bad tree wire %r at %d' % (s, i))


def parse_rec(w):
    """wire '<cid>/<args>/<state>' -> (cid, args, tree)"""
    cid, args, st = w.split('/')
    tree, i = _parse_tree(st, 0)
    assert i == len(st), w
    return int(cid), int(args), tree


# ------------------------------------------------------------------ hand-made pickles
def _body(x):
    import zodbpickle.pickle as zp
    return zp.dumps(x, 3)[2:-1]


def _klass_ops(k):
    kind, cid = k
    m, n = K.TABLE[cid][:2]
    if kind == 'g':
        return b'c' + m.encode() + b'\n' + n.encode() + b'\n'
    return _body(m) + _body(n) + b'\x86'


def _ref_ops(r):
    from zodbpickle import binary
    f = r.fields
    if r.fmt == 'c':
        pid = _body(binary(p64(f[0]))) + _klass_ops(f[1]) + b'\x86'
    elif r.fmt == 'o':
        pid = _body(binary(p64(f[0])))
    elif r.fmt == 'm':
        pid = b']' + b'(' + _body('m') + _body(DBNAME_OF[f[0]]) + _body(binary(p64(f[1]))) + \
            _klass_ops(f[2]) + b'\x87' + b'e'
    elif r.fmt == 'n':
        pid = b']' + b'(' + _body('n') + _body(DBNAME_OF[f[0]]) + _body(binary(p64(f[1]))) + b'\x86' + b'e'
    elif r.fmt == 'w':
        pid = b']' + b'(' + _body('w') + _body(binary(p64(f[0]))) + b'\x85' + b'e'
    elif r.fmt == 'x':
        pid = b']' + b'(' + _body('w') + _body(binary(p64(f[0]))) + _body(DBNAME_OF[f[1]]) + b'\x86' + b'e'
    elif r.fmt == 'l':
        pid = b']' + b'(' + _body(binary(p64(f[0]))) + b'e'
    else:
        raise ValueError(r.fmt)
    return pid + b'Q'


def _tree_ops(t):
    if isinstance(t, Ref):
        return _ref_ops(t)
    if isinstance(t, tuple):
        return _tree_ops(t[0]) + _tree_ops(t[1]) + b'\x86'
    return _body(t)


def make_pickle(cid, args, tree):
    """record bytes: class meta data pickle followed by the state pickle (both protocol 3).
       args: 0 = bare class global, 1 = (class, ()) tuple, 2 = ((module, name), ()) tuple"""
    m, n = K.TABLE[cid][:2]
    g = b'c' + m.encode() + b'\n' + n.encode() + b'\n'
    if args == 0:
        meta = g
    elif args == 1:
        meta = g + b')' + b'\x86'
    else:
        meta = _body(m) + _body(n) + b'\x86' + b')' + b'\x86'
    return b'\x80\x03' + meta + b'.' + b'\x80\x03' + _tree_ops(tree) + b'.'


# ------------------------------------------------------------------ decoding real pickles
class _Cls:
    def __init__(self, m, n):
        self.m, self.n = m, n


class _Pid:
    def __init__(self, data):
        self.data = data


def _kwire(k, good='g'):
    if isinstance(k, _Cls):
        return '%s%d' % (good, K.BY_NAME.get((k.m, k.n), 999))
    if isinstance(k, type):
        return '%s%d' % (good, K.BY_NAME.get((k.__module__, k.__name__), 999))
    if isinstance(k, tuple) and len(k) == 2 and all(isinstance(x, str) for x in k):
        return 't%d' % K.BY_NAME.get(k, 999)
    return 'b?%s' % type(k).__name__          # BadClass or anything unexpected


def _oidn(o):
    if isinstance(o, str):
        o = o.encode('latin-1')
    return u64(bytes(o))


def _dbn(d):
    return DBNAMES.get(d, 99)


def refdata_fields(data, good='g'):
    """fmt + fields string of reference data (as passed to persistent_load / kept in .data)"""
    if isinstance(data, tuple):
        return 'c%d,%s' % (_oidn(data[0]), _kwire(data[1], good))
    if isinstance(data, (bytes, str)):
        return 'o%d' % _oidn(data)
    if isinstance(data, list):
        if len(data) == 1:
            return 'l%d' % _oidn(data[0])
        t, a = data[0], data[1]
        if t == 'm':
            return 'm%d,%d,%s' % (_dbn(a[0]), _oidn(a[1]), _kwire(a[2], good))
        if t == 'n':
            return 'n%d,%d' % (_dbn(a[0]), _oidn(a[1]))
        if t == 'w':
            if len(a) == 1:
                return 'w%d' % _oidn(a[0])
            return 'x%d,%d' % (_oidn(a[0]), _dbn(a[1]))
    return '?%r' % (data,)


def pstate_wire(x):
    """unpickled-with-markers state -> wire of the pickled state"""
    if isinstance(x, _Pid):
        return 'r' + refdata_fields(x.data) + '.'
    if isinstance(x, tuple) and len(x) == 2:
        return 'p' + pstate_wire(x[0]) + pstate_wire(x[1])
    if isinstance(x, dict) and set(x) == {'value'}:        # ZODB.tests.MinPO state
        return pstate_wire(x['value'])
    if isinstance(x, bool) or not isinstance(x, int):
        return '?%r' % (x,)
    return 'a%d.' % x


def decode_record(data):
    """record bytes -> wire '<cid>/<args>/<state>' (references and class globals kept symbolic)"""
    import zodbpickle.pickle as zp
    class U(zp.Unpickler):
        def find_class(self, m, n):
            return _Cls(m, n)

        def persistent_load(self, ref):
            return _Pid(ref)
    up = U(io.BytesIO(data))
    meta = up.load()
    state = up.load()
    if isinstance(meta, tuple):
        k = meta[0]
        if isinstance(k, tuple):
            cid, args = K.BY_NAME.get(tuple(k), 999), 2
        else:
            cid, args = K.BY_NAME.get((k.m, k.n), 999), 1
    else:
        cid, args = K.BY_NAME.get((meta.m, meta.n), 999), 0
    return '%d/%d/%s' % (cid, args, pstate_wire(state))


def decode_record_safe(data):
    """like decode_record; records of classes outside the table (the root PersistentMapping …) or
    with states outside the tree grammar become the opaque record 999/0/a0."""
    try:
        w = decode_record(data)
    except Exception:
        return '999/0/a0.'
    if w.startswith('999/') or '?' in w or ' ' in w:
        return '999/0/a0.'
    return w


def lstate_wire(x):
    """state as `_p_resolveConflict` receives it -> wire of a loaded state"""
    from ZODB.ConflictResolution import PersistentReference
    if isinstance(x, PersistentReference):
        db = x.database_name
        return 'R%s;%d;%s;%d.' % (refdata_fields(x.data, good='c'), _oidn(x.oid),
                                   '-' if db is None else str(_dbn(db)), 1 if x.weak else 0)
    if isinstance(x, tuple) and len(x) == 2:
        return 'p' + lstate_wire(x[0]) + lstate_wire(x[1])
    if isinstance(x, dict) and set(x) == {'value'}:
        return lstate_wire(x['value'])
    if isinstance(x, bool) or not isinstance(x, int):
        return '?%r' % (x,)
    return 'a%d.' % x


K.RENDER[0] = lstate_wire


def take_calls():
    """resolver invocations logged since the last call, as the driver prints them"""
    calls = ['call=%d|%s|%s|%s' % c for c in K.CALLS]
    del K.CALLS[:]
    if K.INITS:
        # the storage ran a class's constructor while resolving (it must only use klass.__new__)
        calls.append('+init-ran')
        del K.INITS[:]
    return calls


def class_lines(cids=None):
    return ['class %d %d %d %s' % (cid, K.TABLE[cid][2], K.TABLE[cid][3], K.TABLE[cid][4])
            for cid in sorted(cids or K.TABLE)]


def clear_resolution_caches():
    """`_unresolvable` and `_class_cache` are process-wide; every case starts from empty ones, as the
    model's `reset` does"""
    import ZODB.ConflictResolution as CR
    CR._unresolvable.clear()
    CR._class_cache.clear()
    del K.CALLS[:]
    del K.INITS[:]


# ------------------------------------------------------------------ storages
BUILD = {}      # construction variant of the case being run: {'config': bool, 'pool': n, 'cache': n}


def _config_section(k, path, name):
    if k == 'file':
        return '<filestorage %s>\n path %s\n create true\n read-only false\n pack-keep-old false\n</filestorage>' % (name, path)
    return '<mappingstorage %s>\n name %s\n</mappingstorage>' % (name, name or 'main')


def make_storage(kind, tmpdir, tag):
    """kind: file | mapping | mvccmapping | demo:<changes>:<base> | hex:<kind>; returns (storage, base
    storage or None).  With BUILD['config'] the storage is built by ZODB.config.storageFromString."""
    from ZODB.FileStorage import FileStorage
    from ZODB.MappingStorage import MappingStorage
    from ZODB.DemoStorage import DemoStorage

    if BUILD.get('config') and kind in ('file', 'mapping', 'demo:file:mapping', 'demo:mapping:mapping',
                                        'demo:file:file', 'demo:mapping:file'):
        import ZODB.config
        parts = kind.split(':')
        if parts[0] != 'demo':
            return ZODB.config.storageFromString(
                _config_section(parts[0], os.path.join(tmpdir, '%s-main.fs' % tag), '')), None
        st = ZODB.config.storageFromString('<demostorage>\n%s\n%s\n</demostorage>' % (
            _config_section(parts[2], os.path.join(tmpdir, '%s-base.fs' % tag), 'base'),
            _config_section(parts[1], os.path.join(tmpdir, '%s-changes.fs' % tag), 'changes')))
        return st, st.base

    if kind == 'demo2':
        # a pushed layer: DemoStorage(base=DemoStorage(base=Mapping, changes=Mapping), changes=Mapping)
        lower = DemoStorage(base=MappingStorage('bottom'), changes=MappingStorage('middle'))
        return lower.push(), lower
    if kind == 'mvccmapping':
        # the bundled natively-MVCC storage: the DB uses it WITHOUT the MVCC adapter, one instance per
        # connection (shared data, shared commit lock)
        from ZODB.tests.MVCCMappingStorage import MVCCMappingStorage
        return MVCCMappingStorage(), None

    def simple(k, name):
        if k == 'file':
            return FileStorage(os.path.join(tmpdir, '%s-%s.fs' % (tag, name)), create=True)
        return MappingStorage(name)
    if kind.startswith('hex:'):
        # record-transforming wrapper (ZODB.tests.hexstorage): the resolver's output must be stored in
        # the wrapper's format (`_crs_transform_record_data`)
        from ZODB.tests.hexstorage import HexStorage
        inner, base = make_storage(kind[4:], tmpdir, tag)
        return HexStorage(inner), base
    parts = kind.split(':')
    if parts[0] != 'demo':
        return simple(parts[0], 'main'), None
    base = simple(parts[2], 'base')
    changes = simple(parts[1], 'changes')
    return DemoStorage(base=base, changes=changes), base


def errname(e):
    from ZODB import POSException as P
    if isinstance(e, P.ReadConflictError):
        return 'err:ReadConflict'
    if isinstance(e, P.ConflictError):
        return 'err:Conflict'
    if isinstance(e, P.StorageTransactionError):
        return 'err:StorageTransaction'
    if isinstance(e, P.POSKeyError):
        return 'err:KeyError'
    if isinstance(e, P.UndoError):
        return 'err:Undo'
    if isinstance(e, P.ReadOnlyError):
        return 'err:ReadOnly'
    return 'err:Other(%s)' % type(e).__name__


def raise_txn_error(st, txn):
    from ZODB.POSException import StorageTransactionError
    raise StorageTransactionError(st, txn)


class StorageRunner:
    """Executes driver-protocol ops on a real storage.  `tpc_begin` runs in a helper thread so that a
    call that has to wait for the commit lock is observed as `blocked`; the blocked call stays
    pending and is completed (observed by the next `begin` op of that transaction) once the holder
    finishes or aborts.  `probe` = seconds to wait before declaring a begin blocked."""

    def __init__(self, kind, tmpdir, tag, probe=0.03):
        self.kind = kind
        self.tmpdir, self.tag = tmpdir, tag
        self.storage, self.base = make_storage(kind, tmpdir, tag)
        self.txns = {}            # t -> TransactionMetaData of the current attempt
        self.pending = {}         # t -> (thread, result list)
        self.probe = probe
        self.patience = 6         # seconds a tpc_begin on a FREE lock may take before it counts as blocked
        self.begun = set()        # transactions whose begin returned (real observation)
        self.voted = set()
        self.events = []          # ('acquired', t) / ('released', t) in real order, for the oracle

    def txn(self, t, new=False):
        from ZODB.Connection import TransactionMetaData
        if new or t not in self.txns:
            self.txns[t] = TransactionMetaData()
        return self.txns[t]

    def _begin_thread(self, t, tid):
        res = []
        txn = self.txn(t, new=(t not in self.begun))

        def run():
            try:
                self.storage.tpc_begin(txn, p64(tid))
                res.append('ok')
            except BaseException as e:  # noqa: B902
                res.append(errname(e))
        th = threading.Thread(target=run, daemon=True)
        th.start()
        return th, res

    def _poll_pending(self):
        """a pending begin that got through although nobody released the lock is reported"""
        extra = []
        for t, (th, res) in list(self.pending.items()):
            th.join(0.002)
            if not th.is_alive():
                extra.append('+acquired:%d' % t)
                del self.pending[t]
                self.begun.add(t)
                self.events.append(('acquired', t))
        return extra

    def op(self, line):
        tk = line.split()
        st = self.storage
        o = tk[0]
        extra = []
        try:
            if o == 'base':
                from ZODB.Connection import TransactionMetaData
                txn = TransactionMetaData()
                cid, args, tree = parse_rec(tk[3])
                target_ = self.base.base if (self.kind == 'demo2' and getattr(self, 'nbase', 0) == 0) else self.base
                target_.tpc_begin(txn, p64(int(tk[1])))
                data = make_pickle(cid, args, tree)
                if self.kind.startswith('hex:'):
                    from binascii import hexlify
                    data = b'.h' + hexlify(data)
                serial = p64(0)
                target = self.base
                self.nbase = getattr(self, 'nbase', 0) + 1
                if self.kind == 'demo2' and self.nbase == 1:
                    target = self.base.base         # the first base revision lives in the bottom layer
                elif self.kind == 'demo2':
                    # the lower DemoStorage checks serials: pass what it currently holds
                    try:
                        serial = self.base.getTid(p64(int(tk[2])))
                    except Exception:
                        pass
                target.store(p64(int(tk[2])), serial, data, '', txn)
                target.tpc_vote(txn)
                target.tpc_finish(txn)
                r = 'ok'
            elif o == 'begin':
                t, tid = int(tk[1]), int(tk[2])
                if t in self.pending:
                    th, res = self.pending.pop(t)
                    th.join(self.patience)
                    if th.is_alive():
                        self.pending[t] = (th, res)
                        r = 'blocked'
                    else:
                        r = res[0]
                        if r == 'ok':
                            self.begun.add(t)
                            self.events.append(('acquired', t))
                else:
                    th, res = self._begin_thread(t, tid)
                    th.join(self.probe if self.begun - {t} else self.patience)
                    if th.is_alive():
                        self.pending[t] = (th, res)
                        r = 'blocked'
                    else:
                        r = res[0]
                        if r == 'ok':
                            self.begun.add(t)
                            self.events.append(('acquired', t))
            elif o == 'store':
                t = int(tk[1])
                cid, args, tree = parse_rec(tk[4])
                del K.CALLS[:]
                del K.INITS[:]
                try:
                    st.store(p64(int(tk[2])), p64(int(tk[3])), make_pickle(cid, args, tree), '', self.txn(t))
                    calls = take_calls()
                    r = ('resolved ' + ' '.join(calls)) if calls else 'ok'
                except BaseException as e:  # noqa: B902
                    calls = take_calls()
                    r = errname(e) + (' ' + ' '.join(calls) if calls else '')
            elif o == 'check':
                st.checkCurrentSerialInTransaction(p64(int(tk[2])), p64(int(tk[3])), self.txn(int(tk[1])))
                r = 'ok'
            elif o == 'restore':
                t = int(tk[1])
                cid, args, tree = parse_rec(tk[3])
                txn = self.txn(t)
                if t not in self.begun:
                    raise_txn_error(st, txn)
                inner = getattr(st, 'changes', st)
                st.restore(p64(int(tk[2])), inner._tid, make_pickle(cid, args, tree), '', None, txn)
                r = 'ok'
            elif o == 'delete':
                st.deleteObject(p64(int(tk[2])), p64(int(tk[3])), self.txn(int(tk[1])))
                r = 'ok'
            elif o == 'vote':
                v = st.tpc_vote(self.txn(int(tk[1])))
                self.voted.add(int(tk[1]))
                r = 'voted [%s]' % ','.join(str(u64(x)) for x in (v or []))
                extra = self._poll_pending()
            elif o == 'finish':
                t = int(tk[1])
                if t in self.begun and t not in self.voted:
                    # tpc_finish without tpc_vote is a protocol violation FileStorage does not survive
                    # (only the shrinker produces it); the model's finish = vote + finish
                    st.tpc_vote(self.txn(t))
                tid = st.tpc_finish(self.txn(t))
                self.voted.discard(t)
                r = 'ok %d' % u64(tid)
                self.begun.discard(t)
                self.txns.pop(t, None)
                self.events.append(('released', t))
            elif o == 'abort':
                t = int(tk[1])
                st.tpc_abort(self.txn(t))
                r = 'ok'
                self.voted.discard(t)
                if t in self.begun:
                    self.begun.discard(t)
                    self.events.append(('released', t))
                self.txns.pop(t, None)
            elif o == 'cur':
                r = str(u64(st.getTid(p64(int(tk[1])))))
            elif o == 'load':
                from ZODB.utils import load_current
                r = decode_record(load_current(st, p64(int(tk[1])))[0])
            elif o == 'loadserial':
                r = decode_record(st.loadSerial(p64(int(tk[1])), p64(int(tk[2]))))
            elif o == 'hist':
                h = st.history(p64(int(tk[1])), 1000)
                r = '[' + ','.join(str(u64(d['tid'])) for d in h) + ']'
            elif o == 'bystander':
                self.bystander_commit()
                r = 'ok'
            elif o in ('reopen', 'undo', 'undotxn', 'undomulti') and (self.begun or self.pending):
                r = 'blocked'       # a transaction is in progress (only the shrinker produces this)
            elif o == 'reopen':
                self.reopen()
                r = 'ok'
            elif o == 'undotxn' and self.undo_not_single(int(tk[3]), int(tk[2])):
                r = 'skipped'
            elif o in ('undo', 'undotxn', 'undomulti'):
                # undo <tid> <oid> <ctid> <undone> <pre> <cur> | undotxn <tid> <oid> <undone>:
                # a whole undo transaction of the transaction with tid `undone`
                import base64
                from ZODB.Connection import TransactionMetaData
                from ZODB.utils import load_current
                txn = TransactionMetaData()
                del K.CALLS[:]
                del K.INITS[:]
                st.tpc_begin(txn, p64(int(tk[1])))
                try:
                    for u in ([tk[4]] if o == 'undo' else tk[3:] if o == 'undomulti' else [tk[3]]):
                        st.undo(base64.encodebytes(p64(int(u))).rstrip(), txn)
                    st.tpc_vote(txn)
                    st.tpc_finish(txn)
                    calls = take_calls()
                    try:
                        r = 'ok ' + decode_record(load_current(st, p64(int(tk[2])))[0])
                    except Exception as e2:
                        r = 'ok none' if errname(e2) == 'err:KeyError' else 'ok ' + errname(e2)
                except BaseException as e:  # noqa: B902
                    calls = take_calls()
                    st.tpc_abort(txn)
                    r = errname(e)
                r += (' ' + ' '.join(calls)) if calls else ''
            elif o == 'lock':
                r = '?'
            else:
                r = 'bad-op'
        except BaseException as e:  # noqa: B902
            r = errname(e)
            if o in ('cur', 'load', 'loadserial') and r == 'err:KeyError':
                r = 'none'
            if o == 'hist' and r == 'err:KeyError':
                r = '[]'
        if o in ('store', 'check'):
            extra = self._poll_pending()
        return ' '.join([r] + extra)

    def undo_not_single(self, tid, oid):
        """the transaction `tid` exists and does not hold exactly one record, of object `oid`"""
        try:
            it = self.storage.iterator(p64(tid), p64(tid))
            txns = [[u64(r.oid) for r in t] for t in it if u64(t.tid) == tid]
            if hasattr(it, 'close'):
                it.close()
        except Exception:
            return False
        return any(oids != [oid] for oids in txns)

    def bystander_commit(self):
        """a two-phase commit on ANOTHER FileStorage instance of this process (a second database):
        storage instances must not share per-transaction state such as the list tpc_vote returns"""
        from ZODB.Connection import TransactionMetaData
        from ZODB.FileStorage import FileStorage
        if getattr(self, 'bystander', None) is None:
            self.bystander = FileStorage(os.path.join(self.tmpdir, 'bystander-%s.fs' % self.tag), create=True)
            self.by_n = 0
        b = self.bystander
        txn = TransactionMetaData()
        b.tpc_begin(txn)
        self.by_n += 1
        if self.by_n % 2:
            b.store(p64(1), b.getTid(p64(1)) if self.by_n > 1 else p64(0), make_pickle(2, 0, self.by_n), '', txn)
            b.tpc_vote(txn)
            b.tpc_finish(txn)
        else:
            b.tpc_abort(txn)

    def reopen(self):
        """clean close of the FileStorage (which saves its index) and reopen from the saved index"""
        from ZODB.FileStorage import FileStorage
        from ZODB.DemoStorage import DemoStorage
        st = self.storage
        self.reopens = getattr(self, 'reopens', 0) + 1

        def again(path):
            if self.reopens % 3 == 0 and os.path.exists(path + '.index'):
                os.remove(path + '.index')          # every third reopen rebuilds the index by a full scan
            return FileStorage(path)
        if isinstance(st, FileStorage):
            path = st._file_name
            st.close()
            self.storage = again(path)
        elif isinstance(st, DemoStorage) and isinstance(st.changes, FileStorage):
            path = st.changes._file_name
            st.changes.close()
            self.storage = DemoStorage(base=st.base, changes=again(path))

    def close(self):
        # release whatever is still held so that pending threads end
        for t in list(self.begun):
            try:
                self.storage.tpc_abort(self.txn(t))
            except Exception:
                pass
        for _ in range(2):
            for t, (th, res) in list(self.pending.items()):
                th.join(0.3)
                if not th.is_alive():
                    del self.pending[t]
                    try:
                        self.storage.tpc_abort(self.txn(t))
                    except Exception:
                        pass
        try:
            self.storage.close()
        except Exception:
            pass
        if getattr(self, 'bystander', None) is not None:
            try:
                self.bystander.close()
            except Exception:
                pass


# ------------------------------------------------------------------ recording the calls of a Connection
class Recorder:
    """Wraps the 2PC entry points of a storage instance (before the DB is created) and records every
    call a Connection makes, with its real outcome, as driver-protocol lines.  Every storage-level
    transaction (TransactionMetaData object) gets its own number."""

    def __init__(self, storage, tid_of):
        self.storage = storage
        self.events = []          # (kind, t, payload…) in real order, see `lines`
        self.ids = {}
        self.tid_of = tid_of      # function() -> int tid of the transaction in progress
        self.lock = threading.Lock()
        self.on_event = None
        self.last_finish = {}     # thread ident -> tid (int) of the last successful tpc_finish
        self.last_vote = {}       # thread ident -> oids (ints) returned by the last tpc_vote
        self.attach(storage, tid_of)

    def attach(self, storage, tid_of):
        """wrap the 2PC entry points of one storage instance; a natively-MVCC storage hands every
        connection its own instance (`new_instance`), which is wrapped the same way"""
        for name in ('tpc_begin', 'store', 'checkCurrentSerialInTransaction', 'tpc_vote', 'tpc_finish',
                     'tpc_abort', 'deleteObject'):
            if hasattr(storage, name):
                setattr(storage, name, self._wrap(name, getattr(storage, name), tid_of))
        if hasattr(storage, 'new_instance'):
            real_new = storage.new_instance
            rec = self

            def new_instance():
                inst = real_new()
                rec.attach(inst, tid_reader(inst))
                return inst
            storage.new_instance = new_instance

    def tnum(self, txn):
        k = id(txn)
        if k not in self.ids:
            self.ids[k] = (len(self.ids) + 1, txn)     # keep txn alive: ids stay unique
        return self.ids[k][0]

    def emit(self, *ev):
        self.events.append(ev)
        if self.on_event:
            self.on_event(ev)

    def _wrap(self, name, real, tid_of=None):
        rec = self
        tid_of = tid_of or self.tid_of

        def tpc_begin(txn, *a, **k):
            t = rec.tnum(txn)
            rec.emit('begin-enter', t)
            try:
                real(txn, *a, **k)
            except BaseException as e:  # noqa: B902
                rec.emit('begin-exit', t, errname(e), 0)
                raise
            rec.emit('begin-exit', t, 'ok', tid_of())

        def store(oid, serial, data, version, txn):
            t = rec.tnum(txn)
            del K.CALLS[:]
            del K.INITS[:]
            try:
                real(oid, serial, data, version, txn)
            except BaseException as e:  # noqa: B902
                calls = take_calls()
                rec.emit('store', t, u64(oid), u64(serial), data, errname(e) + (' ' + ' '.join(calls) if calls else ''))
                raise
            calls = take_calls()
            rec.emit('store', t, u64(oid), u64(serial), data, ('resolved ' + ' '.join(calls)) if calls else 'ok')

        def check(oid, serial, txn):
            t = rec.tnum(txn)
            try:
                real(oid, serial, txn)
            except BaseException as e:  # noqa: B902
                rec.emit('check', t, u64(oid), u64(serial), errname(e))
                raise
            rec.emit('check', t, u64(oid), u64(serial), 'ok')

        def deleteObject(oid, serial, txn):
            t = rec.tnum(txn)
            try:
                real(oid, serial, txn)
            except BaseException as e:  # noqa: B902
                rec.emit('delete', t, u64(oid), u64(serial), errname(e))
                raise
            rec.emit('delete', t, u64(oid), u64(serial), 'ok')

        def tpc_vote(txn, *a, **k):
            t = rec.tnum(txn)
            try:
                v = real(txn, *a, **k)
            except BaseException as e:  # noqa: B902
                rec.emit('vote', t, errname(e))
                raise
            rec.last_vote[threading.get_ident()] = [u64(x) for x in (v or [])]
            rec.emit('vote', t, 'voted [%s]' % ','.join(str(u64(x)) for x in (v or [])))
            return v

        def tpc_finish(txn, *a, **k):
            t = rec.tnum(txn)
            rec.emit('finish-enter', t)
            try:
                tid = real(txn, *a, **k)
            except BaseException as e:  # noqa: B902
                rec.emit('finish-exit', t, errname(e))
                raise
            rec.last_finish[threading.get_ident()] = u64(tid)
            rec.emit('finish-exit', t, 'ok %d' % u64(tid))
            return tid

        def tpc_abort(txn, *a, **k):
            t = rec.tnum(txn)
            rec.emit('abort-enter', t)
            try:
                real(txn, *a, **k)
            except BaseException as e:  # noqa: B902
                rec.emit('abort-exit', t, errname(e))
                raise
            rec.emit('abort-exit', t, 'ok')

        return dict(tpc_begin=tpc_begin, store=store, checkCurrentSerialInTransaction=check,
                    tpc_vote=tpc_vote, tpc_finish=tpc_finish, tpc_abort=tpc_abort,
                    deleteObject=deleteObject)[name]

    def lines(self):
        """(model op lines, real observation lines, list of mutual-exclusion problems).
        begin is positioned where it returned, finish/abort where they were entered (the lock is
        released inside the call); a `begin` entered while another transaction held the lock is
        additionally emitted at its entry and must have been observed blocked until a release."""
        ops, obs, problems = [], [], []
        holder = None
        waiting = {}          # t -> index in ops of the blocked attempt
        done = {}             # finish/abort outcome by (kind, t)
        for ev in self.events:
            if ev[0] in ('finish-exit', 'abort-exit'):
                done[(ev[0][:-5], ev[1])] = ev[2]
        tidguess = [0]
        for ev in self.events:
            k, t = ev[0], ev[1]
            if k == 'begin-enter':
                if holder is not None and holder != t:
                    waiting[t] = len(ops)
                    ops.append(['begin', t, None])
                    obs.append('blocked')
            elif k == 'begin-exit':
                out, tid = ev[2], ev[3]
                if out == 'ok':
                    if holder is not None and holder != t:
                        problems.append('transaction %d acquired the commit lock while %d held it' % (t, holder))
                    holder = t
                    tidguess[0] = tid
                if t in waiting:
                    ops[waiting.pop(t)][2] = tid
                ops.append(['begin', t, tid])
                obs.append(out)
            elif k == 'store':
                ops.append(['store', t, ev[2], ev[3], decode_record_safe(ev[4])])
                obs.append(ev[5])
            elif k in ('check', 'delete'):
                ops.append([k, t, ev[2], ev[3]])
                obs.append(ev[4])
            elif k == 'vote':
                ops.append(['vote', t])
                obs.append(ev[2])
            elif k in ('finish-enter', 'abort-enter'):
                kind = k[:-6]
                ops.append([kind, t])
                obs.append(done.get((kind, t), 'err:NoReturn'))
                if holder == t:
                    holder = None
        for i in list(waiting.values()):
            ops[i][2] = tidguess[0] + 1
        return [' '.join(str(x) for x in o) for o in ops], obs, problems


def tid_reader(storage):
    """function returning the tid of the transaction in progress of `storage` as int"""
    def tid_of():
        s = getattr(storage, 'changes', storage)
        return u64(s._tid)
    return tid_of
