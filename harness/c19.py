"""C19 — fsIndex behaves as an ordered map and survives save/load.
Correspondence: random op sequences on the real ZODB.fsIndex.fsIndex vs the Lean model
(Drivers/FsIndex.lean); direct oracle: a plain dict + sorted() (independent of the model)."""
import bisect
import os
import struct
import sys

sys.path.insert(0, os.path.dirname(os.path.abspath(__file__)))
from common import Check, InfraError, run_driver, hex8, ddmin  # noqa: E402


def p64(n):
    return struct.pack('>Q', n)


def u64(b):
    return struct.unpack('>Q', b)[0]


# ---------------------------------------------------------------- generator
def gen_case(rng, size):
    npre = rng.choice([1, 2, 2, 3, 4, 6])
    pool_pre = [0, 1, 2, 3, 5, 0x10, 0x1234, 2 ** 48 - 1, 2 ** 48 - 2, 2 ** 47,
                rng.randrange(2 ** 48), rng.randrange(2 ** 20)]
    pres = rng.sample(pool_pre, npre)
    sufs = [0, 1, 2, 3, 7, 0x100, 0xfffe, 0xffff, rng.randrange(65536), rng.randrange(65536)]

    def key():
        return rng.choice(pres) * 65536 + rng.choice(sufs)

    present = set()
    ops = []

    def qkey():
        r = rng.random()
        if present and r < 0.45:
            k = rng.choice(sorted(present)) + rng.choice([-1, 0, 1, 1, -1, 65536, -65536])
        elif r < 0.6:
            k = rng.choice(pool_pre) * 65536 + rng.choice(sufs)     # often an absent prefix
        elif r < 0.7:
            k = rng.choice([0, 2 ** 64 - 1, 65535, 65536, 2 ** 64 - 65536, 2 ** 64 - 65537])
        else:
            k = key()
        return min(max(k, 0), 2 ** 64 - 1)

    for _ in range(size):
        r = rng.random()
        if r < 0.30:
            k = key()
            v = rng.choice([0, 1, 4, 2 ** 48 - 1, rng.randrange(2 ** 48), rng.randrange(2 ** 20)])
            ops.append('set %s %d' % (hex8(k), v))
            present.add(k)
        elif r < 0.40:
            k = rng.choice(sorted(present)) if present and rng.random() < 0.7 else qkey()
            ops.append('del %s' % hex8(k))
            present.discard(k)
        elif r < 0.50:
            ops.append('get %s' % hex8(qkey()))
        elif r < 0.55:
            ops.append('contains %s' % hex8(qkey()))
        elif r < 0.72:
            ops.append('minkey %s' % hex8(qkey()))
        elif r < 0.84:
            ops.append('maxkey %s' % hex8(qkey()))
        elif r < 0.89:
            # FileStorage.record_iternext(next): `next` present, absent, absent prefix, None
            ops.append('iternext %s' % ('none' if rng.random() < 0.1 else hex8(qkey())))
        elif r < 0.91:
            ops.append(rng.choice(['minkey', 'maxkey']))
        elif r < 0.93:
            ops.append(rng.choice(['len', 'keys', 'values', 'items']))
        elif r < 0.945:
            ops.append('saveload %d' % rng.choice([0, 4, rng.randrange(2 ** 48), 2 ** 63]))
        elif r < 0.948:
            ops.append('pickle')        # the other save/load path: __getstate__ / __setstate__
        elif r < 0.95:
            # fsIndex(source) from a dict / another fsIndex / legacy (version-0) pickled state
            ops.append('rebuild %s' % rng.choice(['dict', 'fs', 'legacy', 'legacystr']))
        elif r < 0.96:
            ops.append('clear')
            present.clear()
        elif r < 0.965:
            # update() / fsIndex(source) from a dict or from another fsIndex sharing prefixes
            kvs = []
            for _ in range(rng.randrange(1, 6)):
                k = rng.choice(sorted(present)) + rng.choice([0, 1, 2]) if present and rng.random() < 0.5 else key()
                k = min(k, 2 ** 64 - 1)
                kvs.append((k, rng.randrange(2 ** 20)))
            ops.append('update %s %s' % (rng.choice(['dict', 'fs', 'fs']),
                                         ','.join('%s:%d' % (hex8(k), v) for k, v in kvs)))
            present.update(k for k, _ in kvs)
        elif r < 0.97:
            ops.append('set %s %d' % (hex8(key()), 2 ** 64 + rng.randrange(3)))   # malformed stream
        else:
            if present:
                ops.append('bucketstr %s' % hex8(rng.choice(sorted(present))))
    ops += ['items', 'len', 'keys', 'values', 'minkey', 'maxkey', 'iternext none', 'saveload 12345', 'items',
            'rebuild %s' % rng.choice(['dict', 'fs', 'legacy', 'legacystr']), 'len']
    return ops


# ---------------------------------------------------------------- real code
def errname(e):
    n = type(e).__name__
    return {'KeyError': 'err:KeyError', 'ValueError': 'err:ValueError',
            'error': 'err:StructError'}.get(n, 'err:Other(%s)' % n)


class _IndexOnlyStorage(object):
    """what FileStorage.record_iternext needs from `self`: the index and a load.  The REAL method is run
    over it (unbound), so the index part of record iteration is the code under test."""

    def __init__(self, ix):
        self._index = ix

    def loadBefore(self, oid, tid):
        return b'record of ' + oid, b'\0' * 7 + b'\1', None


def run_real(ops, tmpdir):
    from ZODB.fsIndex import fsIndex
    from ZODB.FileStorage.FileStorage import FileStorage
    ix = fsIndex()
    out = []
    for op in ops:
        t = op.split()
        try:
            if t[0] == 'set':
                ix[p64(int(t[1], 16))] = int(t[2])
                r = 'ok'
            elif t[0] == 'del':
                del ix[p64(int(t[1], 16))]
                r = 'ok'
            elif t[0] == 'get':
                k = p64(int(t[1], 16))
                v = ix.get(k)
                r = 'none' if v is None else str(v)
                try:
                    v2 = ix[k]
                except KeyError:
                    v2 = None
                if v2 != v:
                    r += ' getitem-differs:%r' % (v2,)
                for dflt in (0, -1, 'absent', b''):       # get(key, default): the default only when absent
                    vd = ix.get(k, dflt)
                    if vd != (dflt if v is None else v):
                        r += ' get-default-differs:%r:%r' % (dflt, vd)
            elif t[0] == 'contains':
                k = p64(int(t[1], 16))
                a, b = k in ix, ix.has_key(k)
                r = '1' if a else '0'
                if a != b:
                    r += ' has_key-differs'
            elif t[0] == 'len':
                r = str(len(ix))
            elif t[0] == 'keys':
                ks = ix.keys()
                r = '[' + ','.join(k.hex() for k in ks) + ']'
                if list(ix) != ks or list(ix.iterkeys()) != ks:
                    r += ' iter-differs'
            elif t[0] == 'values':
                r = '[' + ','.join(str(v) for v in ix.values()) + ']'
                if list(ix.itervalues()) != ix.values():
                    r += ' iter-differs'
            elif t[0] == 'items':
                r = '[' + ','.join('%s:%d' % (k.hex(), v) for k, v in ix.items()) + ']'
                if list(ix.iteritems()) != ix.items():
                    r += ' iter-differs'
            elif t[0] == 'clear':
                ix.clear()
                r = 'ok'
            elif t[0] == 'update':
                pairs = [(p64(int(a, 16)), int(b)) for a, b in (kv.split(':') for kv in t[2].split(','))]
                if t[1] == 'dict':
                    ix.update(dict(pairs))
                else:
                    other = fsIndex()
                    for k, v in pairs:
                        other[k] = v
                    ix.update(other)
                    # the two indexes must share nothing afterwards: disturb the source
                    for k, v in pairs:
                        other[k[:6] + b'\xff\xfd'] = 77
                        other[k] = v + 1
                    other.clear()
                r = 'ok'
            elif t[0] in ('minkey', 'maxkey'):
                f = ix.minKey if t[0] == 'minkey' else ix.maxKey
                r = (f() if len(t) == 1 else f(p64(int(t[1], 16)))).hex()
            elif t[0] == 'iternext':
                nx = None if t[1] == 'none' else p64(int(t[1], 16))
                oid, tid, data, nxt = FileStorage.record_iternext(_IndexOnlyStorage(ix), nx)
                r = '%s %s' % (oid.hex(), 'none' if nxt is None else nxt.hex())
                if data != b'record of ' + oid:
                    r += ' loaded-another-record'
            elif t[0] == 'saveload':
                fn = os.path.join(tmpdir, 'ix.index')
                ix.save(int(t[1]), fn)
                d = fsIndex.load(fn)
                ix = d['index']
                r = 'pos=%d [%s]' % (d['pos'], ','.join('%s:%d' % (k.hex(), v) for k, v in ix.items()))
            elif t[0] == 'rebuild':
                old = ix
                if t[1] == 'dict':
                    ix = fsIndex(dict(old.items()))
                elif t[1] == 'fs':
                    ix = fsIndex(old)
                else:
                    # version-0 state (no state_version): {'_data': OOBTree prefix -> fsBucket}; a Python 2
                    # pickle read on Python 3 hands all-ASCII prefixes over as str
                    from BTrees.OOBTree import OOBTree
                    from BTrees.fsBTree import fsBucket
                    st = OOBTree()
                    # (one tree cannot hold str and bytes keys: str only when every prefix is ASCII)
                    as_str = t[1] == 'legacystr' and all(c < 0x80 for pk in old._data.keys() for c in pk)
                    for pk, b in old._data.items():
                        st[pk.decode('ascii') if as_str else pk] = fsBucket().fromString(b.toString())
                    ix = fsIndex.__new__(fsIndex)
                    ix.__setstate__({'_data': st})
                # the new index shares nothing with its source: disturb and drop the source
                for k0 in list(old.keys())[:3]:
                    old[k0] = 12345
                    old[k0[:6] + b'\xff\xfc'] = 1
                old.clear()
                r = '[' + ','.join('%s:%d' % (k.hex(), v) for k, v in ix.items()) + ']'
            elif t[0] == 'pickle':
                import pickle
                proto = 2 + len(out) % 3
                ix = pickle.loads(pickle.dumps(ix, proto))
                r = 'pos=0 [%s]' % ','.join('%s:%d' % (k.hex(), v) for k, v in ix.items())
            elif t[0] == 'bucketstr':
                b = ix._data.get(p64(int(t[1], 16))[:6])
                r = 'none' if b is None else b.toString().hex()
            else:
                r = 'bad-op'
        except AssertionError:
            r = 'err:Assertion'
        except Exception as e:
            r = errname(e)
        out.append(r)
    return out


# ---------------------------------------------------------------- direct oracle (sorted dict)
def run_oracle(ops):
    d = {}
    out = []
    for op in ops:
        t = op.split()
        ks = sorted(d)
        if t[0] == 'set':
            v = int(t[2])
            if v >= 2 ** 64:
                r = 'err:StructError'
            else:
                d[int(t[1], 16)] = v
                r = 'ok'
        elif t[0] == 'del':
            k = int(t[1], 16)
            if k in d:
                del d[k]
                r = 'ok'
            else:
                r = 'err:KeyError'
        elif t[0] == 'get':
            v = d.get(int(t[1], 16))
            r = 'none' if v is None else str(v)
        elif t[0] == 'contains':
            r = '1' if int(t[1], 16) in d else '0'
        elif t[0] == 'len':
            r = str(len(d))
        elif t[0] == 'keys':
            r = '[' + ','.join(hex8(k) for k in ks) + ']'
        elif t[0] == 'values':
            r = '[' + ','.join(str(d[k]) for k in ks) + ']'
        elif t[0] == 'items':
            r = '[' + ','.join('%s:%d' % (hex8(k), d[k]) for k in ks) + ']'
        elif t[0] == 'clear':
            d.clear()
            r = 'ok'
        elif t[0] == 'update':
            for kv in t[2].split(','):
                a, b = kv.split(':')
                d[int(a, 16)] = int(b)
            r = 'ok'
        elif t[0] == 'minkey':
            if len(t) == 1:
                r = hex8(ks[0]) if ks else 'err:ValueError'
            else:
                i = bisect.bisect_left(ks, int(t[1], 16))
                r = hex8(ks[i]) if i < len(ks) else 'err:ValueError'
        elif t[0] == 'maxkey':
            if len(t) == 1:
                r = hex8(ks[-1]) if ks else 'err:ValueError'
            else:
                i = bisect.bisect_right(ks, int(t[1], 16))
                r = hex8(ks[i - 1]) if i > 0 else 'err:ValueError'
        elif t[0] == 'iternext':
            i = 0 if t[1] == 'none' else bisect.bisect_left(ks, int(t[1], 16))
            if i >= len(ks):
                r = 'err:ValueError'
            else:
                r = '%s %s' % (hex8(ks[i]), hex8(ks[i + 1]) if i + 1 < len(ks) else 'none')
        elif t[0] == 'saveload':
            r = 'pos=%d [%s]' % (int(t[1]), ','.join('%s:%d' % (hex8(k), d[k]) for k in ks))
        elif t[0] == 'pickle':
            r = 'pos=0 [%s]' % ','.join('%s:%d' % (hex8(k), d[k]) for k in ks)
        elif t[0] == 'rebuild':
            r = '[' + ','.join('%s:%d' % (hex8(k), d[k]) for k in ks) + ']'
        elif t[0] == 'bucketstr':
            r = None        # internal observable: the oracle has no opinion
        else:
            r = 'bad-op'
        out.append(r)
    return out


def full_bucket_probe(tmpdir):
    """Oracle-only probe at the size boundary of the format (too large for the interpreted model driver;
    save_load_id is proved for every size): one bucket holding ALL 65536 suffixes of a prefix, one holding
    65535, both save/load paths, bounded queries at the bucket edges.  Returns None or (what, detail)."""
    import pickle
    from ZODB.fsIndex import fsIndex
    d = {}
    for s in range(65536):
        d[(5 << 16) + s] = (s * 7919) % (2 ** 48)
    for s in range(65535):
        d[(9 << 16) + s] = s + 1
    d[(2 ** 48 - 1 << 16) + 0xffff] = 2 ** 48 - 1
    ix = fsIndex()
    ix.update(dict((p64(k), v) for k, v in d.items()))
    want = sorted(d.items())

    def same(j, how):
        got = [(u64(k), v) for k, v in j.items()]
        if got != want:
            bad = [x for x in zip(got, want) if x[0] != x[1]][:1]
            return ('%s of an index with a full 65536-entry bucket: %d items instead of %d%s'
                    % (how, len(got), len(want), (', first difference %r' % (bad,)) if bad else ''), how)
        if len(j) != len(want):
            return ('%s: len() is %d for %d items' % (how, len(j), len(want)), how)
        return None
    try:
        r = same(ix, 'update()')
        if r:
            return r
        fn = os.path.join(tmpdir, 'full.index')
        ix.save(777, fn)
        ld = fsIndex.load(fn)
        if ld['pos'] != 777:
            return ('save/load: position %r instead of 777' % (ld['pos'],), 'save/load')
        r = same(ld['index'], 'save/load') or same(pickle.loads(pickle.dumps(ix, 3)), 'pickle round trip')
        if r:
            return r
        for k, want_min in (((5 << 16) + 0xffff, (5 << 16) + 0xffff), ((6 << 16), (9 << 16)),
                            ((9 << 16) + 0xffff, (2 ** 48 - 1 << 16) + 0xffff)):
            got = u64(ld['index'].minKey(p64(k)))
            if got != want_min:
                return ('minKey(%x) after save/load returned %x, a sorted dictionary returns %x'
                        % (k, got, want_min), 'minkey')
    except Exception as e:
        return ('an index with a full 65536-entry bucket: %s: %s' % (type(e).__name__, str(e)[:200]), 'raised')
    return None


def first_oracle_diff(real, orc):
    for i, (a, b) in enumerate(zip(real, orc)):
        if b is not None and a != b:
            return i
    return None


def signature(ops, i):
    op = ops[i].split()
    return 'C19:%s%s' % (op[0], ':key' if len(op) > 1 and op[0] in ('minkey', 'maxkey') else '')


def main(argv=None):
    ck = Check('C19', argv)
    ck.extra['modules'] = ['Props.C19', 'Props.Tie', 'Drivers.FsIndex']
    ck.run_gate(ck.extra['modules'], ['Props.C19', 'Props.Tie'])
    ncases = 400 if not ck.thorough else 6000
    cases = []
    # corpus first (minimised past failures / reproduced defects)
    corpus = [
        ['set 0000000000020001 10', 'set 0000000000030007 20', 'minkey 0000000000010005',
         'maxkey 0000000000040000', 'minkey ffffffffffffffff', 'maxkey 0000000000000000'],
        ['set 0000000000000005 1', 'maxkey 0000000000000003', 'set ffffffffffff0001 1',
         'minkey ffffffffffff0002'],
    ]
    corpus.append(['set 0000000000000001 1', 'set 0000000000000002 2', 'set 0000000000000003 3',
                   'update fs 0000000000000002:20,0000000000000007:70', 'items', 'len',
                   'set 0000000000000008 8', 'del 0000000000000007', 'items', 'saveload 9', 'items'])
    if ck.replay_path:
        import json
        with open(ck.replay_path) as f:
            corpus = [json.load(f)['case']['ops']]
        ncases = 0
    cases += corpus
    for _ in range(ncases):
        cases.append(gen_case(ck.rng, ck.rng.choice([8, 20, 40, 80])))
    # model: one driver run for all cases ("clear" between cases is part of the protocol)
    allops = []
    for ops in cases:
        allops += ['clear'] + ['saveload 0' if op == 'pickle' else 'items' if op.startswith('rebuild') else op
                               for op in ops]
    model_out = run_driver('FsIndex', allops)
    pos = 0
    for ops in cases:
        mo = model_out[pos + 1: pos + 1 + len(ops)]
        pos += 1 + len(ops)
        real = run_real(ops, ck.tmp)
        orc = run_oracle(ops)
        for op in ops:
            ck.count('op:' + op.split()[0])
        for r in real:
            if r.startswith('err:'):
                ck.count(r)
        # non-trivial: >= 2 prefixes present at some bounded query whose prefix is absent
        nontriv = nontrivial(ops)
        ck.case(ops, nontriv, sample=dict(ops=ops[:12], real=real[:12]) if nontriv else None)
        i = first_oracle_diff(real, orc)
        if i is not None:
            def fails(sub):
                return first_oracle_diff(run_real(sub, ck.tmp), run_oracle(sub)) is not None
            small = ddmin(ops[:i + 1], fails)
            rr, oo = run_real(small, ck.tmp), run_oracle(small)
            j = first_oracle_diff(rr, oo)
            ck.violation(signature(small, j),
                         'fsIndex %r returned %s, a sorted dictionary returns %s' % (small[j], rr[j], oo[j]),
                         dict(ops=small, real=rr, oracle=oo))
        elif real != mo:
            j = [k for k in range(len(ops)) if real[k] != mo[k]][0]
            ck.mismatch('model/impl differ at op %r: impl %s model %s' % (ops[j], real[j], mo[j]),
                        dict(ops=ops[:j + 1], real=real[:j + 1], model=mo[:j + 1]))
    pr = full_bucket_probe(ck.tmp)
    ck.count('probe:full-bucket')
    if pr is not None:
        ck.violation('C19:full-bucket:' + pr[1].replace(' ', '-').replace('/', '-'), pr[0],
                     dict(probe='full_bucket_probe', what=pr[0]))
    ck.finish(rule='seeded random op sequences over clustered keys (few 6-byte prefixes, dense '
                   'suffixes, prefixes 0 and 2^48-1), queries at every key +-1 and absent prefixes; '
                   'non-trivial = at least 2 prefixes present when a bounded minKey/maxKey query '
                   'with an absent prefix is made; distinct by hash of the op list',
              assumptions=['BTrees OOBTree/fsBucket behave as sorted maps (idealised in the model, '
                           'probed by this run)', 'pickle framing of save/load is runtime (the model '
                           'round-trips bucket strings; real save/load is executed and compared)'])


def nontrivial(ops):
    present = {}
    for op in ops:
        t = op.split()
        if t[0] == 'set' and int(t[2]) < 2 ** 64:
            present[int(t[1], 16)] = 1
        elif t[0] == 'del':
            present.pop(int(t[1], 16), None)
        elif t[0] == 'clear':
            present.clear()
        elif t[0] == 'update':
            for kv in t[2].split(','):
                present[int(kv.split(':')[0], 16)] = 1
        elif t[0] in ('minkey', 'maxkey') and len(t) == 2:
            pres = {k >> 16 for k in present}
            if len(pres) >= 2 and (int(t[1], 16) >> 16) not in pres:
                return True
    return False


if __name__ == '__main__':
    try:
        main()
    except InfraError as e:
        print('INFRA-ERROR', e)
        sys.exit(2)
