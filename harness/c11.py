"""C11 — In-memory objects follow the outcome of their transaction.
Correspondence: random programs over PersistentMapping / PersistentList / a custom Persistent class on
MappingStorage, FileStorage and DemoStorage, executed on the real ZODB.Connection and on the Lean
model (Drivers/Conn.lean); direct oracle: the property statement as Python (c11_lib.Oracle: committed
state + per-transaction pending sets), independent of Connection's algorithm and of the model."""
import os
import sys

sys.path.insert(0, os.path.dirname(os.path.abspath(__file__)))
from common import InfraError  # noqa: E402
import c11_lib  # noqa: E402


def main(argv=None):
    ck = c11_lib.run_check('C11', argv)
    ck.finish(
        rule='seeded random programs (6-36 ops + final reads) over 4-7 objects (mapping/list/custom class) on '
             'mapping, file and demo storage: modify, link/unlink (implicit add by reachability), conn.add, read, '
             'commit, abort, commit failing at every phase (second resource manager before/after the connection '
             'in tpc_begin/commit/tpc_vote/tpc_finish, fault of the j-th store, fault of tpc_vote, the state of object k '
             'failing to pickle, conflict with a commit of a second connection), close/reopen; every tenth case is a '
             'structured pickling-failure scenario (registered container / middle of the writer stack / last '
             'object, then re-link, commit, read elsewhere); plus 60 (thorough: 1500) programs of the '
             'multi-database family (two databases, primary+secondary connection: modify either, close the '
             'primary, reopen from the pool, commit, abort, reads through an independent pair; oracle only) and 45 '
             '(1000) of the explicit-transaction-manager family (begin/commit/abort/modify inside and OUTSIDE a '
             'transaction — refused with NoTransaction —, close, reopen; oracle only); Connection.sync() with pending '
             'changes; ZODB.Connection.resetCaches() between close and reopen (multi-database family); structured '
             'savepoint programs whose commit fails before the connection voted, plus 60 (thorough: 1500) of C12\'s '
             'scenarios and random savepoint/rollback programs (all judged by the oracle in C12 mode: the outcome '
             'of abort, commit and failed commit after savepoints and rollbacks); the pickling scenarios also '
             'reach new objects through persistent weak references pickled before / without an ordinary reference; non-trivial = a commit or savepoint found a new object '
             'by reachability and some commit failed or a joined transaction was aborted; distinct by hash of the case',
        assumptions=['generalisation pass: storage kinds mapping/file/demo plus hex-wrapped (mapping, file), '
                     'MVCCMappingStorage, DemoStorage(changes=FileStorage) and databases built by ZODB.config; DB '
                     'options pool_size=1, large_record_size, objects with states > 64 KiB; explicit transaction '
                     'managers in the main programs (the harness begins a transaction right after every boundary; '
                     'after a failed commit both observations are taken after the new begin()); ops touch '
                     '(_p_changed=True), get (conn.get(oid) is obj), xadd (another connection\'s add must be refused), '
                     'gc (cacheMinimize), spo (optimistic savepoint), spf (savepoint failing on an unpicklable object): '
                     'all against the Lean model (driver level for gc/get/xadd/touch/spf)',
                     'cases with a tiny cache_size (the cache GC of savepoint()/close() ghostifies at points the model '
                     'does not predict) are judged by the oracle alone (counter oracle-only:tiny-cache)',
                     'family misc (export/import inside transactions with savepoints, truncated export files, thousands '
                     'of new objects in one commit, __getstate__ creating objects, managers without savepoint support) '
                     'is judged by its own oracle alone; fixed finding C11:import:failed-import-poisons-next-commit '
                     'is reported under exactly that signature',
                     'the multi-database family also takes savepoints spanning both databases and exercises a refused '
                     'registration (TransactionFailedError) after a failed commit of the shared manager',
                     'every case runs under a 120 s time limit: a blocked step is reported as <pid>:timeout with its input',
                     'judged irrelevant to C11/C12: Connection.oldstate (read-only history access: C04/C15), direct '
                     'setstate/register calls (what every read/modification does), _p_changed = False on a modified '
                     'object (the application lying about its state), clocks / oid boundary values / pack / undo '
                     '(storage-level properties), readers between two steps (C01/C05 schedule checks)',
                     'the explicit-transaction-manager family is judged by the oracle alone: a refused registration has '
                     'no effect, the connection takes part in the next transaction as usual',
                     'a persistent weak reference is treated like an ordinary reference (ZODB adds and stores its '
                     'target); weak references occur only in structured cases without failing commits (a WeakRef '
                     'pickled in a failed attempt keeps the oid of that attempt: residual reported with C14)',
                     'the multi-database family is judged by the oracle alone (the Lean model has one database): '
                     'close succeeds exactly when no connection of the group is joined, a refused close has no '
                     'effect, a reopened pair shows committed state only',
                     'resolving a persistent reference through the pickle cache yields the object that was pickled '
                     '(idealised in the model, exercised by the run; C14 is about reference round trips)',
                     'the second connection only commits payload changes of committed objects',
                     'findings C11:new-object-keeps-oid-after-failed-store and C11:stored-new-object-ghostified-on-abort are '
                     'fixed in /repo (the model is of the repaired code; the reproducers are the first corpus cases and '
                     'both signatures stay as regressions); a case is compared with the model up to the first finding'])


if __name__ == '__main__':
    try:
        main()
    except InfraError as e:
        print('INFRA-ERROR', e)
        sys.exit(2)
